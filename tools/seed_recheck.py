#!/venv/bin/python
"""Regression sweep over the kept seeded changes: every patch that applies to /repo HEAD is
applied to a scratch worktree and the checks recorded in its meta.json (`checks_fired`) are
run against it; at least one of them must still exit 1.  Prints one line per seed and exits 1
if any seed is no longer detected."""
import json, glob, os, subprocess, sys, tempfile, shutil
from concurrent.futures import ThreadPoolExecutor

def one(mp):
    m = json.load(open(mp)); d = os.path.dirname(mp)
    if m.get("applies_to_head") is False:
        return m["id"], "skipped (kept at an older commit)", True
    wt = tempfile.mkdtemp(prefix="recheck_"); os.rmdir(wt)
    try:
        subprocess.run(["git", "-C", "/repo", "worktree", "add", "-q", "--detach", wt, "HEAD"], check=True)
        ap = subprocess.run(["git", "-C", wt, "apply", os.path.join(d, "patch.diff")], capture_output=True, text=True)
        if ap.returncode:
            return m["id"], "PATCH DOES NOT APPLY", False
        fired = []
        props = sorted(m.get("checks_fired") or []) or [m["property"]]
        env = dict(os.environ, PYDRA_SA_OUT=wt + "_out")
        for p in props:
            r = subprocess.run(["/venv/bin/python", "-m", "pydra_sa.check", p, "--repo", wt, "--no-write"], cwd="/verif", capture_output=True, text=True, env=env)
            if r.returncode == 1:
                fired.append(p)
        shutil.rmtree(wt + "_out", ignore_errors=True)
        return m["id"], "detected by " + ",".join(fired) if fired else "NOT DETECTED (was: %s)" % ",".join(props), bool(fired)
    finally:
        subprocess.run(["git", "-C", "/repo", "worktree", "remove", "--force", wt], capture_output=True)
        shutil.rmtree(wt, ignore_errors=True)

metas = sorted(glob.glob("/verif/seeded/*/meta.json"))
bad = 0
with ThreadPoolExecutor(6) as ex:
    for sid, msg, ok in ex.map(one, metas):
        print(("ok   " if ok else "FAIL ") + sid + ": " + msg, flush=True)
        bad += (not ok)
print(f"{len(metas)} seeds, {bad} not detected")
sys.exit(1 if bad else 0)
