#!/venv/bin/python
"""ad-hoc mutation probe: mut.py <PROP[,PROP]> <relpath> <old> <new>  (textual replace on a scratch copy)"""
import sys, shutil, tempfile, subprocess, os
props, rel, old, new = sys.argv[1:5]
d = tempfile.mkdtemp(prefix="mut_")
try:
    shutil.copytree("/repo/pydra", os.path.join(d, "pydra"), ignore=shutil.ignore_patterns("tests", "__pycache__", "*.pyc"))
    p = os.path.join(d, rel)
    s = open(p).read()
    if s.count(old) < 1:
        print("PATTERN NOT FOUND"); sys.exit(3)
    s = s.replace(old, new, 1)
    compile(s, p, "exec")
    open(p, "w").write(s)
    for pr in props.split(","):
        r = subprocess.run(["/venv/bin/python", "-m", "pydra_sa.check", pr, "--repo", d, "--no-write"], cwd="/verif", capture_output=True, text=True)
        lines = [l for l in r.stdout.splitlines() if not l.startswith("      ")]
        print(f"[{pr}] exit={r.returncode}")
        for l in lines[:12]:
            print("   ", l[:260])
finally:
    shutil.rmtree(d, ignore_errors=True)
