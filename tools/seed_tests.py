#!/venv/bin/python
"""Run the full pinned test-suite on every kept seeded change that has no test verdict
yet (serially; each run uses all cores) and record it in meta.json."""
import json, os, subprocess, sys, tempfile, shutil, glob
for meta_p in sorted(glob.glob("/verif/seeded/*/meta.json")):
    meta = json.load(open(meta_p))
    if meta.get("tests") not in ("pending", None) and "--all" not in sys.argv:
        continue
    d = os.path.dirname(meta_p)
    wt = tempfile.mkdtemp(prefix="seedtest_"); os.rmdir(wt)
    try:
        subprocess.run(["git", "-C", "/repo", "worktree", "add", "-q", "--detach", wt, "HEAD"], check=True)
        shutil.copy("/repo/pydra/utils/_version.py", os.path.join(wt, "pydra/utils/_version.py"))  # git-ignored, generated at install time
        ap = subprocess.run(["git", "-C", wt, "apply", os.path.join(d, "patch.diff")], capture_output=True, text=True)
        if ap.returncode:
            meta["tests"] = "patch does not apply: " + ap.stderr[-200:]
        else:
            r = subprocess.run(["/verif/tools/run_baseline.py", wt], capture_output=True, text=True)
            tail = r.stdout.strip().splitlines()[-8:]
            meta["tests"] = {"stable_tests_all_pass": r.returncode == 0, "summary": tail}
            meta["what_was_run"] = meta.get("what_was_run", []) + ["tools/run_baseline.py <patched worktree> (full suite, pytest-xdist, compared with BASELINE.stable_pass)"]
    finally:
        subprocess.run(["git", "-C", "/repo", "worktree", "remove", "--force", wt], capture_output=True)
        shutil.rmtree(wt, ignore_errors=True)
    json.dump(meta, open(meta_p, "w"), indent=1)
    print(meta["id"], meta["tests"] if isinstance(meta["tests"], str) else meta["tests"]["stable_tests_all_pass"], flush=True)
