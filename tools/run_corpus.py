#!/venv/bin/python
"""run the self-validation corpus of one or all properties and print failures"""
import sys, json
sys.path.insert(0, "/verif")
from pydra_sa.selftest import run_corpus
from pydra_sa.corpus import VARIANTS
props = sys.argv[1:] or sorted(VARIANTS)
tot = {"b": 0, "k": 0, "n": 0, "s": 0, "skip": 0}
for p in props:
    r = run_corpus(p, "/repo", 0)
    tot["b"] += r["breaking_variants"]; tot["k"] += r["killed"]; tot["n"] += r["benign_variants"]; tot["s"] += r["benign_silent"]; tot["skip"] += r["skipped"]
    print(f"{p}: killed {r['killed']}/{r['breaking_variants']}  benign silent {r['benign_silent']}/{r['benign_variants']}  skipped {r['skipped']}")
    for f in r["failures"]:
        print("   FAIL", f.get("kind"), "|", f["name"], "| exit", f.get("exit"), "| fired", f.get("fired"), "named", f.get("named"), "|", (f.get("first") or "")[:160])
    for v in r["variants"]:
        if v["kind"] == "skipped":
            print("   SKIP", v["name"])
print(tot)
