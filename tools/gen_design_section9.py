#!/venv/bin/python
"""Regenerate DESIGN.md section 9 (the checks as built) from the rule registry and the
evidence files of the last run."""
import sys, json
sys.path.insert(0, "/verif")
from pydra_sa.rules import load_all

reg = load_all()
titles = {json.loads(l)["id"]: json.loads(l)["title"] for l in open("/verif/properties.jsonl")}
out = ["## 9. The checks as built (generated from the rule registry and the last evidence run)\n",
       "One paragraph per claimed property: the technique, what the check decides, what it does not, and the\nrule ids with the number of rule instances evaluated on the current tree (from `evidence/<id>.json`).\nThis section supersedes the per-property claims of section 3 where they differ; section 3 is kept as the\ndesign-time record.\n"]
for pid, spec in sorted(reg.items()):
    ev = json.load(open(f"/verif/evidence/{pid}.json"))
    rules = sorted({s["rule"] for s in ev["coverage"].get("samples", [])})
    out += [f"### {pid} {titles[pid]}\n", f"*Technique.* {spec.technique}\n", f"*Decides.* {spec.decides}\n", f"*Does not decide.* {spec.not_decided}\n", f"*Trusted.* {spec.level_note}\n",
            f"*On the current tree.* {ev['coverage']['evaluations']} rule instances over {len(ev['coverage'].get('scope_functions', []))} functions; rules: " + ", ".join(f"`{r}`" for r in rules) + f"; known findings printed: {len(ev['coverage'].get('known_findings_printed', []))}.\n"]
text = "\n".join(out)
s = open("/verif/DESIGN.md").read()
marker = "## Appendix A. Rule specifications"
i, j = s.index("## 9. The checks as built"), s.index(marker)
open("/verif/DESIGN.md", "w").write(s[:i] + text + "\n--------------------------------------------------------------------------------\n\n" + s[j:])
print("section 9 regenerated,", len(text), "characters")
