#!/venv/bin/python
"""One-off helper used while triaging: prints the open findings of every check as JSON
skeletons for known_findings.json (the file itself is edited and committed by hand;
no check ever writes it)."""
import json, sys
sys.path.insert(0, "/verif")
from pydra_sa.engine import Analysis
from pydra_sa.rules import load_all
from pydra_sa.report import Collector

reg = load_all()
A = Analysis("/repo")
out = []
for pid, spec in sorted(reg.items()):
    col = Collector(pid, "quick")
    spec.fn(A, col)
    for f in col.findings:
        out.append({"property": pid, "key": f.key, "what": f.message, "loc_at_triage": f.loc})
print(json.dumps(out, indent=1))
