#!/venv/bin/python
"""Print the sub-agent prompt for seeding a breaking change for one property.
Usage: mk_agent_prompt.py <PROP> <worktree> <outdir>"""
import json, sys
pid, wt, out = sys.argv[1:4]
prop = next(json.loads(l) for l in open("/verif/properties.jsonl") if json.loads(l)["id"] == pid)
anchors = "\n".join(f"  - {m['name']}  ({m['where']})" for m in prop["anchors"]["mechanism"])
print(f"""You are helping to evaluate a verification tool by writing realistic *faulty variants* of an open-source Python project (nipype/pydra, a dataflow engine). You work ONLY inside the git worktree `{wt}` (a checkout of the project). Do not read or write anything under /verif or /repo, and do not look for other tooling on the machine: your work must be independent.

## The property the project is supposed to satisfy

**{prop['title']}**

{prop['statement']}

Quantified over: {prop['quantifier']['text']}

Why the existing tests cannot settle it: {prop['why_tests_cant']}

Code involved (file:line are approximate):
{anchors}

## Your job

Produce **two different** small source changes (two separate patches, different mechanisms / different code sites) to the `pydra` package in `{wt}` (NOT to its tests), each of which:

1. **breaks the property above** (a user relying on the property would be hurt),
2. still **compiles and passes the project's existing test-suite** (the change must be the kind of plausible bug a code review could miss: a refactoring slip, an "optimisation", a reordered statement, a weakened condition, a dropped guard, an off-by-one, a wrong variable, a cleanup moved out of a `finally`, two sites that each look fine alone, ...),
3. needs **something specific to manifest** -- a particular interleaving, a crash/exception at a particular point, a multi-step sequence of operations, an unusual input, or two cooperating sites -- and is NOT exposed at once by ordinary use (otherwise the tests would catch it).

For each patch also write a **demonstration**: a small stand-alone Python script that exits with status 1 (printing what went wrong) when run against the changed tree and exits 0 against the unchanged tree. Scripts are run as `cd {wt} && /venv/bin/python <script>` (the current directory is first on sys.path, so `import pydra` picks up the worktree's code; keep it that way, do not install anything). Use temporary directories for caches. Keep demos fast (< 60 s) and deterministic; to force schedules or faults use monkeypatching, hooks, threads/events, or direct calls of internal functions -- whatever is needed.

## How to work

* Python: `/venv/bin/python` (3.12). Run tests with e.g. `cd {wt} && /venv/bin/python -m pytest -q -p no:cacheprovider --no-cov -x -n 4 pydra/engine/tests/test_job.py` (pytest-xdist is available; the full suite takes ~10 minutes with `-n 8`, so first run the test modules closest to your change, then as much more of the suite as you reasonably can; at minimum the whole `pydra/engine/tests` and `pydra/compose/tests/test_workflow_run.py` for engine changes, or the directory of tests next to the code you changed). A few tests fail already on the unchanged tree for lack of network (test_audit provenance tests, test_typing_cast, test_hash_file, test_copyfile_workflow_conflicting_filenames, a few numpy/docs ones) -- ignore those.
* Start from a clean tree for each patch: `git -C {wt} diff > <file>; git -C {wt} checkout -- .` between the two (do NOT use `git stash`: the stash is shared by every worktree of the repository and other agents work in sibling worktrees).
* Verify each demo both ways (fails with the patch, passes without: `git -C {wt} diff > p.diff; git -C {wt} checkout -- .; run; git -C {wt} apply p.diff` -- never `git stash`).
* Save your results under `{out}/1/` and `{out}/2/` (create the directories): `patch.diff` (output of `git -C {wt} diff` with ONLY the source change, not the demo), `demo.py`, and `notes.md` (what the change is, why it breaks the property, what it needs in order to manifest, exactly which test commands you ran and their pass/fail counts).
* The machine is shared with other jobs: use at most `-n 4`, and do not run the entire test-suite (it is run on your patches afterwards); run the test modules next to your change and the directories named above.
* `pydra/utils/_version.py` in the worktree is a git-ignored generated file that was copied in for you; leave it there, never include it in a patch.
* If, while exploring, you find that the UNCHANGED tree already violates the property for some input, schedule or history, that is valuable: write a repro script under `{out}/existing/` (exit 1 when the violation shows, run the same way as the demos) and describe it in your report.
* Leave the worktree clean at the end (`git -C {wt} checkout -- .`; remove untracked files you created in it).

Report back briefly: for each of the two patches a 3-line summary (site changed, what breaks, what is needed to manifest) and whether the demo/test verification succeeded. If you could only produce one convincing patch, say so.""")
