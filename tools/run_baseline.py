#!/venv/bin/python
"""Run the repository's pinned test suite (in parallel, private use) and compare with
BASELINE.stable_pass.  Usage: run_baseline.py [repo_dir] [-n JOBS]"""
import json, subprocess, sys, tempfile, os, xml.etree.ElementTree as ET

repo = sys.argv[1] if len(sys.argv) > 1 and not sys.argv[1].startswith("-") else "/repo"
jobs = "16"
if "-n" in sys.argv:
    jobs = sys.argv[sys.argv.index("-n") + 1]
base = json.load(open("/root/.vp/BASELINE.json"))
stable = set(base["stable_pass"])
out = tempfile.mkdtemp(prefix="baseline_")
xml = os.path.join(out, "junit.xml")
cmd = ["/venv/bin/python", "-m", "pytest", "-q", "-p", "no:cacheprovider", "--timeout=900", "--continue-on-collection-errors", "--no-cov", "-rf", "-n", jobs, f"--junitxml={xml}"]
env = dict(os.environ)
# tests that use pydra's default cache root share ~/.cache/pydra/<version>/run-cache between checkouts:
# a pickle left there by another tree (e.g. a seeded change) breaks unrelated tests. Give the run its own.
_xdg = tempfile.mkdtemp(prefix="xdgcache_")
env["XDG_CACHE_HOME"] = _xdg
import atexit, shutil
atexit.register(lambda: shutil.rmtree(_xdg, ignore_errors=True))
class _R:  # result holder


    pass


def _run_to_file(cmd_):
    """run pytest with its output in a file, not a pipe: worker processes orphaned by a test (cf pools)
    keep a pipe open for ever and subprocess.run would wait for its EOF long after pytest has exited"""
    logf = tempfile.NamedTemporaryFile("w+", prefix="pytest_out_", suffix=".log", delete=False)
    pr = subprocess.Popen(cmd_, cwd=repo, env=env, stdout=logf, stderr=subprocess.STDOUT, start_new_session=True)
    rc = pr.wait()
    # kill whatever the run left behind in its session
    try:
        os.killpg(pr.pid, 9)
    except Exception:
        pass
    logf.flush()
    r = _R()
    r.returncode = rc
    r.stdout = open(logf.name).read()
    os.unlink(logf.name)
    return r


p = _run_to_file(cmd)
tail = p.stdout.strip().splitlines()[-3:]
passed = set()
failed = set()
for tc in ET.parse(xml).getroot().iter("testcase"):
    name = f"{tc.get('classname')}::{tc.get('name')}"
    bad = any(ch.tag in ("failure", "error") for ch in tc)
    skipped = any(ch.tag == "skipped" for ch in tc)
    if bad:
        failed.add(name)
    elif not skipped:
        passed.add(name)
# a test listed as FAILED in pytest's final summary failed for good, even when an earlier
# or later attempt of the rerun plugin passed
import re
for line in p.stdout.splitlines():
    m = re.match(r"FAILED (\S+?)::(\S+)", line)
    if m:
        name = m.group(1).replace("/", ".").removesuffix(".py") + "::" + m.group(2)
        failed.add(name)
        passed.discard(name)
missing = sorted(stable - passed)
# timing-based tests flake on a loaded machine: re-run the stable tests that did not pass, alone
if missing and len(missing) <= 12 and "--no-retry" not in sys.argv:
    ids = []
    for m in missing:
        mod, name = m.split("::", 1)
        ids.append(mod.replace(".", "/") + ".py::" + name)
    r2 = _run_to_file(["/venv/bin/python", "-m", "pytest", "-q", "-p", "no:cacheprovider", "--timeout=900", "--no-cov", "-rf", "-p", "no:randomly"] + ids)
    still = set()
    for line in r2.stdout.splitlines():
        mm = re.match(r"FAILED (\S+?)::(\S+)", line)
        if mm:
            still.add(mm.group(1).replace("/", ".").removesuffix(".py") + "::" + mm.group(2))
    if r2.returncode == 0:
        still = set()
    print(f"re-ran {len(ids)} non-passing stable tests alone: {len(still)} still failing")
    missing = sorted(still) if (r2.returncode == 0 or still) else missing
print("\n".join(tail))
print(f"stable_pass={len(stable)} passed_now={len(passed)} failed_now={len(failed)} stable_not_passing={len(missing)}")
for m in missing[:40]:
    print("  NOT PASSING:", m, "(failed)" if m in failed else "(absent/skipped)")
import shutil
shutil.rmtree(out, ignore_errors=True)
sys.exit(1 if missing else 0)
