#!/venv/bin/python
"""Keep a confirmed seeded change:  seed_keep.py <candidate_dir> <seed_id> <PROP> "<needs to manifest>"
Runs seed_check (demo both ways + all checks), copies patch/demo/notes into
/verif/seeded/<seed_id>/ and writes meta.json.  The full test-suite result is added
later by seed_tests.py."""
import json, os, shutil, subprocess, sys
cand, sid, prop, needs = sys.argv[1:5]
r = subprocess.run(["/verif/tools/seed_check.py", cand], capture_output=True, text=True)
out = json.loads(r.stdout[r.stdout.index("{"):])
ok = out["demo_clean"][0] == 0 and out.get("demo_patched", [0])[0] not in (0, None)
dst = f"/verif/seeded/{sid}"
os.makedirs(dst, exist_ok=True)
for f in ("patch.diff", "demo.py", "notes.md"):
    if os.path.exists(os.path.join(cand, f)):
        shutil.copy(os.path.join(cand, f), os.path.join(dst, f))
meta = {
    "id": sid,
    "property": prop,
    "written_by": "independent sub-agent given only the property text and a scratch worktree",
    "needs_to_manifest": needs,
    "demo": {"unchanged_tree_exit": out["demo_clean"][0], "patched_tree_exit": out.get("demo_patched", [None])[0], "patched_output_tail": out.get("demo_patched", [None, ""])[1][-300:]},
    "confirmed_demo": ok,
    "checks_fired": {k: v["reports"][:2] for k, v in out.get("checks_fired", {}).items()},
    "detected": bool(out.get("checks_fired")),
    "detected_by_own_property_check": prop in out.get("checks_fired", {}),
    "what_was_run": ["tools/seed_check.py (demo on unchanged and patched scratch worktree; every registered quick check with --repo <patched worktree>)"],
    "tests": "pending",
}
json.dump(meta, open(os.path.join(dst, "meta.json"), "w"), indent=1)
print(sid, "demo_ok" if ok else "DEMO NOT CONFIRMED", "fired:", sorted(out.get("checks_fired", {})))
