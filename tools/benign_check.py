#!/venv/bin/python
"""False-alarm probe: apply a behaviour-preserving patch (written by a sub-agent that only
saw the source) to a scratch worktree of /repo HEAD and run every registered quick check
against it.  Any exit 1 is a false alarm, any exit 2 an analysis error ("anchor moved").

usage: benign_check.py <dir with patch.diff> [...]   -> JSON lines"""
import json, os, subprocess, sys, tempfile, shutil
from concurrent.futures import ThreadPoolExecutor

man = json.load(open("/verif/MANIFEST.json"))
pids = [c["property_id"] for c in man["checks"]]
for cand in sys.argv[1:]:
    cand = os.path.abspath(cand)
    wt = tempfile.mkdtemp(prefix="benign_"); os.rmdir(wt)
    out = {"candidate": cand}
    try:
        subprocess.run(["git", "-C", "/repo", "worktree", "add", "-q", "--detach", wt, "HEAD"], check=True)
        ap = subprocess.run(["git", "-C", wt, "apply", os.path.join(cand, "patch.diff")], capture_output=True, text=True)
        out["apply"] = ap.returncode
        if ap.returncode:
            out["apply_err"] = ap.stderr[-300:]
        else:
            out["files"] = subprocess.run(["git", "-C", wt, "diff", "--stat"], capture_output=True, text=True).stdout.strip().splitlines()[-1:]
            env = dict(os.environ, PYDRA_SA_OUT=tempfile.mkdtemp(prefix="benign_out_"))
            def run(pid):
                r = subprocess.run(["/venv/bin/python", "-m", "pydra_sa.check", pid, "--repo", wt, "--no-write"], cwd="/verif", capture_output=True, text=True, env=env)
                lines = [l.strip()[:260] for l in r.stdout.splitlines() if (l.startswith("  ") and not l.startswith("      ")) or l.startswith("ANALYSIS-ERROR")]
                return pid, r.returncode, lines[:3]
            with ThreadPoolExecutor(8) as ex:
                res = list(ex.map(run, pids))
            out["alarms"] = {p: l for p, rc, l in res if rc == 1}
            out["analysis_errors"] = {p: l for p, rc, l in res if rc not in (0, 1)}
            shutil.rmtree(env["PYDRA_SA_OUT"], ignore_errors=True)
    finally:
        subprocess.run(["git", "-C", "/repo", "worktree", "remove", "--force", wt], capture_output=True)
        shutil.rmtree(wt, ignore_errors=True)
    print(json.dumps(out), flush=True)
