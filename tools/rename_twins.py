#!/venv/bin/python
"""Benign-twin generator: rename one local variable of one function in a scratch copy
and require the property's check to stay silent (exit 0).

usage: rename_twins.py [PROP ...]      (default: every property with an evidence file)
The functions considered are the `scope_functions` the check itself reported in its
evidence.  Locals = names bound in the function's own scope that are not parameters,
not global/nonlocal, not imported.  The renamed source is produced from the AST
(positions of Name nodes), so only that identifier changes."""
import ast, json, os, shutil, subprocess, sys, tempfile, glob
from concurrent.futures import ThreadPoolExecutor

sys.path.insert(0, "/verif")
from pydra_sa.model import Repo, walk_own

repo = Repo("/repo")
props = sys.argv[1:] or sorted(os.path.basename(f)[:-5] for f in glob.glob("/verif/evidence/C*.json"))


def locals_of(fi):
    node = fi.node
    params = {a.arg for a in node.args.posonlyargs + node.args.args + node.args.kwonlyargs}
    if node.args.vararg:
        params.add(node.args.vararg.arg)
    if node.args.kwarg:
        params.add(node.args.kwarg.arg)
    bound, banned = set(), set(params)
    for n in walk_own(node):
        if isinstance(n, ast.Name) and isinstance(n.ctx, ast.Store):
            bound.add(n.id)
        elif isinstance(n, (ast.Global, ast.Nonlocal)):
            banned |= set(n.names)
        elif isinstance(n, (ast.Import, ast.ImportFrom)):
            for a in n.names:
                banned.add((a.asname or a.name).split(".")[0])
        elif isinstance(n, ast.ExceptHandler) and n.name:
            banned.add(n.name)
    # names also used by nested defs are skipped (closure capture would need care)
    for sub in ast.walk(node):
        if sub is not node and isinstance(sub, (ast.FunctionDef, ast.AsyncFunctionDef, ast.Lambda, ast.ClassDef)):
            for k in ast.walk(sub):
                if isinstance(k, ast.Name):
                    banned.add(k.id)
    return sorted(bound - banned - {"_"})


def renamed_source(fi, name):
    src = fi.module.source
    lines = src.splitlines(keepends=True)
    new = name + "_rn"
    spots = []
    for n in walk_own(fi.node):
        if isinstance(n, ast.Name) and n.id == name:
            spots.append((n.lineno, n.col_offset))
    # col_offset is in utf8 bytes
    for ln, col in sorted(spots, reverse=True):
        b = lines[ln - 1].encode()
        if b[col : col + len(name.encode())] != name.encode():
            return None
        lines[ln - 1] = (b[:col] + new.encode() + b[col + len(name.encode()) :]).decode()
    out = "".join(lines)
    try:
        compile(out, fi.module.relpath, "exec")
    except SyntaxError:
        return None
    return out


base = tempfile.mkdtemp(prefix="rn_base_")
shutil.copytree("/repo/pydra", os.path.join(base, "pydra"), ignore=shutil.ignore_patterns("tests", "__pycache__", "*.pyc"))
jobs = []
for p in props:
    ev = json.load(open(f"/verif/evidence/{p}.json"))
    for q in ev["coverage"].get("scope_functions", []):
        fi = repo.functions.get(q)
        if fi is None:
            continue
        for name in locals_of(fi):
            jobs.append((p, q, name))
print(f"{len(jobs)} rename twins over {len(props)} properties")


def run(job):
    p, q, name = job
    fi = repo.functions[q]
    src = renamed_source(fi, name)
    if src is None:
        return (job, "skip", "")
    d = tempfile.mkdtemp(prefix="rn_")
    try:
        # hard-link tree, replace one file
        shutil.copytree(os.path.join(base, "pydra"), os.path.join(d, "pydra"), copy_function=os.link)
        tgt = os.path.join(d, fi.module.relpath)
        os.unlink(tgt)
        open(tgt, "w").write(src)
        r = subprocess.run(["/venv/bin/python", "-m", "pydra_sa.check", p, "--repo", d, "--no-write", "--quiet"], cwd="/verif", capture_output=True, text=True)
        return (job, r.returncode, r.stdout.strip()[-300:])
    finally:
        shutil.rmtree(d, ignore_errors=True)


bad = []
with ThreadPoolExecutor(max_workers=12) as ex:
    for job, rc, out in ex.map(run, jobs):
        if rc not in (0, "skip"):
            bad.append((job, rc, out))
            print("ALARM", job, rc, out.replace("\n", " | ")[:260])
shutil.rmtree(base, ignore_errors=True)
print(f"{len(bad)} alarms on benign renames out of {len(jobs)}")
