#!/venv/bin/python
"""Confirm a candidate seeded change and run the checks against it.

usage: seed_check.py <candidate_dir> [--tests] [--props C10,C12]
  candidate_dir holds patch.diff and demo.py (written by a sub-agent).
Steps (all in a scratch worktree under /tmp, removed afterwards):
  1. demo on the unchanged tree must exit 0, with the patch applied must exit != 0
  2. every registered quick check is run against the patched tree (--repo)
  3. with --tests: the full test-suite on the patched tree vs BASELINE.stable_pass
Prints a JSON summary."""
import json, os, subprocess, sys, tempfile, shutil, time

cand = os.path.abspath(sys.argv[1])
run_tests = "--tests" in sys.argv
props = None
if "--props" in sys.argv:
    props = sys.argv[sys.argv.index("--props") + 1].split(",")
wt = tempfile.mkdtemp(prefix="seedchk_")
os.rmdir(wt)
out = {"candidate": cand}
try:
    subprocess.run(["git", "-C", "/repo", "worktree", "add", "-q", "--detach", wt, "HEAD"], check=True)
    shutil.copy("/repo/pydra/utils/_version.py", os.path.join(wt, "pydra/utils/_version.py"))  # git-ignored, generated at install time
    demo = os.path.join(cand, "demo.py")
    shutil.copy(demo, os.path.join(wt, "_demo.py"))
    env = dict(os.environ)
    env.pop("PYTHONPATH", None)
    def run_demo():
        t = time.time()
        try:
            r = subprocess.run(["/venv/bin/python", "_demo.py"], cwd=wt, capture_output=True, text=True, timeout=600, env=env)
            return r.returncode, (r.stdout + r.stderr)[-600:], round(time.time() - t, 1)
        except subprocess.TimeoutExpired:
            return "timeout", "", 600
    out["demo_clean"] = run_demo()
    ap = subprocess.run(["git", "-C", wt, "apply", os.path.join(cand, "patch.diff")], capture_output=True, text=True)
    out["apply"] = ap.returncode
    if ap.returncode:
        out["apply_err"] = ap.stderr[-400:]
        print(json.dumps(out, indent=1))
        raise SystemExit(3)
    out["demo_patched"] = run_demo()
    out["files"] = subprocess.run(["git", "-C", wt, "diff", "--stat"], capture_output=True, text=True).stdout.strip().splitlines()[-1:]
    man = json.load(open("/verif/MANIFEST.json"))
    fired = {}
    for c in man["checks"]:
        pid = c["property_id"]
        if props and pid not in props:
            continue
        r = subprocess.run(["/venv/bin/python", "-m", "pydra_sa.check", pid, "--repo", wt, "--no-write"], cwd="/verif", capture_output=True, text=True)
        if r.returncode != 0:
            lines = [l.strip()[:230] for l in r.stdout.splitlines() if (l.startswith("  ") and not l.startswith("      ")) or l.startswith("ANALYSIS-ERROR")]
            fired[pid] = {"exit": r.returncode, "reports": lines[:4]}
    out["checks_fired"] = fired
    if run_tests:
        r = subprocess.run(["/verif/tools/run_baseline.py", wt], capture_output=True, text=True)
        out["tests"] = r.stdout.strip().splitlines()[-6:]
        out["tests_ok"] = r.returncode == 0
finally:
    subprocess.run(["git", "-C", "/repo", "worktree", "remove", "--force", wt], capture_output=True)
    shutil.rmtree(wt, ignore_errors=True)
print(json.dumps(out, indent=1))
