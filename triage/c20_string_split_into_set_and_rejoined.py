"""Situations where the UNCHANGED tree already violates the property
"accepted field values conform to the declared type; strings are never silently split
into sequences nor sequences joined into strings; coercing again is a no-op".

Run as: cd /tmp/wt_C20 && /venv/bin/python /tmp/seed_C20/unchanged_tree_violations.py
Exits 1 and lists the violations if any of them is present (which is the case for the
unchanged tree), 0 if none.
"""

import os
import sys

sys.path.insert(0, os.getcwd())

import typing as ty  # noqa: E402
import pydra.engine  # noqa: E402

assert pydra.engine.__file__.startswith(os.getcwd()), pydra.engine.__file__

from pydra.compose import python  # noqa: E402
from pydra.utils.typing import TypeParser, MultiInputObj  # noqa: E402

found = []


def attempt(tp, value, **kw):
    try:
        return True, TypeParser(tp, **kw)(value)
    except TypeError:
        return False, None


# (1) a string given to a set-typed field is split into its characters: the
#     (Sequence -> Set) coercion is allowed, and NOT_COERCIBLE_DEFAULT only excludes
#     (str -> Sequence), which a set target does not match.
for tp in (set[str], frozenset[str], ty.Set[str], set):
    ok, res = attempt(tp, "abc")
    if ok and res != "abc":
        found.append(f"TypeParser({tp})('abc') accepted and split the string: {res!r}")

# (2) a string given to an abstract sequence/iterable/collection of str is mangled into
#     the repr of the list of its characters ("['a', 'b', 'c']"), and coercing the
#     result again changes it again (not idempotent).
for tp in (ty.Sequence[str], ty.Iterable[str], ty.Collection[str]):
    ok, res = attempt(tp, "abc")
    if ok and res != "abc":
        ok2, res2 = attempt(tp, res)
        found.append(
            f"TypeParser({tp})('abc') -> {res!r}; coercing that again -> {res2!r}"
        )

# (3) an un-parameterised MultiInputObj inside an Optional splits a single string
#     (make_converter only inserts ensure_list when the field type is exactly
#     MultiInputObj / MultiInputFile)
ok, res = attempt(ty.Optional[MultiInputObj], "abc")
if ok and res != ["abc"]:
    found.append(f"TypeParser(Optional[MultiInputObj])('abc') -> {res!r}")


@python.define
def Tags(tags: set[str]) -> int:
    return len(tags)


try:
    t = Tags(tags="abc")
except TypeError:
    pass
else:
    if t.tags != "abc":
        found.append(f"Tags(tags='abc').tags == {t.tags!r} (task field, string split)")

if found:
    print("Property violations present in this tree:")
    for f in found:
        print("  -", f)
    sys.exit(1)
print("none of the known unchanged-tree violations is present")
sys.exit(0)
