import os, sys, tempfile, time
from pathlib import Path
from pydra.compose import python, workflow
from pydra.engine.submitter import Submitter
tmp = Path(tempfile.mkdtemp())
log = tmp/"log.txt"

@python.define
def Step(x: int, log: str, dur: float, fail: bool) -> int:
    import time
    with open(log, "a") as f: f.write(f"S {x}\n")
    time.sleep(dur)
    if fail: raise RuntimeError(f"boom {x}")
    with open(log, "a") as f: f.write(f"E {x}\n")
    return x

@workflow.define(outputs=["o1","o2"])
def W(log: str) -> tuple[list[int], int]:
    a = workflow.add(Step(log=log).split(("x","dur","fail"), x=[0,1], dur=[1.5,0.2], fail=[True,False]), name="A")
    d = workflow.add(Step(x=10, log=log, dur=3.0, fail=False), name="D")
    c = workflow.add(Step(x=d.out, log=log, dur=0.1, fail=False), name="C")
    return a.out, c.out

if __name__ == "__main__":
    try:
        with Submitter(worker="cf", n_procs=4, cache_root=tmp/"c") as sub:
            res = sub(W(log=str(log)), raise_errors=True)
        print("no error?!", res.errored)
    except Exception as e:
        print("ERR", type(e).__name__, str(e)[:300].replace("\n"," | "))
    time.sleep(4)
    print(log.read_text().replace("\n", "; "))
