import shlex
from pydra.compose import shell
from pydra.utils.mount_identifier import MountIndentifier as M
T = shell.define("echo", inputs={"x": shell.arg(type=str, argstr="-x", position=1)}, name="T")
t = T(x="a b", append_args=["it's", "p\\q"])
argv = t._command_args(values={"executable":"echo","x":"a b","append_args":["it's","p\\q"]})
print("argv", argv)
print("cmdline", t.cmdline)
try: print("resplit", shlex.split(t.cmdline))
except Exception as e: print("resplit error", e)
with M.patch_table([("/data","cifs")]):
    print("C38", M.get_mount("/data2/x"), M.on_cifs("/data2/x"))
