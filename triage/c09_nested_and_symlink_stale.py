"""UNCHANGED tree already violates "file hashes always reflect current content":

The persistent-cache key only contains the lstat() of the *top-level* paths of a file set:
  * Directory inputs: rewriting a file inside the directory (direct child or nested) does
    not change the directory's own mtime/ctime/size -> stale hash of the old tree content
  * a File given through a symlink: lstat() is the link's stat, rewriting the target does
    not change it -> stale hash of the old target content
Exits 1 (listing the violated cases) on the unchanged tree.
Run: cd /tmp/wt_C09 && /venv/bin/python /tmp/seed_C09/baseline_violation.py
"""
import os, sys
sys.path.insert(0, os.getcwd())
import tempfile, shutil
from pathlib import Path
import pydra.engine
assert pydra.engine.__file__.startswith(os.getcwd()), pydra.engine.__file__
from pydra.utils.hash import hash_object
from fileformats.generic import File, Directory

tmp = Path(tempfile.mkdtemp())
cache = tmp / "cache"; cache.mkdir()
bad = []

# 1. directory with nested file rewritten in place
d = tmp / "d"; (d / "sub").mkdir(parents=True)
f = d / "sub" / "a.txt"; f.write_text("foo")
h1 = hash_object(Directory(d), persistent_cache=cache)
f.write_text("barbaz")
h2 = hash_object(Directory(d), persistent_cache=cache)
ref = hash_object(Directory(d), persistent_cache=tmp / "fresh1")
print("dir nested rewrite: stale" if h2 == h1 else "dir nested ok", h2 != ref)
if h2 != ref: bad.append("directory")

# 1b. directory direct child rewritten in place
d2 = tmp / "d2"; d2.mkdir()
f = d2 / "a.txt"; f.write_text("foo")
h1 = hash_object(Directory(d2), persistent_cache=cache)
f.write_text("barbaz")
h2 = hash_object(Directory(d2), persistent_cache=cache)
ref = hash_object(Directory(d2), persistent_cache=tmp / "fresh1b")
print("dir child rewrite stale:", h2 != ref)
if h2 != ref: bad.append("directory-child")

# 2. symlink to file, target rewritten
t = tmp / "target.txt"; t.write_text("foo")
l = tmp / "link.txt"; l.symlink_to(t)
h1 = hash_object(File(l), persistent_cache=cache)
print(File(l).fspath)
t.write_text("barbaz")
h2 = hash_object(File(l), persistent_cache=cache)
ref = hash_object(File(l), persistent_cache=tmp / "fresh2")
print("symlink target rewrite stale:", h2 != ref)
if h2 != ref: bad.append("symlink")
shutil.rmtree(tmp)
if bad:
    print("UNCHANGED-TREE VIOLATIONS:", bad); sys.exit(1)
