import tempfile
from pathlib import Path
from pydra.compose import python, workflow
@python.define
def Add(x: int) -> int:
    return x + 1
@workflow.define
def W(x: int) -> int:
    a = workflow.add(Add(x=x), name="A")
    return a.out
tmp = Path(tempfile.mkdtemp())
w = W(x=1)
print(w(cache_root=tmp/"c").out)
w.x = 10
print("after mutation (expect 11):", w(cache_root=tmp/"c").out)
print("fresh:", W(x=10)(cache_root=tmp/"c2").out)
