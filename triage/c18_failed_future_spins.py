"""Reproduction of hangs that the UNCHANGED tree already shows (no patch applied).

With an asynchronous worker ("cf"), a workflow node whose job fails *without leaving
a result file* is never recognised as errored: the job stays in
``NodeExecution.queued``, ``Submitter.get_runnable_tasks`` keeps returning it, so
``tasks`` is never empty in ``Submitter.expand_workflow_async``.  The stall detection
(``if not tasks and not task_futures``) is therefore never entered, the job is not
re-spawned (its checksum is in ``futured``), ``fetch_finished`` returns at once for the
empty set of futures, and the loop spins forever (100 % CPU) -- the collected
``errors`` are only raised in the ``finally`` clause, which is never reached.

Three ways to get a job that fails without a result file:

  prerun     the node's ``pre_run`` hook raises (it is called before the lock is taken
             and outside every try/finally of ``Job.run``)
  retlock    the task returns an object that cannot be pickled, so ``save(result=...)``
             in the ``finally`` of ``Job.run`` raises and no _result.pklz is written
  unpick_in  a node input cannot be pickled, so ``cp.dumps(job)`` in
             ``ConcurrentFuturesWorker.run`` raises before the job is started

(With the synchronous "debug" worker the exception simply propagates, so these
terminate with an error.)

Run:  cd /tmp/wt_C18 && /venv/bin/python /tmp/seed_C18/existing_violation.py
exit 1 + "HANG" lines if any scenario hangs (it does for all three on the unchanged tree).
"""

import os
import sys

sys.path.insert(0, os.getcwd())

import subprocess

TIMEOUT = 25
MODES = ("prerun", "retlock", "unpick_in")


def scenario(mode):
    import multiprocessing
    import signal
    import tempfile
    import time
    import traceback

    import pydra.engine

    assert pydra.engine.__file__.startswith(os.getcwd()), pydra.engine.__file__
    from pydra.compose import python, workflow
    from pydra.engine.hooks import TaskHooks
    from pydra.engine.submitter import Submitter

    def bail(signum, frame):
        print(f"HANG [{mode}]: still running after {TIMEOUT} s; main thread at:")
        traceback.print_stack(frame, limit=5, file=sys.stdout)
        sys.stdout.flush()
        for p in multiprocessing.active_children():
            p.kill()
        os._exit(1)

    signal.signal(signal.SIGALRM, bail)
    signal.alarm(TIMEOUT)

    @python.define
    def Add(a, b=1):
        return a + b

    @python.define
    def RetLock(a):
        import threading

        return threading.Lock()

    def boom(job):
        raise RuntimeError("pre_run hook failed")

    class Unpicklable:
        def __reduce__(self):
            raise TypeError("cannot pickle me")

        def __bytes_repr__(self, cache):
            yield b"unpicklable"

    @workflow.define
    def WF(x):
        if mode == "prerun":
            a = workflow.add(Add(a=x), name="A", hooks=TaskHooks(pre_run=boom))
        elif mode == "retlock":
            a = workflow.add(RetLock(a=x), name="A")
        else:
            a = workflow.add(Add(a=Unpicklable()), name="A")
        b = workflow.add(Add(a=a.out), name="B")
        return b.out

    start = time.time()
    try:
        with Submitter(worker="cf", n_procs=2, cache_root=tempfile.mkdtemp()) as sub:
            res = sub(WF(x=1), raise_errors=False)
        print(f"ok [{mode}]: result errored={res.errored} after {time.time() - start:.1f} s")
    except Exception as e:
        msg = str(e).splitlines()[0][:200]
        print(f"ok [{mode}]: raised {type(e).__name__}: {msg} after {time.time() - start:.1f} s")
    signal.alarm(0)
    sys.exit(0)


if __name__ == "__main__":
    if len(sys.argv) > 1:
        scenario(sys.argv[1])
    hung = []
    for mode in MODES:
        proc = subprocess.run(
            [sys.executable, os.path.abspath(__file__), mode],
            stdout=subprocess.PIPE,
            stderr=subprocess.DEVNULL,
            text=True,
        )
        print(proc.stdout.rstrip())
        if proc.returncode != 0:
            hung.append(mode)
    if hung:
        print("existing violation: submissions that never terminate:", hung)
        sys.exit(1)
    sys.exit(0)
