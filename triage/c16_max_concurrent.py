import os, sys, tempfile, time
from pathlib import Path
from pydra.compose import python, workflow
from pydra.engine.submitter import Submitter

tmp = Path(tempfile.mkdtemp())
log = tmp/"log.txt"

@python.define
def Slow(x: int, log: str, dur: float) -> int:
    import time, os
    with open(log, "a") as f: f.write(f"S {x} {time.time()}\n")
    time.sleep(dur)
    with open(log, "a") as f: f.write(f"E {x} {time.time()}\n")
    return x

@workflow.define
def W(xs: list[int], log: str, dur: float) -> list[int]:
    n = workflow.add(Slow(log=log).split(("x","dur"), x=xs, dur=[3.0,0.3,0.3,0.3,0.3,0.3,0.3,0.3]))
    return n.out

if __name__ == "__main__":
    k = 2
    with Submitter(worker="cf", n_procs=8, cache_root=tmp/"c", max_concurrent=k) as sub:
        res = sub(W(xs=list(range(8)), log=str(log), dur=1.0))
    ev = []
    for line in log.read_text().splitlines():
        kind, x, t = line.split(); ev.append((float(t), kind))
    ev.sort(); cur = mx = 0
    for t, kind in ev:
        cur += 1 if kind == "S" else -1; mx = max(mx, cur)
    print("C16 max concurrent observed", mx, "limit", k)
