import os, tempfile
from pathlib import Path
from fileformats.generic import File
from pydra.utils.hash import hash_function
tmp = Path(tempfile.mkdtemp()); os.environ["PYDRA_HASH_CACHE"] = str(tmp/"hc")
f = tmp/"a.txt"; f.write_text("AAAA")
st = f.stat()
h1 = hash_function(File(f))
f.write_text("BBBB"); os.utime(f, ns=(st.st_atime_ns, st.st_mtime_ns))
h2 = hash_function(File(f))
g = tmp/"b.txt"; g.write_text("BBBB")
print("stale (same-size write, restored mtime):", h1 == h2)
f.write_text("CCCCCCCC"); os.utime(f, ns=(st.st_atime_ns, st.st_mtime_ns))
print("stale (different-size write, restored mtime):", hash_function(File(f)) == h1)
