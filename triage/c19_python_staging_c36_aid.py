import tempfile, json, glob
from pathlib import Path
from fileformats.generic import File
from pydra.compose import python, workflow, shell
from pydra.utils.messenger import AuditFlag, FileMessenger
tmp = Path(tempfile.mkdtemp())
f = tmp/"in.txt"; f.write_text("orig")
@python.define(inputs={"fl": python.arg(type=File, copy_mode=File.CopyMode.copy)})
def Mut(fl) -> int:
    Path(fl).write_text("changed")
    return 1
try:
    Mut(fl=f)(cache_root=tmp/"c")
    print("C19 no error; original now:", f.read_text())
except Exception as e:
    print("C19 error", type(e).__name__, str(e)[:80].replace("\n"," "), "| original now:", f.read_text())

# C36
@python.define
def Add(x: int) -> int:
    return x + 1
@workflow.define
def W(x: int) -> int:
    a = workflow.add(Add(x=x), name="A")
    return a.out
md = tmp/"msgs"
W(x=1)(cache_root=tmp/"c2", audit_flags=AuditFlag.PROV, messengers=FileMessenger(), messenger_args={"message_dir": md})
starts = {}; ends = {}
for p in glob.glob(str(md/"*.jsonld")):
    m = json.load(open(p))
    if "startedAtTime" in m and m.get("@type")=="job": starts[m["@id"]] = starts.get(m["@id"],0)+1
    if "endedAtTime" in m and "errored" in m: ends[m["@id"]] = ends.get(m["@id"],0)+1
print("C36 starts", starts); print("C36 ends", ends)
