import os, sys
sys.path.insert(0, "/repo")
from pydra.compose import python, workflow
from pydra.engine.submitter import Submitter
log = os.path.abspath("log.txt")
open(log, "w").close()
@python.define
def Inc(x: int, log: str) -> int:
    open(log, "a").write("run\n"); return x + 1
@workflow.define
def Wf(x: int, log: str) -> int:
    n = workflow.add(Inc(x=x, log=log)); return n.out
with Submitter(worker="debug", cache_root="ro") as s:
    r = s(Inc(x=1, log=log)); print(r.outputs)
n1 = open(log).read().count("run")
with Submitter(worker="debug", cache_root="main", readonly_caches=["ro"]) as s:
    r = s(Wf(x=1, log=log)); print(r.outputs)
n2 = open(log).read().count("run")
print("executions:", n1, n2, "(relative readonly cache)")
with Submitter(worker="debug", cache_root="main3", readonly_caches=[os.path.abspath("ro")]) as s:
    r = s(Wf(x=1, log=log)); print(r.outputs)
n3 = open(log).read().count("run")
print("executions with absolute path:", n3)
sys.exit(1 if n2 != 1 else 0)
