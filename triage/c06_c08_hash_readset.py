import os, sys, json, re
from pydra.compose import shell, python, workflow
from pydra.utils.hash import hash_function
import numpy as np

# C06: argstr difference
A = shell.define("echo", inputs={"x": shell.arg(type=str, argstr="-a")}, name="T")
B = shell.define("echo", inputs={"x": shell.arg(type=str, argstr="-b")}, name="T")
a, b = A(x="1"), B(x="1")
print("cmdlines", a.cmdline, "|", b.cmdline)
print("C06 argstr same checksum:", a._checksum == b._checksum)

# closure
def mk(k):
    @python.define
    def F(x: int) -> int:
        return x + k
    return F
F1, F2 = mk(1), mk(2)
print("C06 closure same checksum:", F1(x=1)._checksum == F2(x=1)._checksum)

# numpy shape/dtype
print("C08 numpy shape collide:", hash_function(np.zeros((2,3))) == hash_function(np.zeros((3,2))))
print("C08 numpy dtype collide:", hash_function(np.zeros(2, dtype='int64')) == hash_function(np.zeros(2, dtype='float64')))
# modules temp
import json as j, re as r, os as o
print("C08 module temp:", hash_function([o, j]) == hash_function([o, r]), hash_function(j)==hash_function(r))
