"""The UNCHANGED tree already violates the property for dicts whose keys are only
partially ordered (e.g. frozensets, or tuples that contain frozensets).

``bytes_repr_mapping_contents`` (pydra/utils/hash.py) iterates ``sorted(mapping)``.  For
frozenset keys ``<`` means "proper subset", which is only a partial order: ``sorted`` does
not raise, it silently returns an order that depends on the order in which it was given the
keys, i.e. on the insertion order of the dict (and, if the dict was itself built by iterating
over a set of strings, on PYTHONHASHSEED).  Two equal dicts therefore hash differently and
the tasks that take them as inputs get different cache directories.

(bytes_repr_set was fixed to order the elements by their hashes; the mapping code was not.)

Run as:  cd <worktree> && python unchanged_tree_violation.py   (exit 1 = violation shown)
"""

import os
import sys

sys.path.insert(0, os.getcwd())

import pydra.engine  # noqa: E402

assert pydra.engine.__file__.startswith(os.getcwd()), pydra.engine.__file__

from pydra.compose import python  # noqa: E402
from pydra.utils.hash import hash_function  # noqa: E402


@python.define(outputs=["out"])
def Total(weights: dict) -> int:
    return sum(weights.values())


a, b, c = frozenset({"a"}), frozenset({"b"}), frozenset({"c"})
d1 = {a: 1, b: 2, c: 3}
d2 = {c: 3, b: 2, a: 1}
assert d1 == d2

bad = False
if hash_function(d1) != hash_function(d2):
    bad = True
    print("equal dicts with frozenset keys hash differently:")
    print("   ", hash_function(d1), "(insertion order a, b, c)")
    print("   ", hash_function(d2), "(insertion order c, b, a)")
c1, c2 = Total(weights=d1)._checksum, Total(weights=d2)._checksum
if c1 != c2:
    bad = True
    print("equal tasks get different cache directories:", c1, c2)

t1 = {(a, 1): "x", (b, 1): "y", (c, 1): "z"}
t2 = {(c, 1): "z", (b, 1): "y", (a, 1): "x"}
if hash_function(t1) != hash_function(t2):
    bad = True
    print("equal dicts with (frozenset, int) tuple keys hash differently")

sys.exit(1 if bad else 0)
