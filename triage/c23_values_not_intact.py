"""UNCHANGED tree: field values do not reach the command intact.

Every argument string built from a field (``_format_arg`` / formatter branch of
``_command_pos_args`` in pydra/compose/shell/task.py) is re-tokenised with
``shlex.split`` + an extra quote-stripping regex (``split_cmd``), and templated
argstrs additionally go through ``str.replace`` + ``str.format`` +
a "remove extra commas/spaces" clean-up (``argstr_formatting`` in
pydra/compose/shell/templating.py).  Consequences, all shown below by really
running the task with an argv-dumping executable:

  A. whitespace (space, tab, newline) in a value splits it into several arguments
  B. backslashes are eaten              ("C:\\data" -> "C:data")
  C. balanced quotes are eaten          ("it's Bob's" -> "its Bobs"), an unbalanced
     quote makes command construction raise ValueError("No closing quotation")
  D. templated fields: "[," / ",]" / "[ " / " ]" inside a *value* are "cleaned up",
     and a value that contains "{other_field}" is formatted a second time, i.e.
     replaced by the other field's value ("{x}" for an unknown x silently becomes
     the empty string; a lone "{" raises ValueError from str.format)
  E. an empty-string element is dropped rather than passed as an empty argument

Exit status 1 if any violation shows (expected on the unchanged tree).
"""

import json
import os
import sys
import tempfile

sys.path.insert(0, os.getcwd())

from pydra.compose import shell  # noqa: E402

DUMP = "import sys, json; print(json.dumps(sys.argv[1:]))"


@shell.define
class Dump(shell.Task["Dump.Outputs"]):
    executable = [sys.executable, "-c", DUMP]
    plain: str = shell.arg(argstr="", position=1)
    opt: str = shell.arg(argstr="--opt", position=2)
    templ: str = shell.arg(argstr="--templ={templ}", position=3)
    lst: list[str] = shell.arg(argstr="-l", sep=" ", position=4)
    rep: list[str] = shell.arg(argstr="-r...", position=5)
    joined: list[str] = shell.arg(argstr="-j {joined}", sep=",", position=6)

    class Outputs(shell.Outputs):
        pass


def expected(v, w, opt=None):
    return [
        v,
        "--opt",
        v if opt is None else opt,
        f"--templ={v}",
        "-l",
        v,
        w,
        "-r",
        v,
        "-r",
        w,
        "-j",
        f"{v},{w}",
    ]


CASES = [
    # (label, value)
    ("A space", "my file.txt"),
    ("A tab", "col1\tcol2"),
    ("A newline", "line1\nline2"),
    ("A leading space", " x"),
    ("B backslash", "C:\\data\\new"),
    ("C balanced single quotes", "it's Bob's"),
    ("C balanced double quotes", 'say"hi"'),
    ("C wrapped in quotes", "'quoted'"),
    ("C unbalanced quote", "it's"),
    ("D bracket-comma", "a[,b,]c"),
    ("D other field reference", "{opt}"),
    ("D unknown field reference", "{x}"),
    ("D lone brace", "a{b"),
]


def run(tmp, i, **kw):
    task = Dump(**kw)
    outputs = task(cache_root=f"{tmp}/cache{i}")
    return json.loads(outputs.stdout)


def main() -> int:
    bad = []
    with tempfile.TemporaryDirectory() as tmp:
        n = 0
        for label, v in CASES:
            w = "tail"
            n += 1
            opt = "OPTVAL" if label.startswith("D") else v
            try:
                got = run(
                    tmp,
                    n,
                    plain=v,
                    opt=opt,
                    templ=v,
                    lst=[v, w],
                    rep=[v, w],
                    joined=[v, w],
                )
            except Exception as e:
                msg = str(e).strip().splitlines()
                bad.append((label, v, f"raised {type(e).__name__}: {msg[0][:100]} ... {msg[-1][:160]}"))
                continue
            exp = expected(v, w, opt)
            if got != exp:
                bad.append((label, v, f"\n    expected argv {exp!r}\n    actual   argv {got!r}"))
        # E: empty string element
        n += 1
        got = run(tmp, n, plain="p", opt="o", templ="t", lst=["", "b"], rep=["a", "b"], joined=["a", "b"])
        exp = ["p", "--opt", "o", "--templ=t", "-l", "", "b", "-r", "a", "-r", "b", "-j", "a,b"]
        if got != exp:
            bad.append(("E empty element", "", f"\n    expected argv {exp!r}\n    actual   argv {got!r}"))
    for label, v, msg in bad:
        print(f"[{label}] value {v!r} did not reach the command intact: {msg}")
    if bad:
        print(f"{len(bad)} violation(s)")
        return 1
    print("all values reached the command intact")
    return 0


if __name__ == "__main__":
    sys.exit(main())
