import os, sys, tempfile, shutil
from pathlib import Path
from pydra.compose import shell, python, workflow
from pydra.engine.submitter import Submitter

# C13 missing outputs
@python.define(outputs={"a": int, "b": int})
def P(x: int):
    return {"a": x}
tmp = Path(tempfile.mkdtemp())
try:
    out = P(x=1)(cache_root=tmp/"c13")
    print("C13 missing output accepted:", out)
except Exception as e:
    print("C13 raised", type(e).__name__, str(e)[:100])

@python.define(outputs={"a": int, "b": int})
def P2(x: int):
    return None
try:
    out = P2(x=1)(cache_root=tmp/"c13b")
    print("C13 None return accepted:", out)
except Exception as e:
    print("C13b raised", type(e).__name__, str(e)[:100])

# C11: leftover incomplete dir in cache_root, complete in readonly
cnt = tmp/"count.txt"
@python.define
def Q(x: int, log: str) -> int:
    with open(log, "a") as f: f.write("x")
    return x+1
ro = tmp/"ro"; rw = tmp/"rw"
t = Q(x=1, log=str(cnt))
t(cache_root=ro)
chk = t._checksum
(rw).mkdir(); (rw/chk).mkdir()   # leftover incomplete
r = t(cache_root=rw, readonly_caches=[ro])
print("C11 executions (1 expected if reused):", len(cnt.read_text()))
