import tempfile
from pathlib import Path
from pydra.compose import python
tmp = Path(tempfile.mkdtemp())
flag = tmp/"flag"
@python.define
def K(x: int, flag: str) -> int:
    import os
    if not os.path.exists(flag):
        open(flag,"w").close()
        raise KeyboardInterrupt()
    return x + 1
t = K(x=1, flag=str(flag))
try:
    t(cache_root=tmp/"c")
except BaseException as e:
    print("first:", type(e).__name__)
try:
    out = t(cache_root=tmp/"c")
    print("second returns:", out)
except BaseException as e:
    print("second:", type(e).__name__, str(e)[:100])
