import sys
from pydra.utils.hash import hash_function
from pydra.compose import shell, python
v = frozenset([frozenset(["a","b"]), frozenset(["c","d"]), frozenset(["e"]), frozenset(["f","g","h"])])
print(hash_function(v))
T = shell.define("echo", inputs={"a": shell.arg(type=str|None, argstr="-a", default=None), "b": shell.arg(type=str|None, argstr="-b", default=None),"c": shell.arg(type=str|None, argstr="-c", default=None), "d": shell.arg(type=str|None, argstr="-d", default=None)}, xor=[["a","b",None],["c","d",None]], name="T")
t = T(a="1")
print(hash_function(t))
print(t.split(a=["1","2"])._checksum)
