import tempfile
from pathlib import Path
from pydra.compose import python
@python.define
def Id(x):
    return x
for val in ([[1,2],[3,4]], [[1,2],[3]], [[1],[2,3]], [[1,2,3],[4]]):
    try:
        out = Id().split(x=val, container_ndim={"x": 2})(cache_root=Path(tempfile.mkdtemp()))
        print(val, "->", out.out)
    except Exception as e:
        print(val, "-> ERR", type(e).__name__, str(e)[:80])
