import sys, gc, importlib, pkgutil
from pydra.utils.hash import hash_function, Cache, hash_single
import pydra.utils.hash as hh
mods=[m for m in list(sys.modules.values()) if getattr(m,'__file__',None) and m.__file__.endswith('.py')]
print(len(mods))
alone={m.__name__: hash_function(m) for m in mods}
# hash in shared cache
cache=Cache()
tog={}
for m in mods:
    tog[m.__name__]=hash_single(m, cache).hex()
bad=[n for n in alone if alone[n]!=tog[n]]
print("context-dependent:", len(bad), bad[:5])
from collections import Counter
c=Counter(tog.values()); dup=[h for h,n in c.items() if n>1]
print("dups in shared cache:", len(dup)); 
for h in dup[:2]: print([n for n in tog if tog[n]==h][:4])
c2=Counter(alone.values()); print("dups alone:", sum(1 for n in c2.values() if n>1))
# single call form
l1=[sys.modules['os']]+mods[:50]
h_list = hash_function(mods)
print(h_list)
