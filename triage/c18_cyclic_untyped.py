import tempfile
from pathlib import Path
from pydra.compose import python, workflow
@python.define
def Add(x, y=0):
    return x + y
@workflow.define
def Cyc(x):
    a = workflow.add(Add(x=x), name="A")
    b = workflow.add(Add(x=a.out), name="B")
    wf = workflow.this()
    wf["A"].inputs.y = b.out
    return b.out
if __name__ == "__main__":
    print("constructing")
    out = Cyc(x=1)(cache_root=Path(tempfile.mkdtemp()))
    print(out)
