"""Unchanged tree: an *untyped* output argument that follows an option, e.g.
`-o <out|out_file>`, is given type `str` (the default for option values) instead of a
file type; its path template is then never filled in and both the option and the
output path are missing from the command line (the same field without the option, or
with an explicit file type, is rendered)."""
import os
import sys

sys.path.insert(0, os.getcwd())  # run from the worktree: import its pydra
from pydra.compose import shell
from pydra.utils.general import get_fields

problems = []
T = shell.define("cmd <a:str> -o <out|out_file> <b:str>")
cmd = T(a="1", b="2").cmdline
if "-o" not in cmd.split():
    problems.append(
        f"'cmd <a:str> -o <out|out_file> <b:str>' -> {cmd!r} "
        f"(out_file type {get_fields(T).out_file.type}, "
        f"path_template {get_fields(T).out_file.path_template!r})"
    )
# control: typed version is rendered
T2 = shell.define("cmd <a:str> -o <out|out_file:file> <b:str>")
cmd2 = T2(a="1", b="2").cmdline
assert "-o" in cmd2.split(), cmd2

if problems:
    print("VIOLATION (unchanged tree): option + untyped output argument not rendered")
    for p in problems:
        print("  -", p)
    sys.exit(1)
print("ok")
