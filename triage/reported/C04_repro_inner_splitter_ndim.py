"""Existing violation (UNCHANGED tree), rectangular input, inner splitter.

A node splits over the output of an upstream *split* node (an "inner splitter")
and asks for container_ndim=2 on that field, i.e. total container dimension 3
once the implicit upstream dimension is added.  `_single_op_splits` /
`_processing_terms` build the state indices with
    inner_len = [shape[-1]] * prod(shape[:-1])
    zip(outer_ind, inner_len)
which assumes exactly one inner dimension: with shape (2, 2, 3) there are 4
entries in inner_len but only 2 upstream indices, zip() truncates, and only the
elements that came from the first upstream job are run.

A second, smaller inconsistency is shown too: `flatten` descends into tuples but
`input_shape` only recognises lists, so [(1, 2), (3, 4)] with container_ndim=2
runs 2 jobs that receive 1 and 2.

Run as:  cd /tmp/wt_C04 && /venv/bin/python /tmp/seed_C04/existing/repro_inner_splitter_ndim.py
Exit status 1 when a violation shows.
"""
import os
import sys
import tempfile

sys.path.insert(0, os.getcwd())

from pydra.compose import python, workflow  # noqa: E402
from pydra.engine.submitter import Submitter  # noqa: E402


@python.define
def Ident(x):
    return x


@python.define
def Nest(x) -> list:
    return [[x, x + 1, x + 2], [x + 10, x + 11, x + 12]]


@workflow.define
def WF(x):
    a = workflow.add(Nest().split("x", x=x), name="A")
    b = workflow.add(
        Ident().split("x", x=a.out, container_ndim={"x": 2}), name="B"
    )
    return b.out


def run(task):
    with tempfile.TemporaryDirectory() as d:
        with Submitter(worker="debug", cache_root=d) as sub:
            res = sub(task)
        return list(res.outputs.out)


bad = []
expected = [100, 101, 102, 110, 111, 112, 200, 201, 202, 210, 211, 212]
try:
    got = run(WF(x=[100, 200]))
except Exception as e:  # noqa: BLE001
    got = f"raised {type(e).__name__}: {e}"
if got != expected:
    bad.append(f"inner splitter + container_ndim=2: expected {expected}, got {got}")

try:
    got = run(Ident().split("x", x=[(1, 2), (3, 4)], container_ndim={"x": 2}))
except Exception as e:  # noqa: BLE001
    got = f"raised {type(e).__name__}: {e}"
if got not in ([1, 2, 3, 4], [(1, 2), (3, 4)]):
    bad.append(
        f"tuples as inner containers, container_ndim=2: expected [1, 2, 3, 4] "
        f"(or the two tuples), got {got}"
    )

if bad:
    print("VIOLATION:")
    for b in bad:
        print("  ", b)
    sys.exit(1)
print("ok")
