"""Existing violation (UNCHANGED tree): nested containers whose constructor does not
take a single iterable cannot be staged -- ``copy_nested_files`` rebuilds every
container with ``type(value)(items)``, which raises TypeError for a namedtuple, a
``collections.defaultdict`` (first argument is the factory) or a ``range`` next to a
file, so "nested containers keep their shape" fails with a crash instead.  (Only
reachable through a direct call or an input typed loosely enough -- the type coercion
of a task input rejects/normalises most of these before staging.)

Exit status 1 when the violation shows.
"""
import sys, os; sys.path.insert(0, os.getcwd())  # noqa: E702
import collections
import shutil
import tempfile
from pathlib import Path

import pydra.engine

assert pydra.engine.__file__.startswith(os.getcwd()), pydra.engine.__file__

from fileformats.generic import File  # noqa: E402
from pydra.utils.typing import copy_nested_files  # noqa: E402

Pair = collections.namedtuple("Pair", "file weight")

problems = []
tmp = Path(tempfile.mkdtemp(prefix="c34_existing_"))
try:
    src = tmp / "data.txt"
    src.write_text("original")
    f = File(src)
    for i, value in enumerate(
        [
            Pair(f, 0.5),
            collections.defaultdict(list, {"k": [f]}),
            (f, range(3)),
        ]
    ):
        dest = tmp / f"dest{i}"
        dest.mkdir()
        try:
            staged = copy_nested_files(value, dest, mode="copy")
        except TypeError as e:
            problems.append(f"{value!r}: TypeError: {e}")
        else:
            if type(staged) is not type(value):
                problems.append(f"{value!r}: shape lost -> {staged!r}")

finally:
    shutil.rmtree(tmp, ignore_errors=True)

if problems:
    print("PROPERTY VIOLATED on the unchanged tree:")
    for p in problems:
        print("  -", p)
    sys.exit(1)
print("ok")
