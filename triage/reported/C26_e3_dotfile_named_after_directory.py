"""UNCHANGED tree: for an input file whose name starts with a dot ('.hidden') the
part before the first dot is empty, so the output is called after the *parent
directory* of the file; and because the templates are formatted with the location
of the copy of the file when it is copied into the job directory, the name differs
between copy_mode=copy ('<job dir name>_out.hidden') and no copy
('<input dir name>_out.hidden'): not a function of the input value.
exit 1 when the violation shows."""
import os, sys
sys.path.insert(0, os.getcwd())
import tempfile
from pathlib import Path
from fileformats.generic import File
from pydra.compose import shell

names = {}
tmp = Path(tempfile.mkdtemp(prefix="c26_e3_"))
(tmp / "indir").mkdir()
f = tmp / "indir" / ".hidden"
f.write_text("dotfile")
for mode in (File.CopyMode.any, File.CopyMode.copy):

    @shell.define
    class Cp(shell.Task["Cp.Outputs"]):
        executable = "cp"
        in_file: File = shell.arg(argstr="", position=1, copy_mode=mode)

        class Outputs(shell.Outputs):
            out: File = shell.outarg(
                argstr="", position=2, path_template="{in_file}_out"
            )

    out = Cp(in_file=f)(cache_root=tmp / f"cache_{mode.name}").out
    names[mode.name] = Path(out).name
    print(mode.name, "->", out)
if len(set(names.values())) != 1 or "hidden" not in next(iter(names.values())).split("_out")[0]:
    print("VIOLATION: output named after a directory, and differently per copy mode:", names)
    sys.exit(1)
