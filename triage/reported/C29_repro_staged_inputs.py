"""Existing violation (unchanged tree): a job that has staged its inputs carries the staged
paths (Job._inputs) through serialisation.  The job pickle that Job.run() leaves in the cache
directory (`_job.pklz`, the one the error messages tell users to load) therefore cannot be
re-run in another process: Job._populate_filesystem() wipes the cache directory, and with it
the staged copies that the carried-over `_inputs` still point to.

Run as:  cd /tmp/wt_C29 && /venv/bin/python /tmp/seed_C29/existing/repro_staged_inputs.py
Exit 1 when the violation shows.
"""

import os
import sys

sys.path.insert(0, os.getcwd())

import subprocess
import tempfile
from pathlib import Path

import cloudpickle as cp
from fileformats.generic import File

from pydra.compose import python
from pydra.engine.submitter import Submitter


@python.define(inputs={"f": python.arg(type=File, copy_mode=File.CopyMode.copy)})
def ReadIt(f: File) -> str:
    return Path(f).read_text()


CHILD = r"""
import sys, traceback
import cloudpickle as cp
with open(sys.argv[1], "rb") as fp:
    job = cp.load(fp)
out = {}
try:
    out["outputs"] = job.run(rerun=True).outputs.out
except BaseException:
    out["error"] = traceback.format_exc()
with open(sys.argv[2], "wb") as fp:
    cp.dump(out, fp)
"""


def main() -> int:
    tmp = Path(tempfile.mkdtemp(prefix="c29_existing1_"))
    src = tmp / "in.txt"
    src.write_text("hello")
    with Submitter(cache_root=tmp / "cache", worker="debug") as sub:
        res = sub(ReadIt(f=File(src)))
    assert res.outputs.out == "hello"
    job_pkl = res.cache_dir / "_job.pklz"
    out_pkl = tmp / "out.pkl"
    proc = subprocess.run(
        [sys.executable, "-c", CHILD, str(job_pkl), str(out_pkl)],
        cwd=str(tmp),
        env={**os.environ, "PYTHONPATH": os.getcwd()},
        capture_output=True,
        text=True,
    )
    if proc.returncode:
        print("child crashed", proc.stderr)
        return 2
    with open(out_pkl, "rb") as fp:
        out = cp.load(fp)
    if "error" in out:
        print("VIOLATION: the deserialised job does not run to the same outputs:")
        print(out["error"])
        return 1
    assert out["outputs"] == "hello", out
    print("ok")
    return 0


if __name__ == "__main__":
    sys.exit(main())
