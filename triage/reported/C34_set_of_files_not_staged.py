"""Existing violation (UNCHANGED tree): file-sets inside a ``set``/``frozenset``
are never staged, whatever the copy mode.

``TypeParser.apply_to_instances`` (used by ``copy_nested_files``) only descends into
``Mapping`` and ``Sequence`` containers; any other container (set, frozenset) is
returned as it is, although ``TypeParser.contains_type(FileSet, frozenset[File])`` is
true and ``Sequence -> Set`` coercion is explicitly allowed for inputs.  A task whose
``copy_mode="copy"`` input is a set of files (also when nested, e.g.
``dict[str, frozenset[File]]``) therefore works on the ORIGINAL files: the "copy"
is not independent of the original.

Exit status 1 when the violation shows.
"""
import sys, os; sys.path.insert(0, os.getcwd())  # noqa: E702
import shutil
import tempfile
from pathlib import Path

import pydra.engine

assert pydra.engine.__file__.startswith(os.getcwd()), pydra.engine.__file__

from fileformats.generic import File  # noqa: E402
from pydra.compose import python  # noqa: E402
from pydra.utils.typing import copy_nested_files  # noqa: E402

problems = []
tmp = Path(tempfile.mkdtemp(prefix="c34_existing_"))
try:
    src = tmp / "data.txt"
    src.write_text("original")

    # direct call
    dest = tmp / "dest"
    dest.mkdir()
    for value in (frozenset([File(src)]), {"k": {File(src)}}, [frozenset([File(src)]), 1]):
        staged = copy_nested_files(value, dest, mode="copy")
        if not list(dest.iterdir()):
            problems.append(f"mode='copy' but nothing was staged for {value!r} -> {staged!r}")

    # through a task
    @python.define(
        inputs={"files": python.arg(type=frozenset[File], copy_mode="copy")},
        outputs=["paths"],
    )
    def InPlace(files) -> list[str]:
        for f in files:
            Path(f).write_text("clobbered")
        return sorted(str(f) for f in files)

    try:
        InPlace(files=[src])(cache_root=tmp / "cache")
    except Exception as e:
        print(f"(task raised {type(e).__name__}: {str(e).splitlines()[0]})")
    if src.read_text() != "original":
        problems.append(
            f"original file was modified through a copy_mode='copy' input: {src.read_text()!r}"
        )
finally:
    shutil.rmtree(tmp, ignore_errors=True)

if problems:
    print("PROPERTY VIOLATED on the unchanged tree:")
    for p in problems:
        print("  -", p)
    sys.exit(1)
print("ok")
