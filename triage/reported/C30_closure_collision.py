"""Violation present in the UNCHANGED tree.

`Workflow.construct` keys its process-wide construction cache on
`hash_function(type(task))` plus the hash of the non-lazy input values (which include the
`constructor` function). Functions/classes are hashed from their *source* only
(pydra/utils/hash.py: bytes_repr_function), so two workflow classes produced by the same
factory function -- same source, different closure values -- share both keys. The second
class is then served the Workflow object that was constructed for the first one: its
graph (node inputs taken from the first closure) and hence its outputs leak across.

The two runs use separate on-disk caches, so the wrong answer comes from the in-memory
construction cache and not from result reuse.

Exit status 1 when the violation shows, 0 otherwise.
"""

import sys, os; sys.path.insert(0, os.getcwd())  # noqa: E401,E702

import tempfile

import pydra.engine

assert pydra.engine.__file__.startswith(os.getcwd()), pydra.engine.__file__

from pydra.compose import python, workflow  # noqa: E402
from pydra.engine.workflow import Workflow  # noqa: E402


@python.define
def Mul(a: int, b: int) -> int:
    return a * b


def make_scaler(factor: int):
    @workflow.define
    def Scaler(x: int) -> int:
        m = workflow.add(Mul(a=x, b=factor), name="m")
        return m.out

    return Scaler


def main():
    Double = make_scaler(2)
    Triple = make_scaler(3)

    Workflow.clear_cache()
    fresh = Triple(x=5)(cache_root=tempfile.mkdtemp()).out  # fresh construction: 15

    Workflow.clear_cache()
    doubled = Double(x=5)(cache_root=tempfile.mkdtemp()).out  # 10
    tripled = Triple(x=5)(cache_root=tempfile.mkdtemp()).out  # should be 15

    wf_d = Workflow.construct(Double(x=5))
    wf_t = Workflow.construct(Triple(x=5))
    print(f"Double(x=5) -> {doubled}; Triple(x=5) fresh -> {fresh}, after Double -> {tripled}")
    print("same Workflow object served to both classes:", wf_d is wf_t)
    print("node 'm' of Triple's workflow has b =", wf_t["m"].inputs.b)
    if tripled != fresh or wf_d is wf_t:
        print(
            "PROPERTY VIOLATED: constructing Triple after Double yields Double's graph "
            "and outputs"
        )
        return 1
    print("ok")
    return 0


if __name__ == "__main__":
    sys.exit(main())
