"""UNCHANGED tree: a five-field splitter whose right operand is `[c, <group>]`
and whose left operand is an already evaluated group assigns the index columns to
the wrong fields (State.splits keeps ONE global `keys` list and, for "string (*|.)
group", prepends the string's key to *all* keys collected so far, not just to the
keys of the right-hand group).

    splitter = [["a", "b"], ["c", ["d", "e"]]]
    index tuples are ordered (a, b, c, d, e) but keys == [c, a, b, d, e]

With equal lengths the jobs silently get the wrong elements (a receives c's index
...); with different lengths the run dies with IndexError.  Outside the "up to four
fields" quantification of the property, but the same code.

Run:  cd /tmp/wt_C01 && /venv/bin/python repro_five_field_key_order.py   (exit 1 = violation shown)
"""
import os
import sys

sys.path.insert(0, os.getcwd())

import itertools
import tempfile

from pydra.compose import python
from pydra.engine.submitter import Submitter


@python.define
def Five(a: str, b: str, c: str, d: str, e: str) -> str:
    return a + b + c + d + e


def main():
    lists = {f: [f"{f}{i}" for i in range(2)] for f in "abcde"}
    splitter = [["a", "b"], ["c", ["d", "e"]]]
    expected = ["".join(t) for t in itertools.product(*(lists[f] for f in "abcde"))]
    task = Five().split(splitter, **lists)
    with tempfile.TemporaryDirectory() as tmp:
        with Submitter(worker="debug", cache_root=tmp) as sub:
            got = sub(task).outputs.out
    if got != expected:
        bad = [(i, e, g) for i, (e, g) in enumerate(zip(expected, got)) if e != g]
        print(f"splitter {splitter}: {len(bad)} of {len(expected)} jobs got the wrong elements")
        for i, e, g in bad[:5]:
            print(f"  job {i}: expected {e}, got {g}")
        return 1
    print("OK")
    return 0


if __name__ == "__main__":
    sys.exit(main())
