"""UNCHANGED tree: the exclusive-group check counts a field as set only if its value is
truthy, the requirement check counts it as set if it is not None/False.  So with
xor=('offset', 'scale'): offset=0 together with scale=5 is accepted and executed (two
fields of the group are set), while offset=0 alone is rejected ("at least one ... should
be set").  exit 1 when the violation shows."""
import sys, os; sys.path.insert(0, os.getcwd())  # noqa: E401,E702
import tempfile
import pydra.engine
from pydra.compose import python, workflow
assert pydra.engine.__file__.startswith(os.getcwd()), pydra.engine.__file__

RAN = []


@python.define(xor=["offset", "scale"])
class T(python.Task["T.Outputs"]):
    offset: int | None = None
    scale: int | None = None
    note: str | None = None
    tag: int | None = python.arg(default=None, requires=["note"])

    class Outputs(python.Outputs):
        out: str

    @staticmethod
    def function(offset, scale, note, tag):
        RAN.append((offset, scale))
        return "ran"


both = T(offset=0, scale=5)._rule_violations()
only = T(offset=0)._rule_violations()
empty_str_req = T(offset=1, note="", tag=1)._rule_violations()
print("offset=0, scale=5 ->", both)
print("offset=0          ->", only)
print("note='' satisfies requirement of tag ->", empty_str_req)
bad = False
if not both:
    T(offset=0, scale=5)(cache_root=tempfile.mkdtemp(prefix="c31-e2-"))
    print("VIOLATION: both fields of the exclusive group are set, executed:", RAN)
    bad = True
if only:
    print("VIOLATION (over-enforcement): exactly one field (offset=0) is set but rejected")
    bad = True
sys.exit(1 if bad else 0)
