"""Existing violation candidate: a workflow output file whose name equals the
result pickle's name ("_result.pklz") is hard-linked into the workflow cache dir and
then overwritten (through the hard link: the node's own file too) by the result pickle."""
import sys, os; sys.path.insert(0, os.getcwd())
import shutil, tempfile, traceback
from pathlib import Path
import pydra.engine
assert pydra.engine.__file__.startswith(os.getcwd()), pydra.engine.__file__
from fileformats.generic import File
from pydra.compose import python, workflow
from pydra.engine.submitter import Submitter

CONTENT = "precious user data"

@python.define(outputs=["out"])
def Make(name: str, content: str) -> File:
    d = Path.cwd() / "sub"
    d.mkdir()
    p = d / name
    p.write_text(content)
    return File(p)

@workflow.define(outputs=["out"])
def Wf(name: str) -> File:
    m = workflow.add(Make(name=name, content=CONTENT), name="m")
    return m.out

def main():
    tmp = Path(tempfile.mkdtemp(prefix="c33_ex_"))
    try:
        try:
            with Submitter(worker="debug", cache_root=tmp / "cache") as sub:
                res = sub(Wf(name="_result.pklz"), raise_errors=True)
        except Exception:
            traceback.print_exc()
            print("FAIL: workflow raised")
            return 1
        p = Path(res.outputs.out)
        data = p.read_bytes()
        bad = []
        if data != CONTENT.encode():
            bad.append(f"collected output {p} no longer holds the node's data: {data[:40]!r}...")
        srcs = [q for q in (tmp / "cache").glob("python-*/sub/_result.pklz")]
        for s in srcs:
            if s.read_bytes() != CONTENT.encode():
                bad.append(f"the node's own file {s} was overwritten too (hard link): {s.read_bytes()[:40]!r}...")
        if bad:
            print("FAIL:\n  " + "\n  ".join(bad))
            return 1
        print("OK")
        return 0
    finally:
        shutil.rmtree(tmp, ignore_errors=True)

sys.exit(main())
