import sys, os; sys.path.insert(0, os.getcwd())
r"""Existing violation (unchanged tree): a module-set value that contains a quote
character (or a backslash) is truncated / mangled by the ad-hoc regular expression
that parses lmod's python-mode output.

Real Lmod prints each assignment as  os.environ["KEY"] = "VALUE";  where VALUE is
formatted with Lua's %q (double quotes, embedded " and \ escaped with a backslash).
The fake lmod below prints exactly that form.
"""
import stat
import tempfile
from pathlib import Path

import pydra.engine

assert pydra.engine.__file__.startswith(os.getcwd()), pydra.engine.__file__

from pydra.compose import shell
from pydra.environments.lmod import Lmod
from pydra.environments.native import Native


def lua_q(s: str) -> str:
    return '"' + s.replace("\\", "\\\\").replace('"', '\\"') + '"'


@shell.define
class DumpEnv(shell.Task["DumpEnv.Outputs"]):
    executable = ["/usr/bin/env", "-0"]

    class Outputs(shell.Outputs):
        pass


def parse(stdout: str) -> dict:
    return dict(item.split("=", 1) for item in stdout.split("\0") if item)


def main() -> int:
    tmp = Path(tempfile.mkdtemp())
    home = tmp / "lmod_home"
    (home / "libexec").mkdir(parents=True)
    settings = {
        "PLAIN": "plain",
        "APOS": "it's here",  # lmod prints "it's here"
        "DQUOTE": 'say "hi" now',  # lmod prints "say \"hi\" now"
        "BSLASH": "a\\b",  # lmod prints "a\\b"
    }
    lmod = home / "libexec" / "lmod"
    lines = [f"os.environ[{lua_q(k)}] = {lua_q(v)};" for k, v in settings.items()]
    lmod.write_text(
        "#!/bin/sh\ncat <<'EOS'\n" + "\n".join(lines) + "\n_mlstatus = True\nEOS\n"
    )
    lmod.chmod(lmod.stat().st_mode | stat.S_IXUSR)
    os.environ["MODULESHOME"] = str(home)
    os.environ["UNTOUCHED"] = "caller value"

    native = parse(DumpEnv()(environment=Native(), cache_root=tmp / "c1").stdout)
    got = parse(DumpEnv()(environment=Lmod("m/1.0"), cache_root=tmp / "c2").stdout)
    expected = {**native, **settings}
    bad = {
        k: (expected.get(k), got.get(k))
        for k in set(expected) | set(got)
        if expected.get(k) != got.get(k) and k != "_"
    }
    if bad:
        for k, (e, g) in sorted(bad.items()):
            print(f"VIOLATION {k}: expected {e!r}, task saw {g!r}")
        return 1
    print("ok")
    return 0


if __name__ == "__main__":
    sys.exit(main())
