"""UNCHANGED tree (over-enforcement): a requirement with allowed values is evaluated
against the LazyField / StateArray object itself, so a workflow node whose required field
is connected to an upstream output, or a task that is split over the required field, is
always rejected, although every value it would run with is allowed.
exit 1 when the violation shows."""
import sys, os; sys.path.insert(0, os.getcwd())  # noqa: E401,E702
import tempfile
import pydra.engine
from pydra.compose import python, workflow
assert pydra.engine.__file__.startswith(os.getcwd()), pydra.engine.__file__



@python.define
class Up(python.Task["Up.Outputs"]):
    v: str

    class Outputs(python.Outputs):
        out: str

    @staticmethod
    def function(v):
        return v


@python.define
class Down(python.Task["Down.Outputs"]):
    mode: str | None = None
    x: int | None = python.arg(default=None, requires=[("mode", ["a", "b"])])

    class Outputs(python.Outputs):
        out: str

    @staticmethod
    def function(mode, x):
        return f"{mode}{x}"


@workflow.define
def WF(v: str) -> str:
    up = workflow.add(Up(v=v))
    down = workflow.add(Down(mode=up.out, x=3))
    return down.out


bad = False
try:
    print("workflow:", WF(v="a")(cache_root=tempfile.mkdtemp(prefix="c31-e4-")).out)
except ValueError as e:
    print("VIOLATION: valid workflow rejected:", str(e).splitlines()[-1])
    bad = True
try:
    outs = Down(x=3).split(mode=["a", "b"])(cache_root=tempfile.mkdtemp(prefix="c31-e4-"))
    print("split:", list(outs.out))
except ValueError as e:
    print("VIOLATION: valid split rejected:", str(e).splitlines()[-1])
    bad = True
sys.exit(1 if bad else 0)
