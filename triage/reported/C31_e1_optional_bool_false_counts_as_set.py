"""UNCHANGED tree: a required field of type `bool | None` that is set to False satisfies
a requirement, whereas the same value in a plain `bool` field does not (and whereas the
requiring side treats False as "not set").  Requirement.satisfied only looks at
`field.type is bool`.  The task below runs although 'strategy' requires 'compress'.
exit 1 when the violation shows."""
import sys, os; sys.path.insert(0, os.getcwd())  # noqa: E401,E702
import tempfile
import pydra.engine
from pydra.compose import python, workflow
assert pydra.engine.__file__.startswith(os.getcwd()), pydra.engine.__file__

RAN = []


def make(flag_type):
    @python.define
    class T(python.Task["T.Outputs"]):
        compress: flag_type = None if flag_type != bool else False
        strategy: str | None = python.arg(default=None, requires=["compress"])

        class Outputs(python.Outputs):
            out: str

        @staticmethod
        def function(compress, strategy):
            RAN.append((compress, strategy))
            return "ran"

    return T


plain = make(bool)(compress=False, strategy="greedy")._rule_violations()
optional = make(bool | None)(compress=False, strategy="greedy")._rule_violations()
print("bool        compress=False ->", plain)
print("bool | None compress=False ->", optional)
if plain and not optional:
    try:
        make(bool | None)(compress=False, strategy="greedy")(
            cache_root=tempfile.mkdtemp(prefix="c31-e1-")
        )
    except ValueError:
        pass
    print("VIOLATION: 'strategy' requires 'compress', compress=False, executed:", RAN)
    sys.exit(1)
sys.exit(0)
