"""Existing violations of 'cmdline is a faithful shell rendering of the executed argv'
on the UNCHANGED tree.

ShellTask.cmdline only quotes arguments that contain a space character (and never the
first argv element), so any argument containing another shell-special character is
rendered wrongly:  shlex.split(task.cmdline) != argv handed to subprocess.run().

Exits 1 when at least one violation shows, 0 otherwise.
"""
import sys, os; sys.path.insert(0, os.getcwd())
import shlex
import tempfile

import pydra.engine

assert pydra.engine.__file__.startswith(os.getcwd()), pydra.engine.__file__

from pydra.compose import shell
from pydra.environments import base as envbase

captured = []


def fake_execute(cmd, strip=False, **kw):
    # stands in for pydra.environments.base.execute (the thin wrapper of subprocess.run)
    captured.append(list(cmd))
    return 0, "", ""


envbase.execute = fake_execute


@shell.define
class Shelly(shell.Task["Shelly.Outputs"]):
    executable = "echo"
    text: str = shell.arg(position=1, argstr="--text", help="t")

    class Outputs(shell.Outputs):
        pass


violations = []


def check(label, task):
    captured.clear()
    displayed = task.cmdline
    with tempfile.TemporaryDirectory() as d:
        task(cache_root=d)
    executed = captured[-1]
    try:
        split = shlex.split(displayed)
    except ValueError as e:
        split = f"<unparseable: {e}>"
    ok = split == executed
    print(
        f"{'ok       ' if ok else 'VIOLATION'} {label}: executed={executed!r} "
        f"cmdline={displayed!r} -> {split!r}"
    )
    if not ok:
        violations.append(label)


# control: spaces are handled
check("space", Shelly(text="hello", append_args=["a b"]))
# arguments with other special characters (passed as a list they reach argv verbatim)
check("single quote", Shelly(text="hello", append_args=["it's"]))
check("double quote", Shelly(text="hello", append_args=['say "hi"']))
check("space and quote", Shelly(text="hello", append_args=["a b'c"]))
check("tab", Shelly(text="hello", append_args=["a\tb"]))
check("newline", Shelly(text="hello", append_args=["a\nb"]))
check("backslash", Shelly(text="hello", append_args=["a\\b"]))
check("empty argument", Shelly(text="hello", append_args=["", "x"]))
# the same through a regular str field (quoted in the value so that it survives split_cmd)
check("tab in str field", Shelly(text="'a\tb'"))
check("backslash in str field", Shelly(text="'a\\b'"))
# first element of argv is never quoted
check("space in executable", shell.define(["my prog", "x"])())
# executable given as a string is split with str.split, so quote characters end up in argv
check("quotes in executable string", shell.define("prog 'a b' c")())

if violations:
    print(f"\n{len(violations)} violations on this tree: {violations}")
    sys.exit(1)
sys.exit(0)
