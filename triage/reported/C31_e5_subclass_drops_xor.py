"""UNCHANGED tree: the exclusive groups are stored in a class attribute that every
`define` overwrites, so a task class derived from a task with xor groups inherits the
fields (and their requirements) but silently loses the groups.
exit 1 when the violation shows."""
import sys, os; sys.path.insert(0, os.getcwd())  # noqa: E401,E702
import tempfile
import pydra.engine
from pydra.compose import python, workflow
assert pydra.engine.__file__.startswith(os.getcwd()), pydra.engine.__file__



@python.define(xor=["b", "c"])
class P(python.Task["P.Outputs"]):
    b: int | None = None
    c: int | None = None

    class Outputs(python.Outputs):
        out: int

    @staticmethod
    def function(b, c):
        return 1


@python.define
class C(P):
    d: int = 0

    class Outputs(python.Outputs):
        out: int

    @staticmethod
    def function(b, c, d):
        return 1


print("parent:", P(b=1, c=2)._rule_violations())
print("child :", C(b=1, c=2)._rule_violations(), "xor =", C._xor)
if P(b=1, c=2)._rule_violations() and not C(b=1, c=2)._rule_violations():
    print("VIOLATION: the derived task accepts b and c together")
    sys.exit(1)
sys.exit(0)
