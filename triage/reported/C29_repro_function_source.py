"""Existing violation (unchanged tree): the hash of a python task's function is taken from the
AST of its source when `inspect.getsource` works and from its byte-code otherwise.  For a
function whose source is only known to the defining process (a notebook/IPython cell, a
doctest, exec'd code registered in `linecache`) the submitting process hashes the source, while
a fresh worker process -- which receives the function by value through cloudpickle -- has to
fall back to the byte-code.  The deserialised job therefore has a different cache identity, and
running it fails with "Input field hashes have changed".

Run as:  cd /tmp/wt_C29 && /venv/bin/python /tmp/seed_C29/existing/repro_function_source.py
Exit 1 when the violation shows.
"""

import os
import sys

sys.path.insert(0, os.getcwd())

import linecache
import subprocess
import tempfile
from pathlib import Path

import cloudpickle as cp

from pydra.compose import python
from pydra.engine.job import Job
from pydra.engine.submitter import Submitter

CELL = "def add_one(x: int) -> int:\n    return x + 1\n"
CELL_NAME = "<ipython-input-1-c29>"

CHILD = r"""
import sys, traceback
import cloudpickle as cp
with open(sys.argv[1], "rb") as fp:
    job = cp.load(fp)
out = {}
try:
    out["outputs"] = job.run().outputs.out
except BaseException:
    out["error"] = traceback.format_exc()
out["job_checksum"] = job.checksum
out["task_checksum"] = job.task._checksum
with open(sys.argv[2], "wb") as fp:
    cp.dump(out, fp)
"""


def define_like_a_notebook_cell():
    """What IPython does for every cell: compile under a pseudo file name and register the
    source with linecache so that tracebacks and inspect.getsource work."""
    linecache.cache[CELL_NAME] = (len(CELL), None, CELL.splitlines(True), CELL_NAME)
    ns = {"__name__": "__main__"}
    exec(compile(CELL, CELL_NAME, "exec"), ns)
    return ns["add_one"]


def main() -> int:
    tmp = Path(tempfile.mkdtemp(prefix="c29_existing2_"))
    AddOne = python.define(define_like_a_notebook_cell())
    failures = []
    for precomputed in (True, False):
        sub = Submitter(cache_root=tmp / f"cache-{precomputed}", worker="debug")
        job = Job(task=AddOne(x=1), submitter=sub, name="add_one")
        if precomputed:
            job.checksum  # as the submitter does before it ships a node's job
        job_pkl = tmp / f"job-{precomputed}.pkl"
        out_pkl = tmp / f"out-{precomputed}.pkl"
        with open(job_pkl, "wb") as fp:
            cp.dump(job, fp)
        checksum = job.checksum
        proc = subprocess.run(
            [sys.executable, "-c", CHILD, str(job_pkl), str(out_pkl)],
            cwd=str(tmp),
            env={**os.environ, "PYTHONPATH": os.getcwd()},
            capture_output=True,
            text=True,
        )
        if proc.returncode:
            print("child crashed", proc.stderr)
            return 2
        with open(out_pkl, "rb") as fp:
            out = cp.load(fp)
        tag = "checksum computed before pickling" if precomputed else "checksum not yet computed"
        if out["task_checksum"] != checksum:
            failures.append(
                f"[{tag}] cache identity differs: {checksum} in the submitting process, "
                f"{out['task_checksum']} recomputed in the worker process "
                f"(job.checksum there: {out['job_checksum']})"
            )
        if "error" in out:
            failures.append(f"[{tag}] the job fails in the worker process: "
                            + out["error"].strip().splitlines()[-1][:300])
        elif out["outputs"] != 2:
            failures.append(f"[{tag}] wrong outputs {out}")
    if failures:
        print("VIOLATION")
        for f in failures:
            print("-", f)
        return 1
    print("ok")
    return 0


if __name__ == "__main__":
    sys.exit(main())
