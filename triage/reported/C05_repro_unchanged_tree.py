"""Situations in which the UNCHANGED tree already violates the property
(exit status 1 if any of them reproduces)."""
import os, sys

sys.path.insert(0, os.getcwd())
import tempfile
import pydra.engine

assert pydra.engine.__file__.startswith(os.getcwd()), pydra.engine.__file__
from pydra.compose import python, workflow
from pydra.engine.state import State, splitter2rpn
from pydra.engine.submitter import Submitter

found = []


def states(splitter, inputs, name="n", other_states=None):
    st = State(name=name, splitter=splitter, other_states=other_states)
    st.prepare_states({f"{name}.{k}": v for k, v in inputs.items()})
    return st.states_val


def attempt(fn, *a, **k):
    try:
        return fn(*a, **k)
    except Exception as exc:  # noqa: BLE001
        return f"{type(exc).__name__}: {exc}"


# E1: a one-element list/tuple that is not the FIRST element of its parent gets its
# operator emitted twice by _ordering (the recursive call appends the sign, then the
# caller falls through to `if i > 0: output_splitter.append(current_sign)` again)
inp = dict(a=[1, 2], b=[10, 20])
ref = states(["a", "b"], inp)
for spl in (["a", ["b"]], ["a", ("b",)], [["a"], "b"], ("a", ("b",)), (("a",), "b")):
    label = repr(spl)
    rpn = splitter2rpn(spl)
    got = attempt(states, spl, inp)
    exp = ref if isinstance(spl, list) else states(("a", "b"), inp)
    if got != exp:
        found.append(f"E1 splitter {label}: rpn={rpn}, result={got!r}")

# E1b: the same through the public API: a node with an upstream state whose own
# splitter is spelled ["y"] / ("y",) instead of "y"
@python.define
def Add(x: int, y: int) -> int:
    return x + y


def wf_run(spelling):
    @workflow.define
    def W(xs: list[int], ys: list[int], tag: str) -> list[int]:
        first = workflow.add(Add(y=0).split("x", x=xs), name="first")
        second = workflow.add(Add(x=first.out).split(spelling, y=ys), name="second")
        return second.out

    with Submitter(worker="debug", cache_root=tempfile.mkdtemp()) as sub:
        res = sub(W(xs=[1, 2], ys=[10, 20], tag=repr(spelling)), raise_errors=True)
    return list(res.outputs.out)


ref = attempt(wf_run, "y")
for spl in (["y"], ("y",)):
    got = attempt(wf_run, spl)
    if got != ref:
        found.append(
            f"E1b downstream node .split({spl!r}, y=...): {str(got).splitlines()[0]!r} "
            f"but .split('y', y=...) gives {ref!r}"
        )

# E2: a combiner naming a field of the node that is not split is rejected only when
# the node is started, i.e. after the upstream jobs have been executed (the check in
# Node._set_state is dead: add_name_combiner has already put a '.' in every name,
# so `"." not in c` is never true)
LOG = tempfile.mktemp()


@python.define
def Up(x: int) -> int:
    with open(LOG, "a") as f:
        f.write(f"Up {x}\n")
    return x + 1


@workflow.define
def W2(x: int) -> list[int]:
    up = workflow.add(Up(x=x))
    bad = workflow.add(Add(x=up.out).split("y", y=[1, 2]).combine("x"), name="bad")
    return bad.out


def run_w2():
    with Submitter(worker="debug", cache_root=tempfile.mkdtemp()) as sub:
        sub(W2(x=1), raise_errors=True)


res = attempt(run_w2)
ran = open(LOG).read().split("\n")[:-1] if os.path.exists(LOG) else []
if ran:
    found.append(
        f"E2 combiner field that is not split: rejected ({str(res).splitlines()[0]}) only "
        f"after jobs {ran} had been executed"
    )

# E3: combine() followed by split() silently loses the combiner (attrs.evolve does
# not carry the init=False _combiner field), so the request is neither honoured nor
# rejected
t = Add(y=1).combine("x").split("x", x=[1, 2])
if t._combiner is None:
    found.append("E3 Add(y=1).combine('x').split('x', x=[1, 2]) silently drops the combiner")

# E4 (five fields, outside the 'up to four fields' bound): keys are mis-ordered in
# State.splits when a str operand is joined with a group while an earlier group is
# still on the stack
inp5 = dict(a=[1, 2], b=[10, 20], c=[100, 200], d=[1000, 2000], e=[7, 8])
flat = attempt(states, ["a", "b", "c", "d", "e"], inp5)
nested = attempt(states, [["a", "b"], ["c", ["d", "e"]]], inp5)
if flat != nested:
    if isinstance(nested, list):
        i = next(i for i, (x, y) in enumerate(zip(flat, nested)) if x != y)
        detail = f"job {i} is {nested[i]} instead of {flat[i]}"
    else:
        detail = nested
    found.append(f"E4 [['a','b'],['c',['d','e']]] differs from the flat chain: {detail}")

for f in found:
    print("-", f)
sys.exit(1 if found else 0)
