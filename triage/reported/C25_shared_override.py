"""Unchanged tree, history dependent: `inputs=`/`outputs=` override objects are
mutated in place by parse_command_line_template (name, type, argstr and *position* are
written onto the caller's Arg object; only the dict is copied).  Re-using the same
override for a second template makes the second task inherit the position computed
for the first one, so its arguments are no longer in template order."""
import os
import sys

sys.path.insert(0, os.getcwd())  # run from the worktree: import its pydra
from pydra.compose import shell

def build(first):
    common = {"verbose": shell.arg(help="be loud")}
    if first:
        shell.define("a <x:str> -v<verbose>", inputs=common)  # verbose is 2nd here
    B = shell.define("b -v<verbose> <x:str>", inputs=common)  # ... and 1st here
    return B(x="1", verbose=True).cmdline, common

fresh, _ = build(first=False)
assert fresh == "b -v 1", fresh
reused, common = build(first=True)
if reused != "b -v 1":
    print("VIOLATION (unchanged tree): template 'b -v<verbose> <x:str>' renders as "
          f"{reused!r} after the same inputs= override was used for "
          f"'a <x:str> -v<verbose>' (caller's object now: position={common['verbose'].position}, "
          f"argstr={common['verbose'].argstr!r})")
    sys.exit(1)
print("ok")
