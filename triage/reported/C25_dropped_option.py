"""Unchanged tree: an option token that is followed by a flag token or by another
option token is silently discarded (only a *trailing* option raises ValueError), so
the command line no longer contains all of the template's options."""
import os
import sys

sys.path.insert(0, os.getcwd())  # run from the worktree: import its pydra
from pydra.compose import shell

problems = []

T1 = shell.define("cmd --opt -v<verbose> <x:str>")
c1 = T1(verbose=True, x="1").cmdline
if "--opt" not in c1.split():
    problems.append(f"'cmd --opt -v<verbose> <x:str>' -> {c1!r}: '--opt' vanished, no error")

T2 = shell.define("cmd --first --second <x:str>")
c2 = T2(x="1").cmdline
if "--first" not in c2.split():
    problems.append(f"'cmd --first --second <x:str>' -> {c2!r}: '--first' vanished, no error")

if problems:
    print("VIOLATION (unchanged tree): template options dropped silently")
    for p in problems:
        print("  -", p)
    sys.exit(1)
print("ok")
