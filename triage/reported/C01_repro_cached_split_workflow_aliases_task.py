"""UNCHANGED tree: a split task can be run with the inputs of ANOTHER task object.

Submitter.__call__ wraps a split task in an implicit `Split` workflow and
Workflow.construct caches the constructed workflow in a process-wide dict under the
hash of the task *at that time*.  The node of the cached workflow keeps a reference to
the caller's (mutable) task object, not a copy.  History needed:

  1. run  tA = F().split("a", a=[1, 2])            -> workflow cached under hash(tA)
  2. change tA in place (tA.a.append(3) / tA.k = "changed")
  3. run a brand-new, untouched  tB = F().split("a", a=[1, 2])
     hash(tB) == the old hash(tA) -> the cached workflow is reused, its node still points
     at tA -> tB is expanded over tA's *current* list and its jobs get tA's other fields.

Expected for tB: [(1, 'K'), (2, 'K')].  (A fresh cache_root is used for every run, so this
is not the result cache.)

Run:  cd /tmp/wt_C01 && /venv/bin/python repro_cached_split_workflow_aliases_task.py   (exit 1 = violation shown)
"""
import os
import sys

sys.path.insert(0, os.getcwd())

import tempfile

from pydra.compose import python
from pydra.engine.submitter import Submitter


@python.define
def F(a: int, k: str = "K") -> tuple:
    return (a, k)


@python.define
def G(a: int, k: str = "K") -> tuple:
    return (a, k, "g")


def run(task):
    with tempfile.TemporaryDirectory() as tmp:
        with Submitter(worker="debug", cache_root=tmp) as sub:
            return sub(task).outputs.out


def main():
    bad = []

    t_a = F().split("a", a=[1, 2])
    assert run(t_a) == [(1, "K"), (2, "K")]
    t_a.a.append(3)  # in-place change of the split list of the first task
    t_b = F().split("a", a=[1, 2])
    got = run(t_b)
    if got != [(1, "K"), (2, "K")]:
        bad.append(f"split list: new task with a=[1, 2] produced {got}")

    g_a = G().split("a", a=[1, 2])
    assert run(g_a) == [(1, "K", "g"), (2, "K", "g")]
    g_a.k = "changed"  # in-place change of a field that is not split
    g_b = G().split("a", a=[1, 2])
    got = run(g_b)
    if got != [(1, "K", "g"), (2, "K", "g")]:
        bad.append(f"other field: new task with k='K' produced {got}")

    if bad:
        print("a split task was run with another task object's inputs:")
        for b in bad:
            print("  -", b)
        return 1
    print("OK")
    return 0


if __name__ == "__main__":
    sys.exit(main())
