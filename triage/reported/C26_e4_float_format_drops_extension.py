"""UNCHANGED tree: keep_extension=True is not honoured when the template contains a
float format spec with a precision: the '.' of '{n:.2f}' is taken for an extension of
the template itself ('"." not in template').
  '{in_file}_{n}'     , f.nii, n=1.5 -> f_1.5.nii
  '{in_file}_{n:.2f}' , f.nii, n=1.5 -> f_1.50        (extension lost)
exit 1 when the violation shows."""
import os, sys
sys.path.insert(0, os.getcwd())
import tempfile
from pathlib import Path
from fileformats.generic import File
from pydra.compose import shell
from pydra.compose.shell.templating import template_update

tmp = Path(tempfile.mkdtemp(prefix="c26_e4_"))
f = tmp / "f.nii"
f.write_text("x")
res = {}
for tmpl in ["{in_file}_{n}", "{in_file}_{n:.2f}", "{in_file}_{n:2f}"]:

    @shell.define
    class T(shell.Task["T.Outputs"]):
        executable = "cp"
        in_file: File = shell.arg(argstr="", position=1)
        n: float = shell.arg(argstr=None)

        class Outputs(shell.Outputs):
            out: File = shell.outarg(
                argstr="", position=2, path_template=tmpl, keep_extension=True
            )

    res[tmpl] = template_update(T(in_file=f, n=1.5), cache_dir=Path("/job"))["out"]
    print(tmpl, "->", res[tmpl])
if not all(str(p).endswith(".nii") for p in res.values()):
    print("VIOLATION: keep_extension=True but the extension of f.nii was dropped")
    sys.exit(1)
