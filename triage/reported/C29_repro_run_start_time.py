"""Existing violation (unchanged tree): `Submitter.run_start_time` is only set inside
Submitter.__call__.  A workflow job that is executed through its pickle in another process
(`load_and_run`, what the SLURM/SGE workers and `pydra.scripts.run_pickled` do) expands its graph
with the deserialised submitter, whose `run_start_time` is None (or the start of some earlier
run when the pickle is the `_job.pklz` left in a cache directory).  With `clean_stale_locks`
(the default for the debug worker) and a lock file left behind by an interrupted run,
Submitter._check_locks compares `datetime < None` and the job crashes, while submitting the very
same task through Submitter.__call__ removes the stale lock and succeeds.

Run as:  cd /tmp/wt_C29 && /venv/bin/python /tmp/seed_C29/existing/repro_run_start_time.py
Exit 1 when the violation shows.
"""

import os
import sys

sys.path.insert(0, os.getcwd())

import subprocess
import tempfile
import time
from pathlib import Path

import cloudpickle as cp

from pydra.compose import python, workflow
from pydra.engine.job import Job
from pydra.engine.submitter import Submitter


@python.define
def AddOne(x: int) -> int:
    return x + 1


@workflow.define
def Wf(x: int) -> int:
    node = workflow.add(AddOne(x=x), name="node")
    return node.out


CHILD = r"""
import sys, traceback
import cloudpickle as cp
from pydra.engine.job import load_and_run
out = {}
try:
    resultfile = load_and_run(sys.argv[1])
    with open(resultfile, "rb") as fp:
        out["outputs"] = cp.load(fp).outputs.out
except BaseException:
    out["error"] = traceback.format_exc()
with open(sys.argv[2], "wb") as fp:
    cp.dump(out, fp)
"""


def main() -> int:
    tmp = Path(tempfile.mkdtemp(prefix="c29_existing4_"))
    # learn the name of the node's cache directory
    with Submitter(worker="debug", cache_root=tmp / "probe") as sub:
        assert sub(Wf(x=1)).outputs.out == 2
    (node_dir,) = [p for p in (tmp / "probe").iterdir() if p.is_dir() and p.name.startswith("python-")]

    def leave_stale_lock(cache_root: Path):
        cache_root.mkdir()
        (cache_root / (node_dir.name + ".lock")).touch()
        time.sleep(0.05)

    # reference: the submitter removes the stale lock and runs the workflow
    leave_stale_lock(tmp / "ref")
    with Submitter(worker="debug", cache_root=tmp / "ref") as sub:
        assert sub(Wf(x=1)).outputs.out == 2

    # same thing through a pickled job in another process
    leave_stale_lock(tmp / "cache")
    sub = Submitter(worker="debug", cache_root=tmp / "cache")
    job = Job(task=Wf(x=1), submitter=sub, name="wf")
    job_pkl, out_pkl = tmp / "job.pkl", tmp / "out.pkl"
    with open(job_pkl, "wb") as fp:
        cp.dump(job, fp)
    proc = subprocess.run(
        [sys.executable, "-c", CHILD, str(job_pkl), str(out_pkl)],
        cwd=str(tmp),
        env={**os.environ, "PYTHONPATH": os.getcwd()},
        capture_output=True,
        text=True,
        timeout=50,
    )
    if proc.returncode:
        print("child crashed", proc.stderr)
        return 2
    with open(out_pkl, "rb") as fp:
        out = cp.load(fp)
    if "error" in out:
        print("VIOLATION: the deserialised workflow job does not run to the same outputs:")
        print(out["error"][-1500:])
        return 1
    assert out["outputs"] == 2
    print("ok")
    return 0


if __name__ == "__main__":
    sys.exit(main())
