"""Violation present in the UNCHANGED tree (built-in code path, no user closures).

`Submitter.__call__` wraps a split task in an implicit `Split` workflow whose
constructor is a closure over the `hooks` argument of the call
(pydra/engine/submitter.py, `def Split(defn, output_types, environment)` uses `hooks`).
`hooks` is not an input of `Split`, and closures are not part of a function's hash, so
`Workflow.construct` serves the `Split` workflow constructed for the FIRST submission
to every later submission of an equal split task in the same process: the node jobs of
the second submission run with the hooks object that was passed to the first one.

Exit status 1 when the violation shows, 0 otherwise.
"""

import sys, os; sys.path.insert(0, os.getcwd())  # noqa: E401,E702

import tempfile

import pydra.engine

assert pydra.engine.__file__.startswith(os.getcwd()), pydra.engine.__file__

from pydra.compose import python  # noqa: E402
from pydra.engine.hooks import TaskHooks  # noqa: E402
from pydra.engine.workflow import Workflow  # noqa: E402


@python.define
def Add(a: int, b: int) -> int:
    return a + b


calls = []


def make_hooks(tag):
    def pre_run(job, *args, **kwargs):
        calls.append(tag)

    return TaskHooks(pre_run=pre_run)


def run(tag):
    calls.clear()
    out = Add(b=1).split(a=[1, 2])(cache_root=tempfile.mkdtemp(), hooks=make_hooks(tag))
    assert out.out == [2, 3]
    return list(calls)


def main():
    Workflow.clear_cache()
    fresh = run("second")  # what a fresh construction does: only 'second' hooks run

    Workflow.clear_cache()
    run("first")
    after_first = run("second")

    print("hooks called in a fresh process state :", fresh)
    print("hooks called after an earlier submission:", after_first)
    if after_first != fresh:
        print(
            "PROPERTY VIOLATED: the hooks of the first submission are run by the node "
            "jobs of the second one"
        )
        return 1
    print("ok")
    return 0


if __name__ == "__main__":
    sys.exit(main())
