"""UNCHANGED tree: a template that ends with a string input resolves outside the job
directory when the string is '..' (or ends with '/..'): only Path(...).name of the
formatted template is kept, and the name of Path('x/..') is '..'.
An empty string resolves to the job directory itself.
exit 1 when the violation shows."""
import os, sys
sys.path.insert(0, os.getcwd())
from pathlib import Path
from fileformats.generic import File
from pydra.compose import shell
from pydra.compose.shell.templating import template_update


@shell.define
class T(shell.Task["T.Outputs"]):
    executable = "touch"
    out_name: str = shell.arg(argstr=None)

    class Outputs(shell.Outputs):
        out: File = shell.outarg(argstr="", position=1, path_template="{out_name}")


job_dir = Path("/cache/jobdir")
bad = []
for s in ["res.txt", "..", "sub/..", "../..", ""]:
    p = Path(os.path.normpath(template_update(T(out_name=s), cache_dir=job_dir)["out"]))
    print(f"out_name={s!r} -> {p}")
    if job_dir not in p.parents:
        bad.append((s, p))
if bad:
    print("VIOLATION: resolved outside (or to) the job directory:", bad)
    sys.exit(1)
