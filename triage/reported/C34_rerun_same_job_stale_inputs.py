"""Existing violation (UNCHANGED tree): running the same ``Job`` object a second time
(``job.run(rerun=True)``) does not stage its file inputs.

``Job.inputs`` memoises the staged values in ``self._inputs`` and nothing ever resets
it, while ``Job._populate_filesystem`` removes and re-creates the job directory at
the start of every run.  On the second run the task therefore receives paths of
staged copies that were deleted together with the old job directory.

Exit status 1 when the violation shows.
"""
import sys, os; sys.path.insert(0, os.getcwd())  # noqa: E702
import shutil
import tempfile
from pathlib import Path

import pydra.engine

assert pydra.engine.__file__.startswith(os.getcwd()), pydra.engine.__file__

from fileformats.generic import File  # noqa: E402
from pydra.compose import python  # noqa: E402
from pydra.engine.job import Job  # noqa: E402
from pydra.engine.submitter import Submitter  # noqa: E402

tmp = Path(tempfile.mkdtemp(prefix="c34_existing_"))
problems = []
try:
    src = tmp / "f.txt"
    src.write_text("hello")

    @python.define(
        inputs={"p": python.arg(type=File, copy_mode="copy")}, outputs=["path", "exists"]
    )
    def T(p) -> tuple[str, bool]:
        return str(p), Path(p).exists()

    job = Job(task=T(p=src), submitter=Submitter(cache_root=tmp / "cache"), name="t")
    first = job.run()
    if not first.outputs.exists:
        problems.append(f"first run: staged input {first.outputs.path} missing")
    second = job.run(rerun=True)
    if not second.outputs.exists:
        problems.append(
            f"second run of the same Job: the staged input {second.outputs.path} does not "
            "exist (job directory was wiped, memoised Job.inputs was kept)"
        )
finally:
    shutil.rmtree(tmp, ignore_errors=True)

if problems:
    print("PROPERTY VIOLATED on the unchanged tree:")
    for p in problems:
        print("  -", p)
    sys.exit(1)
print("ok")
