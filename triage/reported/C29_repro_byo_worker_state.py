"""Existing violation (unchanged tree): Worker.__getstate__ only serialises attrs fields
(`attrs.asdict(self)`), so a bring-your-own worker written the way the project's own test-suite
writes one (pydra/workers/tests/test_worker.py::BYOAddVarWorker: a plain subclass that sets
attributes in __init__) loses its configuration when it is pickled.  The debug-worker tests never
pickle the worker, so they pass; a workflow job shipped to another process does not run to the
same outputs.

Run as:  cd /tmp/wt_C29 && /venv/bin/python /tmp/seed_C29/existing/repro_byo_worker_state.py
Exit 1 when the violation shows.
"""

import os
import sys

sys.path.insert(0, os.getcwd())

import subprocess
import tempfile
from pathlib import Path
from unittest.mock import patch

import cloudpickle as cp

from pydra.compose import python, workflow
from pydra.engine.job import Job
from pydra.engine.submitter import Submitter
from pydra.workers import debug


class BYOAddVarWorker(debug.Worker):
    """Copied from pydra/workers/tests/test_worker.py"""

    _plugin_name = "byo_add_env_var"

    def __init__(self, add_var, **kwargs):
        super().__init__(**kwargs)
        self.add_var = add_var

    def run(self, task, rerun=False):
        with patch.dict(os.environ, {"BYO_ADD_VAR": str(self.add_var)}):
            return super().run(task, rerun)


@python.define
def AddEnvVarTask(x: int) -> int:
    return x + int(os.environ.get("BYO_ADD_VAR", 0))


@workflow.define
def Wf(x: int) -> int:
    node = workflow.add(AddEnvVarTask(x=x))
    return node.out


CHILD = r"""
import sys, traceback
import cloudpickle as cp
from pydra.engine.job import load_and_run
out = {}
try:
    resultfile = load_and_run(sys.argv[1])
    with open(resultfile, "rb") as fp:
        out["outputs"] = cp.load(fp).outputs.out
except BaseException:
    out["error"] = traceback.format_exc()
with open(sys.argv[2], "wb") as fp:
    cp.dump(out, fp)
"""


def main() -> int:
    tmp = Path(tempfile.mkdtemp(prefix="c29_existing3_"))
    failures = []

    worker = BYOAddVarWorker(add_var=10)
    worker2 = cp.loads(cp.dumps(worker))
    if getattr(worker2, "add_var", None) != 10:
        failures.append(
            "round-tripped worker lost its configuration: add_var="
            f"{getattr(worker2, 'add_var', '<missing>')!r} (was 10)"
        )

    # in-process reference
    with Submitter(worker=BYOAddVarWorker, add_var=10, cache_root=tmp / "ref") as sub:
        ref = sub(Wf(x=1)).outputs.out
    assert ref == 11, ref

    sub = Submitter(worker=BYOAddVarWorker, add_var=10, cache_root=tmp / "cache")
    job = Job(task=Wf(x=1), submitter=sub, name="wf")
    job_pkl = tmp / "job.pkl"
    out_pkl = tmp / "out.pkl"
    with open(job_pkl, "wb") as fp:
        cp.dump(job, fp)
    proc = subprocess.run(
        [sys.executable, "-c", CHILD, str(job_pkl), str(out_pkl)],
        cwd=str(tmp),
        env={**os.environ, "PYTHONPATH": os.getcwd()},
        capture_output=True,
        text=True,
    )
    if proc.returncode:
        print("child crashed", proc.stderr)
        return 2
    with open(out_pkl, "rb") as fp:
        out = cp.load(fp)
    if "error" in out:
        failures.append(
            "the deserialised workflow job fails in the other process: "
            + out["error"].strip().splitlines()[-1][:300]
        )
    elif out["outputs"] != ref:
        failures.append(f"outputs differ: {out['outputs']} in the other process, {ref} here")
    if failures:
        print("VIOLATION")
        for f in failures:
            print("-", f)
        return 1
    print("ok")
    return 0


if __name__ == "__main__":
    sys.exit(main())
