"""Violations of the property that show on the UNCHANGED tree (SLURM worker).

Same scripted scheduler as in the seed demos.  exit 1 when at least one violation shows.
"""
import sys, os; sys.path.insert(0, os.getcwd())  # noqa: E401,E702
import asyncio
import tempfile
from pathlib import Path

import pydra.engine

assert pydra.engine.__file__.startswith(os.getcwd()), pydra.engine.__file__
from pydra.engine.submitter import Submitter  # noqa: E402
from pydra.engine.job import Job, load_and_run  # noqa: E402
from pydra.workers import base, slurm  # noqa: E402
from pydra.engine.tests.utils import Multiply  # noqa: E402


class FakeSlurm:
    def __init__(self, states, run_job=True):
        self.states = list(states)
        self.pos = 0
        self.jobid = "4321"
        self.sbatch_argv = None
        self.requeues = 0
        self.ran = not run_job

    @property
    def state(self):
        return self.states[min(self.pos, len(self.states) - 1)]

    async def __call__(self, *cmd, hide_display=False, strip=False):
        prog = cmd[0]
        if prog == "sbatch":
            self.sbatch_argv = list(cmd[1:])
            return 0, f"Submitted batch job {self.jobid}\n", ""
        if prog == "squeue":
            st = self.state
            if st in ("PENDING", "RUNNING"):
                self.pos += 1
                return 0, f" {self.jobid} debug main user {st[0]} 0:01 1 node1\n", ""
            return 0, "", ""
        if prog == "sacct":
            st = self.state
            self.pos += 1
            if st == "NO-ACCOUNTING-YET":  # slurmdbd has not received the record yet
                return 0, "", ""
            if st == "COMPLETED" and not self.ran:
                self.ran = True
                load_and_run(Path(self.sbatch_argv[-1]).parent / "_job.pklz")
            return 0, f"{self.jobid:<12} {st:>10} {'0:0':>8} \n", ""
        if prog == "scontrol":
            self.requeues += 1
            return 0, "", ""
        raise AssertionError(f"unexpected command {cmd}")


def submit(states, sbatch_args="", run_job=True):
    tmp = Path(tempfile.mkdtemp(prefix="c28_ex_"))
    fake = FakeSlurm(states, run_job=run_job)
    base.read_and_display_async = fake
    worker = slurm.SlurmWorker(sbatch_args=sbatch_args, poll_delay=0)
    sub = Submitter(worker=worker, cache_root=tmp)
    job = Job(name="mult", task=Multiply(x=2, y=10), submitter=sub)
    try:
        out = asyncio.run(asyncio.wait_for(worker.run(job), 20))
    except Exception as e:  # noqa: BLE001
        out = e
    return out, fake, job


def main():
    bad = []

    # 1. the other two spellings sbatch accepts for the job name are not recognised:
    #    a second --job-name is appended (and, being last, wins)
    for args in ("--job-name myname", "-Jmyname", "-N1 --error /tmp/x.err"):
        out, fake, job = submit(["RUNNING", "COMPLETED"], args)
        argv = fake.sbatch_argv
        if args.startswith("-N1"):
            dup = [a for a in argv if a.startswith("--error")]
        else:
            dup = [a for a in argv if a.startswith(("--job-name", "-J"))]
        if len(dup) > 1:
            bad.append(f"sbatch_args={args!r}: option duplicated on the sbatch line: {dup}")

    # 2. accounting record not there yet when the job leaves the queue -> job reported
    #    failed although the scheduler reports COMPLETED a moment later
    out, fake, job = submit(["RUNNING", "NO-ACCOUNTING-YET", "COMPLETED"])
    if out is not True:
        bad.append(f"missing accounting then COMPLETED: worker reported {out!r}")

    # 3. cancelled job with --no-requeue is reported *complete*
    out, fake, job = submit(["RUNNING", "CANCELLED+"], "--no-requeue")
    if out is True:
        bad.append(
            "CANCELLED with --no-requeue: worker reported the job complete "
            f"(result={job.result()!r})"
        )

    # 4. COMPLETED but the result was never written (e.g. lost on a non-shared
    #    filesystem): reported complete although no result exists
    out, fake, job = submit(["RUNNING", "COMPLETED"], run_job=False)
    if out is True and job.result() is None:
        bad.append("COMPLETED without a result file: worker reported the job complete")

    for b in bad:
        print("VIOLATION:", b)
    return 1 if bad else 0


if __name__ == "__main__":
    sys.exit(main())
