"""Unchanged tree: falsy values (0, 0.0) of template arguments/options are dropped
from the command line, including a default written in the template (`=0`)."""
import os
import sys

sys.path.insert(0, os.getcwd())  # run from the worktree: import its pydra
from pydra.compose import shell

problems = []
c = shell.define("cmd --level <level:int=0> <x:str>")(x="a").cmdline
if c != "cmd --level 0 a":
    problems.append(f"'cmd --level <level:int=0> <x:str>' -> {c!r}, expected 'cmd --level 0 a'")
c = shell.define("seq <first:int> <last:int>")(first=0, last=3).cmdline
if c != "seq 0 3":
    problems.append(f"'seq <first:int> <last:int>' with first=0,last=3 -> {c!r}, expected 'seq 0 3'")
# control
c = shell.define("seq <first:int> <last:int>")(first=1, last=3).cmdline
assert c == "seq 1 3", c
if problems:
    print("VIOLATION (unchanged tree): zero-valued arguments vanish from the command line")
    for p in problems:
        print("  -", p)
    sys.exit(1)
print("ok")
