"""UNCHANGED tree -- rerun=True under the process-pool worker uses results of the PREVIOUS run.

NodeExecution.update_status() decides in the parent process that a job is finished by
looking for its result file (Job.done -> load_result).  When the workflow is re-run with
rerun=True the result files of the previous run are still there until the pool process
that re-executes the job removes them (Job._populate_filesystem).  As soon as the first
job of a split completes, its siblings that are still waiting in the pool are therefore
seen as "done" with their OLD results, and the downstream node is started with stale
values (or, if the pool process has just wiped the directory, fails because the result
has vanished -- and that error path itself raises AttributeError: 'Job' object has no
attribute 'readonly_caches', pydra/engine/lazy.py:194).

The debug worker re-runs every job before the downstream node is looked at.

exit 1 when the two workers disagree (they do on the unchanged tree), 0 otherwise.
"""
import os, sys
sys.path.insert(0, os.getcwd())
import tempfile
from pathlib import Path
import pydra.engine
assert pydra.engine.__file__.startswith(os.getcwd()), pydra.engine.__file__
from pydra.compose import python, workflow
from pydra.engine.submitter import Submitter

STATE = Path(tempfile.mkdtemp()) / "state.txt"


@python.define
def ReadState(x: int, path: Path) -> int:
    """Depends on external state that is not part of the checksum (a Path is hashed by name)"""
    import time
    time.sleep(0.3)
    return x * 1000 + int(Path(path).read_text())


@python.define
def Sum(xs: list[int]) -> int:
    return sum(xs)


@workflow.define
def Wf(xs: list[int], path: Path) -> int:
    r = workflow.add(ReadState(path=path).split(x=xs).combine("x"))
    s = workflow.add(Sum(xs=r.out))
    return s.out


def run(worker, **kw):
    cache = tempfile.mkdtemp()
    STATE.write_text("1")
    with Submitter(worker=worker, cache_root=cache, **kw) as sub:
        first = sub(Wf(xs=[1, 2, 3], path=STATE), raise_errors=True).outputs.out
    STATE.write_text("2")
    try:
        with Submitter(worker=worker, cache_root=cache, **kw) as sub:
            second = sub(Wf(xs=[1, 2, 3], path=STATE), rerun=True, raise_errors=True).outputs.out
    except Exception as e:
        second = f"{type(e).__name__}: {str(e).splitlines()[0][:150]}"
    return first, second


if __name__ == "__main__":
    d = run("debug")
    c = run("cf", n_procs=1)
    print("debug (first run, rerun):", d)
    print("cf    (first run, rerun):", c)
    rc = 0
    if d != c:
        print("MISMATCH between workers on rerun=True (expected second value 6006)")
        rc = 1
    sys.stdout.flush()
    os._exit(rc)
