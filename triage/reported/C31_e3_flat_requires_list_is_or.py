"""UNCHANGED tree: the documentation of Field.requires (and the docstrings of the tests
test_shell_cmd_inputspec_outputspec_3/3a) say that a collection of names are fields
required TOGETHER, a collection of collections being alternatives.  requires_converter
turns the flat list ['a', 'b'] into two alternative requirement sets, i.e. a OR b.
Also the tuple ('a', ('b', ['x'])) (used in test_shell_cmd_inputspec_outputspec_4a) is
parsed as "a with allowed values ['b', ['x']]".  exit 1 when the violation shows."""
import sys, os; sys.path.insert(0, os.getcwd())  # noqa: E401,E702
import tempfile
import pydra.engine
from pydra.compose import python, workflow
assert pydra.engine.__file__.startswith(os.getcwd()), pydra.engine.__file__

from pydra.compose.base.field import requires_converter


@python.define
class T(python.Task["T.Outputs"]):
    a: str | None = None
    b: str | None = None
    x: int | None = python.arg(default=None, requires=["a", "b"])

    class Outputs(python.Outputs):
        out: str

    @staticmethod
    def function(a, b, x):
        return "ran"


bad = False
v = T(a="1", x=3)._rule_violations()
print("requires=['a', 'b'], only a set ->", v)
if not v:
    print("VIOLATION: declared 'x requires a and b', b is unset, accepted; parsed as",
          [str(r) for r in requires_converter(["a", "b"])])
    bad = True
parsed = requires_converter(("a", ("b", ["x"])))
print("requires=('a', ('b', ['x'])) parsed as", parsed)
if len(parsed) == 1 and len(parsed[0].requirements) == 1:
    print("VIOLATION: the tuple form loses the requirement on 'b'")
    bad = True
sys.exit(1 if bad else 0)
