"""UNCHANGED tree: the templated output path is not a function of the input values
alone but of the history of the cache: the hash of a File does not include its name,
so a second task whose input file has the same content but another name gets the
cached result of the first one, with an output called after the *first* file.
exit 1 when the violation shows."""
import os, sys
sys.path.insert(0, os.getcwd())
import tempfile
from pathlib import Path
from fileformats.generic import File
from pydra.compose import shell


@shell.define
class Cp(shell.Task["Cp.Outputs"]):
    executable = "cp"
    in_file: File = shell.arg(argstr="", position=1)

    class Outputs(shell.Outputs):
        out: File = shell.outarg(argstr="", position=2, path_template="{in_file}_out")


tmp = Path(tempfile.mkdtemp(prefix="c26_e2_"))
a = tmp / "alpha.txt"
b = tmp / "beta.dat"
a.write_text("same content")
b.write_text("same content")
out_a = Cp(in_file=a)(cache_root=tmp / "cache").out
out_b = Cp(in_file=b)(cache_root=tmp / "cache").out
out_b_fresh = Cp(in_file=b)(cache_root=tmp / "cache_fresh").out
print("alpha.txt          ->", out_a)
print("beta.dat (2nd run) ->", out_b)
print("beta.dat (fresh)   ->", out_b_fresh)
if Path(out_b).name != Path(out_b_fresh).name:
    print("VIOLATION: output name for beta.dat depends on what was run before")
    sys.exit(1)
