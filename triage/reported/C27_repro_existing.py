"""Violations of the C27 property that are present in the UNCHANGED tree.

Run as ``cd /tmp/wt_C27 && /venv/bin/python /tmp/seed_C27/existing/repro_existing.py``.
Exits 1 if at least one of the violations shows (prints which).

E1  list[File] input (files exist) -> Container.get_bindings crashes with
    AttributeError: 'list' object has no attribute 'parent', because
    TypeParser.matches(value, os.PathLike | FileSet) *coerces* the list into a
    FileSet and therefore answers True for a list of files; the
    ``ty.Sequence[FileSet | os.PathLike]`` branch is unreachable.
E2  copy_mode="copy" given as a string (as the project's own tests do):
    ``fld.copy_mode == FileSet.CopyMode.copy`` is False, so the job directory that
    holds the copied input is mounted read-only (nested in the rw cache root),
    unless an output template happens to point to the same directory.
E3  File values in ``append_args`` are passed to the container un-remapped and
    their directory is not mounted (``_command_args`` appends
    ``self.append_args`` instead of ``values["append_args"]``).
"""
import sys, os; sys.path.insert(0, os.getcwd())
import tempfile
import traceback
from pathlib import Path

import pydra.engine

assert pydra.engine.__file__.startswith(os.getcwd()), pydra.engine.__file__

from fileformats.generic import File
from pydra.compose import shell
from pydra.engine.job import Job
from pydra.engine.submitter import Submitter
from pydra.environments import base, docker, singularity

captured: list[list[str]] = []


def fake_execute(cmd, strip=False, **kwargs):
    captured.append([str(c) for c in cmd])
    return 0, "", ""


base.execute = fake_execute


def mounts_of(argv, flag):
    return [
        tuple(argv[i + 1].rsplit(":", 2)) for i, a in enumerate(argv) if a == flag
    ]


ENVS = [
    (lambda: docker.Environment(image="busybox"), "-v", "/mnt/pydra"),
    (lambda: singularity.Environment(image="busybox", root="/work"), "-B", "/work"),
]


def run(task, tmp, label):
    """yield (envname, flag, root, job, argv or exception)"""
    for i, (mk, flag, root) in enumerate(ENVS):
        env = mk()
        cache = tmp / f"cache-{label}-{i}"
        cache.mkdir()
        job = Job(task=task, submitter=Submitter(cache_root=cache), name=label)
        job.cache_dir.mkdir(exist_ok=True)
        captured.clear()
        try:
            env.execute(job)
            yield type(env).__name__, flag, root, job, captured[-1]
        except Exception as e:  # noqa
            yield type(env).__name__, flag, root, job, e


def main():
    tmp = Path(tempfile.mkdtemp(prefix="c27_existing_")).resolve()
    d1, d2 = tmp / "d1", tmp / "d2"
    d1.mkdir(), d2.mkdir()
    (d1 / "a.txt").write_text("a")
    (d2 / "b.txt").write_text("b")
    found = []

    # ---- E1 -------------------------------------------------------------
    @shell.define
    class Cat(shell.Task["Cat.Outputs"]):
        executable = "cat"
        files: list[File] = shell.arg(position=1, argstr="", help="files")

        class Outputs(shell.Outputs):
            pass

    for name, flag, root, job, res in run(
        Cat(files=[d1 / "a.txt", d2 / "b.txt"]), tmp, "e1"
    ):
        if isinstance(res, Exception):
            found.append(f"E1 {name}: list[File] input -> {type(res).__name__}: {res}")
        else:
            exp = ["cat", f"{root}{d1}/a.txt", f"{root}{d2}/b.txt"]
            if res[-3:] != exp:
                found.append(f"E1 {name}: argv {res[-3:]} != {exp}")

    # ---- E2 -------------------------------------------------------------
    @shell.define
    class Sed(shell.Task["Sed.Outputs"]):
        executable = ["sed", "-i", "s/a/b/"]
        orig: File = shell.arg(position=1, argstr="", help="f", copy_mode="copy")

        class Outputs(shell.Outputs):
            pass

    for name, flag, root, job, res in run(Sed(orig=d1 / "a.txt"), tmp, "e2"):
        if isinstance(res, Exception):
            found.append(f"E2 {name}: {res!r}")
            continue
        assert Path(job.inputs["orig"]).parent == job.cache_dir
        modes = [m[2] for m in mounts_of(res, flag) if m[0] == str(job.cache_dir)]
        if modes != ["rw"]:
            found.append(
                f"E2 {name}: directory of the copied input (copy_mode='copy') "
                f"is mounted {modes}, expected ['rw']"
            )

    # ---- E3 -------------------------------------------------------------
    @shell.define
    class Ls(shell.Task["Ls.Outputs"]):
        executable = "ls"

        class Outputs(shell.Outputs):
            pass

    for name, flag, root, job, res in run(
        Ls(append_args=[File(d2 / "b.txt")]), tmp, "e3"
    ):
        if isinstance(res, Exception):
            found.append(f"E3 {name}: {res!r}")
            continue
        if res[-1] != f"{root}{d2}/b.txt":
            found.append(
                f"E3 {name}: File in append_args passed as {res[-1]!r}, expected "
                f"{root}{d2}/b.txt; mounts={mounts_of(res, flag)}"
            )

    if found:
        print("EXISTING VIOLATIONS (unchanged tree):")
        for f in found:
            print("  -", f)
        return 1
    print("no existing violation reproduced")
    return 0


if __name__ == "__main__":
    sys.exit(main())
