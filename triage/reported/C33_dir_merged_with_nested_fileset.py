"""Existing violation candidate: the clash set only holds the top-level destination
paths of directories, and a multi-file file-set with collation "any" keeps its relative
sub-directory structure.  A Directory output called "sub" and a file-set that has a member
in a sub-directory also called "sub" (of a different parent) are merged into ONE destination
directory: the collected Directory output gains a foreign file (and with the fields in the
other order the collection raises FileExistsError)."""
import sys, os; sys.path.insert(0, os.getcwd())
import shutil, tempfile, traceback
from pathlib import Path
import pydra.engine
assert pydra.engine.__file__.startswith(os.getcwd()), pydra.engine.__file__
from fileformats.generic import File, Directory, SetOf
from pydra.compose import python
from pydra.engine.result import copyfile_workflow


@python.define(outputs=["d", "s"])
def Mock(a: Directory, b: SetOf[File]) -> tuple[Directory, SetOf[File]]:
    return a, b


def main():
    tmp = Path(tempfile.mkdtemp(prefix="c33_ex2_"))
    try:
        a = tmp / "a"; (a / "sub").mkdir(parents=True)
        (a / "x.hdr").write_text("hdr"); (a / "sub" / "x.img").write_text("img")
        b = tmp / "b"; (b / "sub").mkdir(parents=True)
        (b / "sub" / "keep.txt").write_text("keep")
        wf_dir = tmp / "wf"; wf_dir.mkdir()
        outputs = Mock(a=Directory(b / "sub"), b=SetOf[File]([a / "x.hdr", a / "sub" / "x.img"]))(cache_root=tmp / "cache")
        try:
            outputs = copyfile_workflow(wf_dir, outputs)
        except Exception:
            traceback.print_exc()
            print("FAIL: collection raised")
            return 1
        src_listing = sorted(p.name for p in (b / "sub").iterdir())
        got_listing = sorted(p.name for p in Path(outputs.d).iterdir())
        if src_listing != got_listing:
            print(f"FAIL: collected directory {outputs.d} holds {got_listing}, its source holds {src_listing}")
            return 1
        print("OK")
        return 0
    finally:
        shutil.rmtree(tmp, ignore_errors=True)

sys.exit(main())
