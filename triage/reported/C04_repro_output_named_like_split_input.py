"""Existing violation (UNCHANGED tree), rectangular input, container dimension 1.

`Node._get_upstream_states` (pydra/engine/node.py, ~line 220) contains

    if node.state and f"{node.name}.{val._field}" in node.state.splitter:
        node.state._inner_container_ndim[f"{node.name}.{val._field}"] = 1

where `node` is the UPSTREAM node and `val._field` is the name of its OUTPUT
field that the downstream node consumes.  When the upstream task happens to
have an output with the same name as one of its own split inputs (x -> x), just
connecting a downstream node bumps the upstream node's container dimension for
that input from 1 to 2.  The upstream split over x=[[1, 2], [3, 4]] then runs 4
jobs over the scalars instead of 2 jobs over the inner lists: the jobs are run
for the elements at depth 2 although the container dimension is 1.

Run as:  cd /tmp/wt_C04 && /venv/bin/python /tmp/seed_C04/existing/repro_output_named_like_split_input.py
Exit status 1 when the violation shows.
"""
import os
import sys
import tempfile

sys.path.insert(0, os.getcwd())

from pydra.compose import python, workflow  # noqa: E402
from pydra.engine.submitter import Submitter  # noqa: E402


@python.define(outputs=["x"])
def PassX(x):
    return x


@python.define(outputs=["y"])
def PassY(x):
    return x


@python.define
def Ident(x):
    return x


@workflow.define
def SameName(x):
    a = workflow.add(PassX().split("x", x=x), name="A")
    b = workflow.add(Ident(x=a.x), name="B")
    return b.out


@workflow.define
def OtherName(x):
    a = workflow.add(PassY().split("x", x=x), name="A")
    b = workflow.add(Ident(x=a.y), name="B")
    return b.out


def run(task):
    with tempfile.TemporaryDirectory() as d:
        with Submitter(worker="debug", cache_root=d) as sub:
            res = sub(task)
        return list(res.outputs.out)


val = [[1, 2], [3, 4]]
ref = run(OtherName(x=val))
got = run(SameName(x=val))
print("output named y:", ref)
print("output named x:", got)
if ref != val or got != val:
    print(
        "VIOLATION: split over x with container dimension 1 should run one job per "
        f"outer element {val}"
    )
    sys.exit(1)
print("ok")
