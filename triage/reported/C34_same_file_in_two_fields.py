"""Existing violation (UNCHANGED tree): a file given to two different inputs of a task
(or two different files with the same name given to two inputs) cannot be staged.

``Job.inputs`` calls ``copy_nested_files`` once per field, each call with a fresh
de-duplication cache and a fresh ``clashes_to_avoid`` set, so the second field tries
to create the same path in the job directory again and the job dies with
FileExistsError instead of staging the file once (same file) / under a unique name
(different files with equal names).

Exit status 1 when the violation shows.
"""
import sys, os; sys.path.insert(0, os.getcwd())  # noqa: E702
import shutil
import tempfile
from pathlib import Path

import pydra.engine

assert pydra.engine.__file__.startswith(os.getcwd()), pydra.engine.__file__

from fileformats.generic import File  # noqa: E402
from pydra.compose import python  # noqa: E402

problems = []
tmp = Path(tempfile.mkdtemp(prefix="c34_existing_"))
try:
    (tmp / "a").mkdir()
    (tmp / "b").mkdir()
    fa = tmp / "a" / "f.txt"
    fb = tmp / "b" / "f.txt"
    fa.write_text("A")
    fb.write_text("B")

    @python.define(
        inputs={
            "p": python.arg(type=File, copy_mode="copy"),
            "q": python.arg(type=File, copy_mode="copy"),
        },
        outputs=["contents"],
    )
    def Read(p, q) -> str:
        return Path(p).read_text() + Path(q).read_text()

    for label, (x, y), expected in (
        ("same file in two inputs", (fa, fa), "AA"),
        ("equally named files in two inputs", (fa, fb), "AB"),
    ):
        try:
            out = Read(p=x, q=y)(cache_root=tmp / "cache").contents
            if out != expected:
                problems.append(f"{label}: task read {out!r}, expected {expected!r}")
        except Exception as e:
            problems.append(f"{label}: {type(e).__name__}: {str(e).splitlines()[0]}")
finally:
    shutil.rmtree(tmp, ignore_errors=True)

if problems:
    print("PROPERTY VIOLATED on the unchanged tree:")
    for p in problems:
        print("  -", p)
    sys.exit(1)
print("ok")
