"""UNCHANGED tree (minor): Task.split() keeps the caller's splitter *list object*
(`split_def._splitter = splitter`, no copy).  Re-using / editing that list afterwards
silently changes the expansion (and the hash) of the task that was already split.

Run:  cd /tmp/wt_C01 && /venv/bin/python repro_splitter_list_aliased.py   (exit 1 = shown)
"""
import os
import sys

sys.path.insert(0, os.getcwd())

import tempfile

from pydra.compose import python
from pydra.engine.submitter import Submitter


@python.define
def F(a: int, b: int) -> tuple:
    return (a, b)


def main():
    spl = ["a", "b"]
    task = F().split(spl, a=[1, 2], b=[10, 20, 30])
    spl.reverse()  # the caller re-uses its list for something else
    with tempfile.TemporaryDirectory() as tmp:
        with Submitter(worker="debug", cache_root=tmp) as sub:
            got = sub(task).outputs.out
    expected = [(x, y) for x in [1, 2] for y in [10, 20, 30]]  # [a, b]: a varies slowest
    if got != expected:
        print(f"task was split with ['a', 'b'] but ran as {task._splitter}: {got}")
        return 1
    print("OK")
    return 0


if __name__ == "__main__":
    sys.exit(main())
