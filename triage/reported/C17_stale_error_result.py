"""UNCHANGED tree -- after a run in which some jobs failed, a second run (external cause
fixed) succeeds with the debug worker but fails with the process-pool worker.

Job.run re-executes a job whose cached result is errored.  Under the pool worker the
parent polls Job.done for the siblings of the first completed job; for a sibling that
is still waiting in the pool it finds the ERRORED result of the previous run, sets the
sticky Job._errored flag of its own copy of the job and marks the node as failed, although
the pool process then re-runs that job successfully.

exit 1 when the two workers disagree, 0 otherwise.
"""
import os, sys
sys.path.insert(0, os.getcwd())
import tempfile
from pathlib import Path
import pydra.engine
assert pydra.engine.__file__.startswith(os.getcwd()), pydra.engine.__file__
from pydra.compose import python, workflow
from pydra.engine.submitter import Submitter

STATE = Path(tempfile.mkdtemp()) / "state.txt"


@python.define
def Flaky(x: int, path: Path) -> int:
    import time
    if x >= 2:
        if Path(path).read_text() == "broken":
            raise RuntimeError("external resource is broken")
        time.sleep(1.0)
    return x * 10


@python.define
def Sum(xs: list[int]) -> int:
    return sum(xs)


@workflow.define
def Wf(xs: list[int], path: Path) -> int:
    r = workflow.add(Flaky(path=path).split(x=xs).combine("x"))
    s = workflow.add(Sum(xs=r.out))
    return s.out


def attempt(worker, cache, **kw):
    try:
        with Submitter(worker=worker, cache_root=cache, **kw) as sub:
            res = sub(Wf(xs=[1, 2, 3], path=STATE), raise_errors=True)
        return ("ok", res.outputs.out)
    except Exception as e:
        return ("error", type(e).__name__)


def run(worker, **kw):
    cache = tempfile.mkdtemp()
    STATE.write_text("broken")
    first = attempt("cf", cache, n_procs=2)  # all three jobs get a (partly errored) result
    STATE.write_text("fine")
    second = attempt(worker, cache, **kw)
    return first, second


if __name__ == "__main__":
    d = run("debug")
    print("second run with debug:", d, flush=True)
    c = run("cf", n_procs=1)
    print("second run with cf:   ", c, flush=True)
    rc = 0 if d == c else 1
    if rc:
        print("MISMATCH: the retry succeeds with one worker and fails with the other")
    sys.stdout.flush()
    os._exit(rc)
