"""Existing violation (UNCHANGED tree): ragged nested lists lose elements.

`input_shape` only extends the shape with the inner dimensions when every inner
list has the same shape; for a ragged value it silently falls back to the outer
length.  `flatten`/`map_splits`, on the other hand, always flatten down to
`container_ndim`.  The number of state indices (from the shape) is therefore
smaller than the number of elements found at depth n and the trailing elements
are never run (or, when an inner list is empty, the job crashes with IndexError).

Run as:  cd /tmp/wt_C04 && /venv/bin/python /tmp/seed_C04/existing/repro_ragged.py
Exit status 1 when the violation shows.
"""
import os
import sys
import tempfile

sys.path.insert(0, os.getcwd())

from pydra.compose import python  # noqa: E402
from pydra.engine.submitter import Submitter  # noqa: E402


@python.define
def Ident(x):
    return x


@python.define
def Pair(a, x):
    return (a, x)


def leaves(val, depth):
    if depth == 0:
        return [val]
    out = []
    for v in val:
        out.extend(leaves(v, depth - 1))
    return out


def run(task):
    with tempfile.TemporaryDirectory() as d:
        with Submitter(worker="debug", cache_root=d) as sub:
            res = sub(task)
        return list(res.outputs.out)


bad = []
cases = [
    ([[1, 2], [3]], 2),
    ([[1], [2, 3]], 2),
    ([[1, 2], [3, 4, 5]], 2),
    ([[1, 2], []], 2),
    ([[[1, 2], [3]], [[4, 5], [6]]], 3),
    ([[[1], [2]], [[3]]], 3),
    ([[[1], [2]], [[3]]], 2),
]
for val, nd in cases:
    expected = leaves(val, nd)
    try:
        got = run(Ident().split("x", x=val, container_ndim={"x": nd}))
    except Exception as e:  # noqa: BLE001
        got = f"raised {type(e).__name__}: {e}"
    if got != expected:
        bad.append(f"x={val} container_ndim={nd}: expected jobs for {expected}, got {got}")

# the same inside an outer splitter
val = [[10, 20], [30]]
expected = [(a, x) for a in [1, 2] for x in leaves(val, 2)]
try:
    got = [tuple(o) for o in run(
        Pair().split(["a", "x"], a=[1, 2], x=val, container_ndim={"x": 2})
    )]
except Exception as e:  # noqa: BLE001
    got = f"raised {type(e).__name__}: {e}"
if got != expected:
    bad.append(f"outer splitter [a, x], x={val}: expected {expected}, got {got}")

if bad:
    print("VIOLATION (elements at depth n dropped for ragged nestings):")
    for b in bad:
        print("  ", b)
    sys.exit(1)
print("ok")
