"""Violations of the 'task definitions survive dictionary round trips' property that
are present in the UNCHANGED tree. Each case is run independently; exit status is 1 if
any of them shows a violation (all of them do on the unchanged tree).
"""
import sys, os; sys.path.insert(0, os.getcwd())  # noqa: E702
import tempfile
import typing as ty
from pathlib import Path
import pydra.engine

assert pydra.engine.__file__.startswith(os.getcwd()), pydra.engine.__file__

from fileformats.generic import File  # noqa: E402
from pydra.compose import python, shell  # noqa: E402
from pydra.utils.general import unstructure, structure, get_fields  # noqa: E402

tmp = Path(tempfile.mkdtemp(prefix="c32-existing-"))
violations = []


def case(fn):
    try:
        msg = fn()
    except Exception as e:  # round trip itself blew up
        msg = f"round trip raised {type(e).__name__}: {str(e)[:200]}"
    print(f"[{'VIOLATION' if msg else 'ok'}] {fn.__name__}: {msg or ''}")
    if msg:
        violations.append(fn.__name__)


def outs(o):
    return {f.name: getattr(o, f.name) for f in get_fields(o)}


@case
def requires_not_restorable():
    """`requires` is unstructured (attrs.asdict recursion) into
    [{'requirements': [{'name': 'y', 'allowed_values': None}]}], which
    requires_converter does not understand: it iterates the dict *keys*, producing
    Requirement(name='requirements') -> ValueError from _check_arg_refs"""

    @shell.define
    class A(shell.Task["A.Outputs"]):
        executable = "echo"
        x: int | None = shell.arg(argstr="-x", default=None, requires=["y"])
        y: str | None = shell.arg(argstr="-y", default=None)

        class Outputs(shell.Outputs):
            pass

    R = structure(unstructure(A))
    if get_fields(A) != get_fields(R):
        return "fields differ"


@case
def python_no_outputs_gains_out_field():
    """outputs=[] on a function without a return annotation -> serialised as
    'outputs': {} -> define() treats the empty dict like 'not specified' and adds the
    implicit 'out' output"""

    @python.define(outputs=[])
    def NoOut(a):
        pass

    R = structure(unstructure(NoOut))
    a = [f.name for f in get_fields(NoOut.Outputs)]
    b = [f.name for f in get_fields(R.Outputs)]
    if a != b:
        return f"output fields {a} became {b}"


@case
def tuple_default_becomes_list():
    """any non-list collection is turned into a list by unstructure; when the field
    type doesn't force a coercion back (ty.Any, ty.Sequence, ...) the default, and
    hence the outputs for unset inputs, change"""

    @python.define
    def Ident(x: ty.Any = (1, 2)) -> ty.Any:
        return x

    R = structure(unstructure(Ident))
    d0, d1 = get_fields(Ident).x.default, get_fields(R).x.default
    o0 = outs(Ident()(cache_root=tmp / "t0"))
    o1 = outs(R()(cache_root=tmp / "t1"))
    if d0 != d1 or o0 != o1:
        return f"default {d0!r} -> {d1!r}; outputs {o0} -> {o1}"


@case
def outarg_without_path_template():
    """outarg vs out is decided on restructure by the presence of the 'path_template'
    key, which filter_out_defaults drops when it is None"""

    @shell.define
    class E(shell.Task["E.Outputs"]):
        executable = "echo"
        x: int = shell.arg(argstr="-x")

        class Outputs(shell.Outputs):
            o: File = shell.outarg(argstr="-o", path_template=None, default="foo.txt")

    R = structure(unstructure(E))
    if get_fields(E) != get_fields(R):
        return "fields differ"


@case
def executable_list_with_option():
    """The executable list is re-parsed as a command-line template by shell.define, so
    elements that look like options/fields are not taken as part of the executable"""

    @shell.define
    class L(shell.Task["L.Outputs"]):
        executable = ["ls", "-l"]
        d: str = shell.arg(argstr="", default=".")

        class Outputs(shell.Outputs):
            pass

    R = structure(unstructure(L))
    if L().cmdline != R().cmdline:
        return f"cmdline {L().cmdline!r} -> {R().cmdline!r}"


@case
def structure_mutates_dictionary_form():
    """For python tasks structure() replaces the nested field dicts of the dictionary
    it is given by Arg/Out objects (define() edits `inputs`/`outputs` in place), so the
    'dictionary form' is no longer plain data after it has been used once"""

    @python.define
    def P(a: int, b: int = 2) -> int:
        return a + b

    dct = unstructure(P)
    structure(dct)
    bad = {n: type(v).__name__ for n, v in dct["inputs"].items() if not isinstance(v, dict)}
    bad.update(
        {n: type(v).__name__ for n, v in dct["outputs"].items() if not isinstance(v, dict)}
    )
    second = ""
    try:
        structure(dct)  # re-create the class a second time from the same dictionary
    except Exception as e:
        second = f"; a second structure() of the same dict raises {type(e).__name__}: {e}"
    if bad or second:
        return f"dictionary form now contains field objects: {bad}{second}"


sys.exit(1 if violations else 0)
