"""UNCHANGED tree -- a job that fails outside the guarded part of Job.run (here: in its
pre_run hook; the same happens when the job cannot be unpickled in the pool process or
_populate_filesystem fails) makes the process-pool run spin for ever.

No errored result is written for such a job, so in the parent it stays in
NodeExecution.queued.  expand_workflow_async keeps getting it back from
get_runnable_tasks(), does not resubmit it (its checksum is in `futured`), has no pending
future to wait for, and loops without ever reaching the `finally` that reports the
collected error.  The debug worker raises the hook's exception at once.

exit 1 when the workers behave differently (debug: error, cf: hang), 0 otherwise.
"""
import os, sys
sys.path.insert(0, os.getcwd())
import signal, tempfile
import pydra.engine
assert pydra.engine.__file__.startswith(os.getcwd()), pydra.engine.__file__
from pydra.compose import python, workflow
from pydra.engine.submitter import Submitter
from pydra.engine.hooks import TaskHooks


@python.define
def Add2(x: int) -> int:
    return x + 2


def bad_pre_run(job):
    raise ValueError("pre_run hook failed")


@workflow.define
def Wf(x: int) -> int:
    a = workflow.add(Add2(x=x), hooks=TaskHooks(pre_run=bad_pre_run))
    return a.out


class Timeout(Exception):
    pass


TIMED_OUT = []


def _alarm(*_):
    TIMED_OUT.append(True)
    raise Timeout()


def run(worker, **kw):
    signal.signal(signal.SIGALRM, _alarm)
    TIMED_OUT.clear()
    signal.alarm(25)
    try:
        with Submitter(worker=worker, cache_root=tempfile.mkdtemp(), **kw) as sub:
            res = sub(Wf(x=1), raise_errors=True)
        return ("ok", res.outputs.out)
    except Timeout:
        return ("hang", "no result after 25 s")
    except Exception as e:
        if TIMED_OUT:  # the `finally` of expand_workflow_async replaces the Timeout
            return ("hang", f"no result after 25 s (interrupted, then {type(e).__name__})")
        return ("error", type(e).__name__)
    finally:
        signal.alarm(0)


if __name__ == "__main__":
    d = run("debug")
    print("debug:", d, flush=True)
    c = run("cf", n_procs=1)
    print("cf:   ", c, flush=True)
    os._exit(0 if d[0] == c[0] else 1)
