"""Violations of the property that show on the UNCHANGED tree (SGE worker): the worker
cannot bring any job to completion, and ignores ``qsub_args``.

qsub/qstat/qacct are replaced by a scripted simulator.  exit 1 when a violation shows.
"""
import sys, os; sys.path.insert(0, os.getcwd())  # noqa: E401,E702
import asyncio
import random
import tempfile
from pathlib import Path

import pydra.engine

assert pydra.engine.__file__.startswith(os.getcwd()), pydra.engine.__file__
from pydra.engine.submitter import Submitter  # noqa: E402
from pydra.engine.job import Job, load_and_run  # noqa: E402
from pydra.workers import base, sge  # noqa: E402
from pydra.engine.tests.utils import Multiply  # noqa: E402

QACCT_OK = "qname all.q\njobnumber 77\ntaskid 1\nfailed 0\nexit_status 0\n"


class FakeSge:
    def __init__(self):
        self.qsub_argv = None
        self.polls = 0

    async def __call__(self, *cmd, hide_display=False, strip=False):
        prog = cmd[0]
        if prog == "qsub":
            self.qsub_argv = list(cmd[1:])
            return 0, 'Your job-array 77.1-1:1 ("x") has been submitted\n', ""
        if prog == "qstat":
            self.polls += 1
            if self.polls < 2:
                return 0, "job_number: 77\n", ""
            return 1, "", "Following jobs do not exist: 77\n"
        if prog == "qacct":
            return 0, QACCT_OK, ""
        raise AssertionError(cmd)


def submit(poll_for_result_file, qsub_args="", workaround=False):
    tmp = Path(tempfile.mkdtemp(prefix="c28_sge_"))
    fake = FakeSge()
    base.read_and_display_async = fake
    random.uniform = lambda a, b: 0  # no random sleeps
    worker = sge.SgeWorker(
        qsub_args=qsub_args,
        poll_delay=0,
        collect_jobs_delay=0,
        poll_for_result_file=poll_for_result_file,
    )
    if workaround:  # get past the first crash to see what comes next
        worker.threads_used = 0
    sub = Submitter(worker=worker, cache_root=tmp)
    job = Job(name="mult", task=Multiply(x=2, y=10), submitter=sub)
    try:
        out = asyncio.run(asyncio.wait_for(worker.run(job), 20))
    except Exception as e:  # noqa: BLE001
        out = e
    return out, fake


def main():
    bad = []
    for pfr, workaround in ((True, False), (False, False), (True, True), (False, True)):
        out, fake = submit(pfr, qsub_args="-q long.q -N myname", workaround=workaround)
        if out is not True:
            bad.append(
                f"poll_for_result_file={pfr}"
                + (" (threads_used preset to 0 to get past the first crash)" * workaround)
                + ": scheduler accepts and completes the job, "
                f"worker reported {type(out).__name__}: {out}"
            )
        if fake.qsub_argv is not None and "long.q" not in fake.qsub_argv:
            bad.append(f"qsub_args ignored, qsub called with {fake.qsub_argv[:-1]}")
    for b in bad:
        print("VIOLATION:", b)
    return 1 if bad else 0


if __name__ == "__main__":
    sys.exit(main())
