"""Behaviours of the UNCHANGED pydra.engine.graph.DiGraph that break (or make it
impossible to observe) the "valid topological order after any sequence of
add/remove operations" property.  Exit status 1 if any of them shows.

Run as:  cd /tmp/wt_C37 && /venv/bin/python /tmp/seed_C37/existing/repro_existing.py
"""

import sys, os

sys.path.insert(0, os.getcwd())

import traceback  # noqa: E402
import pydra.engine  # noqa: E402
from pydra.engine.graph import DiGraph  # noqa: E402

assert pydra.engine.__file__.startswith(os.getcwd()), pydra.engine.__file__


class Nd:
    def __init__(self, name):
        self.name = name
        self.state = None

    def __repr__(self):
        return self.name


def violation(graph):
    srt = list(graph.sorted_nodes)
    if sorted(n.name for n in srt) != sorted(n.name for n in graph.nodes):
        return f"sorted_nodes {srt} is not a permutation of remaining nodes {graph.nodes}"
    pos = {n.name: i for i, n in enumerate(srt)}
    for nd in graph.nodes:
        for pred in graph.predecessors[nd.name]:
            if pred.name in pos and pos[pred.name] >= pos[nd.name]:
                return f"{nd} placed before its predecessor {pred} in {srt}"
    return None


found = []


def case(title):
    def deco(fn):
        try:
            res = fn()
        except Exception:
            res = "unexpected exception:\n" + traceback.format_exc(limit=4)
        print(f"--- {title}: {'VIOLATION' if res else 'ok'}")
        if res:
            print("    " + res.replace("\n", "\n    "))
            found.append(title)
        return fn

    return deco


@case("E1 remove_nodes() that raises half-way leaves a removed node in sorted_nodes")
def e1():
    a, b, c = Nd("a"), Nd("b"), Nd("c")
    g = DiGraph(name="g", nodes=[a, b, c], edges=[(a, b)])
    g.sorting()
    try:
        g.remove_nodes([a, b])  # b is not ready -> exception, but a is already gone
    except Exception as e:
        assert "has to wait" in str(e)
    # the caller handles the error and carries on with the graph
    return violation(g)


@case("E2 remove_nodes() on a graph that was never sorted raises ValueError")
def e2():
    a, b, c = Nd("a"), Nd("b"), Nd("c")
    g = DiGraph(name="g", nodes=[a, b, c], edges=[(a, b)])
    g.remove_nodes(c)  # c is not the head of the (lazily computed) order
    return violation(g)


@case("E3 add_edges() raises while a removed node still has pending connections")
def e3():
    a, b, c, d = Nd("a"), Nd("b"), Nd("c"), Nd("d")
    g = DiGraph(name="g", nodes=[a, b, c, d], edges=[(a, b)])
    g.sorting()
    g.remove_nodes(a)  # a is "running": still connected to b
    g.add_edges((c, d))  # unrelated, acyclic edge between present nodes
    return violation(g)


@case("E4 remove_successors_nodes() reports a cycle in an acyclic graph")
def e4():
    a, b, c, d, f = Nd("a"), Nd("b"), Nd("c"), Nd("d"), Nd("f")
    # a -> b -> c, b -> d ; f independent
    g = DiGraph(name="g", nodes=[f, a, b, c, d], edges=[(a, b), (b, c), (b, d)])
    g.sorting()
    g.remove_nodes(a)
    g.remove_successors_nodes(a)  # a errored: drop everything downstream
    return violation(g)


@case("E5 re-adding a node while its old connections are pending makes sorting fail")
def e5():
    a, b = Nd("a"), Nd("b")
    g = DiGraph(name="g", nodes=[a, b], edges=[(a, b)])
    g.sorting()
    g.remove_nodes(a)
    g.add_nodes(a)  # e.g. re-queued for a re-run before its connections were pruned
    return violation(g)


if __name__ == "__main__":
    print(f"{len(found)} existing violation(s)")
    sys.exit(1 if found else 0)
