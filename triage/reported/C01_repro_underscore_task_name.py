"""UNCHANGED tree: a task whose class name starts with an underscore cannot be split.

The node (and its State) is named after the task class, the splitter fields are
prefixed with that name ("_Priv.a"), and splitter2rpn/_ordering treats every
splitter element that starts with "_" as a reference to the state of an upstream
node ("_NA"), so a plain split of `_Priv` dies with
`PydraStateError: can't ask for splitter from Priv.a, other nodes that are connected: ...`
instead of running one job per element.  (Loud, not silent; needs an unusual task name.)

Run:  cd /tmp/wt_C01 && /venv/bin/python repro_underscore_task_name.py   (exit 1 = violation shown)
"""
import os
import sys

sys.path.insert(0, os.getcwd())

import tempfile

from pydra.compose import python
from pydra.engine.submitter import Submitter


@python.define
def _Priv(a: int = 0, b: int = 0) -> tuple:
    return (a, b)


@python.define
def Pub(a: int = 0, b: int = 0) -> tuple:
    return (a, b, "pub")[:2]


def run(task_cls):
    task = task_cls().split(["a", "b"], a=[1, 2], b=[10, 20])
    with tempfile.TemporaryDirectory() as tmp:
        with Submitter(worker="debug", cache_root=tmp) as sub:
            return sub(task).outputs.out


def main():
    expected = [(1, 10), (1, 20), (2, 10), (2, 20)]
    # NB: _Priv has to be run first: a task class with the same fields and function code
    # hashes like Pub, and the workflow constructed for Pub (node name "Pub") would be reused
    try:
        got = run(_Priv)
    except Exception as exc:  # noqa: BLE001
        print(f"splitting the task class '_Priv' failed: {type(exc).__name__}: {exc}")
        assert run(Pub) == expected  # the same task under another name is fine
        return 1
    if got != expected:
        print(f"wrong outputs {got}")
        return 1
    print("OK")
    return 0


if __name__ == "__main__":
    sys.exit(main())
