import sys, os; sys.path.insert(0, os.getcwd())
import json, glob, tempfile, shutil
from pathlib import Path
import pydra.engine
assert pydra.engine.__file__.startswith(os.getcwd()), pydra.engine.__file__
from pydra.compose import shell
from pydra.utils.messenger import FileMessenger, AuditFlag


def fmt(field):
    # a formatter with a bug / rejecting the value: the task is a *failing* task
    raise ValueError("cannot format %r" % (field,))


Sh = shell.define(
    "echo",
    inputs={"x": shell.arg(type=int, formatter=fmt, position=1, help="x")},
)

tmp = Path(tempfile.mkdtemp())
mdir = tmp / "msgs"
try:
    try:
        Sh(x=3)(
            cache_root=tmp / "cache",
            audit_flags=AuditFlag.PROV,
            messengers=FileMessenger(),
            messenger_args=dict(message_dir=mdir),
        )
        print("task unexpectedly succeeded")
    except Exception as e:
        print("task failed as expected:", type(e).__name__, str(e).splitlines()[0])
    msgs = [json.load(open(f)) for f in glob.glob(str(mdir / "*.jsonld"))]
    starts = [m for m in msgs if "startedAtTime" in m and m.get("@type") == "job"]
    ends = [m for m in msgs if "endedAtTime" in m and "errored" in m]
    print("start records:", len(starts), "end records:", len(ends))
    results = glob.glob(str(tmp / "cache" / "*" / "_result.pklz"))
    print("saved results:", results)
    if len(starts) != len(ends):
        print("VIOLATION: job emitted a start record but no end record")
        sys.exit(1)
finally:
    shutil.rmtree(tmp, ignore_errors=True)
sys.exit(0)
