"""Probe (unchanged tree): pred job fails between the `p.errored` check and the
`all(p.done ...)` check of NodeExecution.get_runnable_tasks of its dependant."""
import os, sys
sys.path.insert(0, os.getcwd())
import shutil, tempfile, threading, time
import concurrent.futures as cf
from pathlib import Path
from pydra.compose import python, workflow
from pydra.engine.submitter import Submitter, NodeExecution
from pydra.workers import base as workers_base

sys._probe = {"executed": [], "gate": threading.Event()}
FLAGS = {"in_dep": False, "fired": False}

class ThreadWorker(workers_base.Worker):
    _plugin_name = "demo-threads"
    def __init__(self):
        super().__init__(); self.pool = cf.ThreadPoolExecutor(8)
    async def run(self, job, rerun=False):
        return await self.loop.run_in_executor(self.pool, job.run, rerun)
    def close(self): self.pool.shutdown()

@python.define
def Pred(x: int) -> int:
    import sys
    sys._probe["executed"].append("pred")
    sys._probe["gate"].wait(30)
    raise ValueError("pred blew up")

@python.define
def Dep(x: int) -> int:
    import sys
    sys._probe["executed"].append("dep"); return x

@python.define
def Ind(x: int) -> int:
    import sys, time
    sys._probe["executed"].append("ind"); time.sleep(0.3); return x

@python.define
def Ind2(x: int) -> int:
    import sys
    sys._probe["executed"].append("ind2"); return x

@workflow.define(outputs=["a", "b"])
def Wf(x: int):
    pred = workflow.add(Pred(x=x), name="pred")
    ind = workflow.add(Ind(x=x), name="ind")
    dep = workflow.add(Dep(x=pred.out), name="dep")
    ind2 = workflow.add(Ind2(x=ind.out), name="ind2")
    return dep.out, ind2.out

orig_grt = NodeExecution.get_runnable_tasks
def grt(self, graph):
    if self.name == "dep":
        FLAGS["in_dep"] = True
        try: return orig_grt(self, graph)
        finally: FLAGS["in_dep"] = False
    return orig_grt(self, graph)
NodeExecution.get_runnable_tasks = grt

orig_done = NodeExecution.done.fget
def done(self):
    if self.name == "pred" and FLAGS["in_dep"] and not FLAGS["fired"]:
        FLAGS["fired"] = True
        job = next(iter(self._tasks.values()))
        sys._probe["gate"].set()
        for _ in range(400):
            if (job.cache_dir / "_result.pklz").exists() and not job.lockfile.exists(): break
            time.sleep(0.05)
    return orig_done(self)
NodeExecution.done = property(done)

tmp = Path(tempfile.mkdtemp())
try:
    with Submitter(worker=ThreadWorker(), cache_root=tmp) as sub:
        res = sub(Wf(x=1), raise_errors=False)
    msg = "".join(res.errors["error message"]) if res.errored else "NO ERROR"
except Exception as e:
    msg = f"RAISED {type(e).__name__}: {e}"
sys._probe["gate"].set()
print("fired:", FLAGS["fired"], "executed:", sys._probe["executed"])
print(msg[-1200:])
shutil.rmtree(tmp, ignore_errors=True)
