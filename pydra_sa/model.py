"""Source model: parse the repository, index modules / classes / functions,
resolve names, infer nominal types, resolve call targets.

Stdlib only.  Nothing from the analysed repository is imported.
"""

from __future__ import annotations

import ast
import hashlib
import os
import re
from dataclasses import dataclass, field
from pathlib import Path
import typing as ty


class AnalysisError(Exception):
    """The analysis cannot be carried out (anchor vanished, parse failure,
    instance count below the confirmed floor).  Converted to exit status 2 -- it is
    never a pass and never a violation."""


# --------------------------------------------------------------------------- #
# data
# --------------------------------------------------------------------------- #


@dataclass
class Module:
    name: str
    path: Path
    relpath: str
    source: str
    tree: ast.Module
    imports: dict[str, str] = field(default_factory=dict)  # local name -> dotted target
    defs: dict[str, ast.AST] = field(default_factory=dict)  # top-level def/class/assign
    is_package: bool = False

    def __hash__(self):
        return hash(self.name)

    def __repr__(self):
        return f"<Module {self.name}>"


@dataclass
class ClassInfo:
    qualname: str
    name: str
    node: ast.ClassDef
    module: Module
    base_exprs: list[ast.expr]
    bases: list["ClassInfo | str"] = field(default_factory=list)
    methods: dict[str, "FuncInfo"] = field(default_factory=dict)
    class_assigns: dict[str, ast.AST] = field(default_factory=dict)
    annotations: dict[str, ast.expr] = field(default_factory=dict)
    is_attrs: bool = False
    attrs_kw_only: bool = False
    subclasses: list["ClassInfo"] = field(default_factory=list)
    outer: "ClassInfo | None" = None
    nested: dict[str, "ClassInfo"] = field(default_factory=dict)

    def __hash__(self):
        return hash(self.qualname)

    def __eq__(self, other):
        return isinstance(other, ClassInfo) and other.qualname == self.qualname

    def __repr__(self):
        return f"<Class {self.qualname}>"

    def mro(self) -> list["ClassInfo"]:
        out, seen = [], set()

        def walk(c):
            if c.qualname in seen:
                return
            seen.add(c.qualname)
            out.append(c)
            for b in c.bases:
                if isinstance(b, ClassInfo):
                    walk(b)

        walk(self)
        return out

    def all_subclasses(self) -> list["ClassInfo"]:
        out, seen, st = [], set(), list(self.subclasses)
        while st:
            c = st.pop()
            if c.qualname in seen:
                continue
            seen.add(c.qualname)
            out.append(c)
            st.extend(c.subclasses)
        return out

    def find_method(self, name: str) -> "FuncInfo | None":
        for c in self.mro():
            if name in c.methods:
                return c.methods[name]
        return None

    BENIGN_BASES = ("Generic", "Protocol", "object", "ABC")

    def has_external_base(self) -> bool:
        """an external base class that may contribute attributes / __init__ (typing
        scaffolding such as Generic[...] does not)."""
        return any(isinstance(b, str) and b.rsplit(".", 1)[-1] not in self.BENIGN_BASES for c in self.mro() for b in c.bases)

    def is_subclass_of(self, other: "ClassInfo") -> bool:
        return any(c.qualname == other.qualname for c in self.mro())


@dataclass
class FuncInfo:
    qualname: str
    name: str
    node: ast.FunctionDef | ast.AsyncFunctionDef
    module: Module
    cls: ClassInfo | None = None
    parent: "FuncInfo | None" = None
    decorators: list[str] = field(default_factory=list)
    nested: dict[str, "FuncInfo"] = field(default_factory=dict)

    def __hash__(self):
        return hash(self.qualname)

    def __eq__(self, other):
        return isinstance(other, FuncInfo) and other.qualname == self.qualname

    def __repr__(self):
        return f"<Func {self.qualname}>"

    @property
    def is_property(self) -> bool:
        return any(
            d == "property" or d.endswith(".setter") or d.endswith("cached_property")
            for d in self.decorators
        )

    @property
    def is_property_getter(self) -> bool:
        return any(d == "property" or d.endswith("cached_property") for d in self.decorators)

    @property
    def is_classmethod(self) -> bool:
        return "classmethod" in self.decorators

    @property
    def is_staticmethod(self) -> bool:
        return "staticmethod" in self.decorators

    @property
    def is_async(self) -> bool:
        return isinstance(self.node, ast.AsyncFunctionDef)

    @property
    def is_generator(self) -> bool:
        for n in walk_own(self.node):
            if isinstance(n, (ast.Yield, ast.YieldFrom)):
                return True
        return False

    def params(self) -> list[ast.arg]:
        a = self.node.args
        return list(a.posonlyargs) + list(a.args) + list(a.kwonlyargs)

    def loc(self) -> str:
        return f"{self.module.relpath}:{self.node.lineno}"


# --------------------------------------------------------------------------- #
# helpers over the raw AST
# --------------------------------------------------------------------------- #

_FUNC_TYPES = (ast.FunctionDef, ast.AsyncFunctionDef)
_SCOPE_TYPES = (ast.FunctionDef, ast.AsyncFunctionDef, ast.ClassDef, ast.Lambda)


def walk_own(node: ast.AST, include_lambdas: bool = True):
    """ast.walk that does not descend into nested def/class bodies (their own scopes)."""
    st = list(ast.iter_child_nodes(node))
    while st:
        n = st.pop()
        yield n
        if isinstance(n, (ast.FunctionDef, ast.AsyncFunctionDef, ast.ClassDef)):
            # decorators/defaults belong to the enclosing scope
            for d in n.decorator_list:
                st.append(d)
            continue
        if isinstance(n, ast.Lambda) and not include_lambdas:
            continue
        st.extend(ast.iter_child_nodes(n))


def norm(node: ast.AST | None, limit: int = 160) -> str:
    """Normalised display text of a node (ast.unparse, whitespace collapsed)."""
    if node is None:
        return ""
    try:
        t = ast.unparse(node)
    except Exception:  # pragma: no cover
        t = type(node).__name__
    t = re.sub(r"\s+", " ", t).strip()
    return t if len(t) <= limit else t[: limit - 3] + "..."


def dotted(expr: ast.AST) -> str | None:
    """'a.b.c' for Name/Attribute chains, else None."""
    parts = []
    while isinstance(expr, ast.Attribute):
        parts.append(expr.attr)
        expr = expr.value
    if isinstance(expr, ast.Name):
        parts.append(expr.id)
        return ".".join(reversed(parts))
    return None


def root_name(expr: ast.AST) -> str | None:
    while isinstance(expr, (ast.Attribute, ast.Subscript, ast.Call)):
        expr = expr.value if not isinstance(expr, ast.Call) else expr.func
    return expr.id if isinstance(expr, ast.Name) else None


def const_str(expr: ast.AST | None) -> str | None:
    if isinstance(expr, ast.Constant) and isinstance(expr.value, str):
        return expr.value
    return None


def kwarg(call: ast.Call, name: str) -> ast.expr | None:
    for k in call.keywords:
        if k.arg == name:
            return k.value
    return None


def parents(node: ast.AST):
    p = getattr(node, "_parent", None)
    while p is not None:
        yield p
        p = getattr(p, "_parent", None)


def enclosing_stmt(node: ast.AST) -> ast.stmt | None:
    n = node
    while n is not None and not isinstance(n, ast.stmt):
        n = getattr(n, "_parent", None)
    return n


def is_within(node: ast.AST, ancestor: ast.AST) -> bool:
    return node is ancestor or any(p is ancestor for p in parents(node))


# --------------------------------------------------------------------------- #
# repository
# --------------------------------------------------------------------------- #

BUILTIN_EXC_BASE = {
    # builtin exception hierarchy (frozen table, from the language reference)
    "BaseException": None,
    "Exception": "BaseException",
    "KeyboardInterrupt": "BaseException",
    "SystemExit": "BaseException",
    "GeneratorExit": "BaseException",
    "CancelledError": "BaseException",  # asyncio.CancelledError since 3.8
    "ArithmeticError": "Exception",
    "ZeroDivisionError": "ArithmeticError",
    "OverflowError": "ArithmeticError",
    "AssertionError": "Exception",
    "AttributeError": "Exception",
    "EOFError": "Exception",
    "ImportError": "Exception",
    "ModuleNotFoundError": "ImportError",
    "LookupError": "Exception",
    "IndexError": "LookupError",
    "KeyError": "LookupError",
    "NameError": "Exception",
    "OSError": "Exception",
    "IOError": "Exception",
    "FileNotFoundError": "OSError",
    "FileExistsError": "OSError",
    "PermissionError": "OSError",
    "TimeoutError": "OSError",
    "RuntimeError": "Exception",
    "NotImplementedError": "RuntimeError",
    "RecursionError": "RuntimeError",
    "StopIteration": "Exception",
    "StopAsyncIteration": "Exception",
    "SyntaxError": "Exception",
    "TypeError": "Exception",
    "ValueError": "Exception",
    "UnicodeError": "ValueError",
    "UnpicklingError": "Exception",  # pickle.UnpicklingError -> PickleError -> Exception
    "PickleError": "Exception",
    "Timeout": "TimeoutError",  # filelock.Timeout
    "CalledProcessError": "Exception",
    "FormatDefinitionError": "Exception",
    "NotYetFrozenAttributeError": "AttributeError",
}


def exc_is_subclass(name: str, ancestor: str) -> bool | None:
    """True/False if known from the frozen builtin table, None if unknown."""
    name = name.rsplit(".", 1)[-1]
    ancestor = ancestor.rsplit(".", 1)[-1]
    if name not in BUILTIN_EXC_BASE:
        return None
    cur: str | None = name
    while cur is not None:
        if cur == ancestor:
            return True
        cur = BUILTIN_EXC_BASE.get(cur)
    return False


class Repo:
    """Parsed view of /repo/pydra (installed-package scope: no tests, no conftest)."""

    PACKAGE = "pydra"

    def __init__(self, root: str | os.PathLike = "/repo"):
        self.root = Path(root)
        self.modules: dict[str, Module] = {}
        self.classes: dict[str, ClassInfo] = {}
        self.functions: dict[str, FuncInfo] = {}
        self.by_node: dict[int, FuncInfo | ClassInfo] = {}
        self.methods_by_name: dict[str, list[FuncInfo]] = {}
        self._type_cache: dict = {}
        self._load()

    # ------------------------------------------------------------------ load
    def _load(self):
        pkg = self.root / self.PACKAGE
        if not pkg.is_dir():
            raise AnalysisError(f"package directory {pkg} not found")
        files = []
        for p in sorted(pkg.rglob("*.py")):
            rel = p.relative_to(self.root)
            if "tests" in rel.parts or p.name == "conftest.py":
                continue
            files.append(p)
        if len(files) < 30:
            raise AnalysisError(
                f"only {len(files)} source files under {pkg}; expected the pydra package"
            )
        for p in files:
            rel = p.relative_to(self.root)
            parts = list(rel.with_suffix("").parts)
            is_pkg = parts[-1] == "__init__"
            if is_pkg:
                parts = parts[:-1]
            name = ".".join(parts)
            src = p.read_text()
            try:
                tree = ast.parse(src, filename=str(p))
            except SyntaxError as e:
                raise AnalysisError(f"cannot parse {rel}: {e}") from None
            m = Module(name, p, str(rel), src, tree, is_package=is_pkg)
            self.modules[name] = m
        for m in self.modules.values():
            self._index_module(m)
        self._link_classes()

    def digest(self, modules: ty.Iterable[str] | None = None) -> str:
        h = hashlib.blake2b(digest_size=8)
        for name in sorted(modules or self.modules):
            m = self.modules.get(name)
            if m is not None:
                h.update(name.encode())
                h.update(m.source.encode())
        return h.hexdigest()

    def stats(self) -> dict:
        return {
            "files": len(self.modules),
            "functions": len(self.functions),
            "classes": len(self.classes),
            "lines": sum(m.source.count("\n") + 1 for m in self.modules.values()),
        }

    def _index_module(self, m: Module):
        # parent links
        for parent in ast.walk(m.tree):
            for child in ast.iter_child_nodes(parent):
                child._parent = parent  # type: ignore[attr-defined]
        m.tree._parent = None  # type: ignore[attr-defined]
        m.tree._module = m  # type: ignore[attr-defined]
        # imports anywhere in the module (function-level imports included; names are
        # resolved module-wide, which is sound for this code base: no shadowing of
        # imported names by different targets was found, see check in selftest)
        for n in ast.walk(m.tree):
            if isinstance(n, ast.Import):
                for a in n.names:
                    if a.asname:
                        m.imports.setdefault(a.asname, a.name)
                    else:
                        m.imports.setdefault(a.name.split(".")[0], a.name.split(".")[0])
            elif isinstance(n, ast.ImportFrom):
                base = n.module or ""
                if n.level:
                    pkg_parts = m.name.split(".")
                    if not m.is_package:
                        pkg_parts = pkg_parts[:-1]
                    if n.level > 1:
                        pkg_parts = pkg_parts[: len(pkg_parts) - (n.level - 1)]
                    base = ".".join(pkg_parts + ([base] if base else []))
                for a in n.names:
                    if a.name == "*":
                        continue
                    m.imports.setdefault(a.asname or a.name, f"{base}.{a.name}")
        self._index_body(m, m.tree.body, prefix=m.name, cls=None, fn=None)

    def _index_body(self, m, body, prefix, cls, fn):
        for n in self._flatten(body):
            if isinstance(n, _FUNC_TYPES):
                self._index_func(m, n, prefix, cls, fn)
            elif isinstance(n, ast.ClassDef):
                self._index_class(m, n, prefix, cls, fn)
            elif isinstance(n, (ast.Assign, ast.AnnAssign)) and cls is None and fn is None:
                for t in n.targets if isinstance(n, ast.Assign) else [n.target]:
                    if isinstance(t, ast.Name):
                        m.defs.setdefault(t.id, n)

    @staticmethod
    def _flatten(body):
        """statements of a body, descending into if/try/with at the same scope level."""
        for n in body:
            yield n
            if isinstance(n, ast.If):
                yield from Repo._flatten(n.body)
                yield from Repo._flatten(n.orelse)
            elif isinstance(n, ast.Try):
                yield from Repo._flatten(n.body)
                for h in n.handlers:
                    yield from Repo._flatten(h.body)
                yield from Repo._flatten(n.orelse)
                yield from Repo._flatten(n.finalbody)
            elif isinstance(n, (ast.With, ast.AsyncWith, ast.For, ast.While)):
                yield from Repo._flatten(n.body)

    def _index_func(self, m, n, prefix, cls, fn):
        qn = f"{prefix}.{n.name}"
        decos = [dotted(d.func if isinstance(d, ast.Call) else d) or norm(d) for d in n.decorator_list]
        # property setters share the name: keep the getter under the plain name
        key = qn
        if any(d.endswith(".setter") or d.endswith(".deleter") for d in decos):
            key = qn + "#setter"
        elif any(d.endswith(".default") or d.endswith(".validator") for d in decos):
            key = qn
        fi = FuncInfo(key, n.name, n, m, cls=cls, parent=fn, decorators=decos)
        if key in self.functions:
            # redefinition (e.g. try/except fallbacks or singledispatch `_`): number it
            i = 2
            while f"{key}#{i}" in self.functions:
                i += 1
            fi.qualname = key = f"{key}#{i}"
        self.functions[key] = fi
        self.by_node[id(n)] = fi
        n._info = fi  # type: ignore[attr-defined]
        if cls is not None and fn is None:
            if "#" not in key:
                cls.methods[n.name] = fi
            self.methods_by_name.setdefault(n.name, []).append(fi)
        elif fn is not None:
            fn.nested[n.name] = fi
        elif cls is None:
            m.defs.setdefault(n.name, n)
        # nested
        self._index_body(m, n.body, prefix=f"{qn}.<locals>", cls=None, fn=fi)

    def _index_class(self, m, n, prefix, cls, fn):
        qn = f"{prefix}.{n.name}"
        ci = ClassInfo(qn, n.name, n, m, base_exprs=list(n.bases), outer=cls)
        for d in n.decorator_list:
            dn = dotted(d.func if isinstance(d, ast.Call) else d) or ""
            if dn in ("attrs.define", "attr.s", "attr.define", "attrs.frozen", "define", "attr.attrs", "attrs.mutable"):
                ci.is_attrs = True
                if isinstance(d, ast.Call):
                    kw = kwarg(d, "kw_only")
                    if isinstance(kw, ast.Constant) and kw.value is True:
                        ci.attrs_kw_only = True
        if qn in self.classes:
            i = 2
            while f"{qn}#{i}" in self.classes:
                i += 1
            ci.qualname = qn = f"{qn}#{i}"
        self.classes[qn] = ci
        self.by_node[id(n)] = ci
        n._info = ci  # type: ignore[attr-defined]
        if cls is None and fn is None:
            m.defs.setdefault(n.name, n)
        if cls is not None:
            cls.nested[n.name] = ci
        for s in self._flatten(n.body):
            if isinstance(s, ast.Assign):
                for t in s.targets:
                    if isinstance(t, ast.Name):
                        ci.class_assigns.setdefault(t.id, s)
            elif isinstance(s, ast.AnnAssign) and isinstance(s.target, ast.Name):
                ci.annotations.setdefault(s.target.id, s.annotation)
                ci.class_assigns.setdefault(s.target.id, s)
        self._index_body(m, n.body, prefix=qn, cls=ci, fn=None)

    def _link_classes(self):
        for ci in self.classes.values():
            for b in ci.base_exprs:
                e = b
                if isinstance(e, ast.Subscript):  # Generic[...] / Task[Outputs]
                    e = e.value
                r = self.resolve_expr_static(ci.module, e, cls=ci.outer)
                if isinstance(r, ClassInfo):
                    ci.bases.append(r)
                    r.subclasses.append(ci)
                else:
                    ci.bases.append(dotted(e) or norm(e))

    # --------------------------------------------------------------- resolve
    def resolve_dotted(self, dotted_name: str):
        """Resolve an absolute dotted name to Module/ClassInfo/FuncInfo, following
        re-exports through package __init__ imports.  Returns the object, or the string
        itself for things outside the repository."""
        seen = set()
        name = dotted_name
        while True:
            if name in seen:
                return dotted_name
            seen.add(name)
            if name in self.modules:
                return self.modules[name]
            if name in self.classes:
                return self.classes[name]
            if name in self.functions:
                return self.functions[name]
            # split into module prefix + attribute path
            parts = name.split(".")
            for i in range(len(parts) - 1, 0, -1):
                modname = ".".join(parts[:i])
                if modname in self.modules:
                    m = self.modules[modname]
                    head, rest = parts[i], parts[i + 1 :]
                    if head in m.imports and f"{modname}.{head}" not in self.modules:
                        name = ".".join([m.imports[head]] + rest)
                        break
                    # module-level alias  X = Y
                    d = m.defs.get(head)
                    if isinstance(d, ast.Assign) and isinstance(d.value, (ast.Name, ast.Attribute)):
                        tgt = self.resolve_expr_static(m, d.value)
                        if isinstance(tgt, (ClassInfo, FuncInfo, Module)):
                            if not rest:
                                return tgt
                            name = ".".join([self._qual(tgt)] + rest)
                            break
                    # class attribute path: pkg.mod.Class.method / nested class
                    cq = f"{modname}.{head}"
                    if cq in self.classes and rest:
                        c = self.classes[cq]
                        obj: ty.Any = c
                        for r in rest:
                            if isinstance(obj, ClassInfo):
                                nxt = obj.nested.get(r) or obj.find_method(r)
                                if nxt is None:
                                    return dotted_name
                                obj = nxt
                            else:
                                return dotted_name
                        return obj
                    return dotted_name
            else:
                return dotted_name

    @staticmethod
    def _qual(obj) -> str:
        return obj.name if isinstance(obj, Module) else obj.qualname

    def resolve_expr_static(self, m: Module, expr: ast.AST, cls: ClassInfo | None = None, fn: FuncInfo | None = None):
        """Resolve a Name/Attribute chain without type inference (module namespace,
        imports, nested defs)."""
        d = dotted(expr)
        if d is None:
            return None
        parts = d.split(".")
        head = parts[0]
        # nested function / class scopes
        f = fn
        while f is not None:
            if head in f.nested and len(parts) == 1:
                return f.nested[head]
            f = f.parent
        c = cls
        while c is not None:
            if head in c.nested:
                obj: ty.Any = c.nested[head]
                for r in parts[1:]:
                    if isinstance(obj, ClassInfo):
                        obj = obj.nested.get(r) or obj.find_method(r)
                    else:
                        obj = None
                    if obj is None:
                        return None
                return obj
            c = c.outer
        if head in m.defs and not isinstance(m.defs[head], (ast.Assign, ast.AnnAssign)):
            return self.resolve_dotted(".".join([m.name] + parts))
        if head in m.imports:
            return self.resolve_dotted(".".join([m.imports[head]] + parts[1:]))
        if head in m.defs:
            dnode = m.defs[head]
            if isinstance(dnode, ast.Assign) and isinstance(dnode.value, (ast.Name, ast.Attribute)):
                tgt = self.resolve_expr_static(m, dnode.value)
                if tgt is not None and len(parts) == 1:
                    return tgt
            return None
        return None

    # ----------------------------------------------------------- lookup API
    def func(self, qualname: str) -> FuncInfo:
        f = self.functions.get(qualname)
        if f is None:
            raise AnalysisError(f"anchor function {qualname} not found")
        return f

    def cls(self, qualname: str) -> ClassInfo:
        c = self.classes.get(qualname)
        if c is None:
            raise AnalysisError(f"anchor class {qualname} not found")
        return c

    def module(self, name: str) -> Module:
        m = self.modules.get(name)
        if m is None:
            raise AnalysisError(f"anchor module {name} not found")
        return m

    def enclosing_function(self, node: ast.AST) -> FuncInfo | None:
        for p in parents(node):
            if isinstance(p, _FUNC_TYPES):
                return getattr(p, "_info", None)
        return None

    def enclosing_class(self, node: ast.AST) -> ClassInfo | None:
        for p in parents(node):
            if isinstance(p, ast.ClassDef):
                return getattr(p, "_info", None)
            if isinstance(p, _FUNC_TYPES):
                fi = getattr(p, "_info", None)
                if fi is not None and fi.cls is not None:
                    return fi.cls
        return None

    def module_of(self, node: ast.AST) -> Module:
        n = node
        while getattr(n, "_parent", None) is not None:
            n = n._parent
        return n._module

    def loc(self, node: ast.AST) -> str:
        return f"{self.module_of(node).relpath}:{getattr(node, 'lineno', 0)}"

    def all_functions(self) -> list[FuncInfo]:
        return list(self.functions.values())

    # ---------------------------------------------------- annotation -> types
    def annotation_types(self, m: Module, ann: ast.AST | None, cls: ClassInfo | None = None) -> tuple[set[ClassInfo], dict]:
        """Classes named by an annotation.  Returns (classes, info) where info may hold
        'container': 'dict'|'list'|'tuple'|..., 'args': [annotation exprs]."""
        info: dict = {}
        out: set[ClassInfo] = set()
        if ann is None:
            return out, info
        if isinstance(ann, ast.Constant) and isinstance(ann.value, str):
            try:
                ann = ast.parse(ann.value, mode="eval").body
            except SyntaxError:
                return out, info
        if isinstance(ann, ast.BinOp) and isinstance(ann.op, ast.BitOr):
            a, ia = self.annotation_types(m, ann.left, cls)
            b, ib = self.annotation_types(m, ann.right, cls)
            return a | b, (ia or ib)
        if isinstance(ann, ast.Subscript):
            base = dotted(ann.value) or ""
            short = base.rsplit(".", 1)[-1]
            sl = ann.slice
            args = list(sl.elts) if isinstance(sl, ast.Tuple) else [sl]
            if short in ("Optional", "Union"):
                for a in args:
                    t, i = self.annotation_types(m, a, cls)
                    out |= t
                    info = info or i
                return out, info
            if short in ("Type", "type"):
                t, _ = self.annotation_types(m, args[0], cls)
                return set(), {"class_of": t}
            if short.lower() in ("dict", "list", "set", "tuple", "sequence", "iterable", "mapping", "generator", "iterator", "collection", "frozenset", "defaultdict"):
                return set(), {"container": short.lower(), "args": args}
            # Generic alias of a repo class: Job[TaskType] -> Job
            return self.annotation_types(m, ann.value, cls)
        if isinstance(ann, (ast.Name, ast.Attribute)):
            r = self.resolve_expr_static(m, ann, cls=cls)
            if isinstance(r, ClassInfo):
                out.add(r)
            elif r is None and isinstance(ann, ast.Name):
                # TypeVar with bound
                d = m.defs.get(ann.id)
                if isinstance(d, ast.Assign) and isinstance(d.value, ast.Call) and (dotted(d.value.func) or "").endswith("TypeVar"):
                    b = kwarg(d.value, "bound")
                    if b is not None:
                        return self.annotation_types(m, b, cls)
        return out, info


def load_repo(root: str | os.PathLike = "/repo") -> Repo:
    return Repo(root)


# --------------------------------------------------------------------------- #
# name-insensitive text of expressions (rules must not depend on local names)
# --------------------------------------------------------------------------- #


class _Renamer(ast.NodeTransformer):
    def __init__(self, mapping, default=None, keep=()):
        self.mapping, self.default, self.keep = mapping, default, set(keep)

    def visit_Name(self, node):
        if node.id in self.mapping:
            return ast.copy_location(ast.Name(id=self.mapping[node.id], ctx=node.ctx), node)
        if self.default is not None and node.id not in self.keep:
            import builtins

            if not hasattr(builtins, node.id):
                return ast.copy_location(ast.Name(id=self.default, ctx=node.ctx), node)
        return node


def alpha(node: ast.AST | None, mapping: dict[str, str] | None = None, default: str | None = None, keep=("self", "cls"), limit: int = 200) -> str:
    """normalised text of `node` with local names replaced: names in `mapping` by their
    image; if `default` is given every other non-builtin name (except `keep`) by it."""
    if node is None:
        return ""
    import copy

    n2 = _Renamer(mapping or {}, default, keep).visit(copy.deepcopy(node))
    return norm(n2, limit)


def shape(node: ast.AST | None, limit: int = 200) -> str:
    """text of `node` with every local/global variable name replaced by `_` (attribute
    names, constants, builtins and self/cls kept): stable under renaming of variables."""
    return alpha(node, {}, "_", limit=limit)


def always_raises(body: list[ast.stmt]) -> bool:
    """every path through this statement list ends in a raise (last statement is a raise, or an
    if/else whose two branches both always raise)."""
    if not body:
        return False
    last = body[-1]
    if isinstance(last, ast.Raise):
        return True
    if isinstance(last, ast.If) and last.orelse:
        return always_raises(last.body) and always_raises(last.orelse)
    return False


def always_raises_seq(stmts: list[ast.stmt]) -> bool:
    """like always_raises, and additionally accepts `if c: raise ...` followed by statements that always raise"""
    return always_raises(stmts)


def rejecting_guards(fn_node: ast.AST, is_subject) -> list[tuple[ast.If, list[ast.AST]]]:
    """`if <test>: ... raise` statements whose test involves the subject, each with the list of
    conjuncts that NARROW the rejection (operands of a top-level `and` that do not involve the
    subject).  An exact guard has an empty list."""
    out = []
    for n in walk_own(fn_node):
        if isinstance(n, ast.If) and always_raises(n.body) and any(is_subject(k) for k in ast.walk(n.test)):
            ops = n.test.values if isinstance(n.test, ast.BoolOp) and isinstance(n.test.op, ast.And) else [n.test]
            extra = [o for o in ops if not any(is_subject(k) for k in ast.walk(o))]
            out.append((n, extra))
    return out
