"""CLI:  python -m pydra_sa.check <ID> [--tier quick|thorough] [--repo PATH] [--replay FILE]

exit 0  every rule instance of the property held (or is a listed known finding)
exit 1  prints  VIOLATION property=<ID> replay=<path>
exit 2  prints  ANALYSIS-ERROR ...   (anchor vanished, parse failure, floor not met, internal error)
"""

from __future__ import annotations

import argparse
import json
import os
import sys
import time
import traceback

from .model import AnalysisError
from .report import Collector, known_for, write_evidence, write_replay


def run_property(prop_id: str, tier: str, root: str, seed: int, replay: str | None = None, quiet: bool = False, write: bool = True) -> int:
    from .engine import Analysis
    from .rules import load_all

    t0 = time.time()
    reg = load_all()
    if prop_id not in reg:
        print(f"ANALYSIS-ERROR property {prop_id} has no registered check")
        return 2
    spec = reg[prop_id]
    col = Collector(prop_id, tier)
    try:
        A = Analysis(root)
        spec.fn(A, col)
        col.scope(*A.touched)
        if not col.obligations:
            raise AnalysisError(f"{prop_id}: no rule instance was evaluated (vacuous run)")
    except AnalysisError as e:
        print(f"ANALYSIS-ERROR property={prop_id} {e}")
        return 2
    except Exception as e:  # internal error: never a pass, never a violation
        tb = traceback.format_exc().strip().splitlines()
        print(f"ANALYSIS-ERROR property={prop_id} internal error: {type(e).__name__}: {e}")
        for line in tb[-8:]:
            print("   " + line)
        return 2

    known = known_for(prop_id)
    known_printed, violations = [], []
    replay_key = None
    if replay:
        try:
            replay_key = json.loads(open(replay).read())["finding"]["key"]
        except Exception as e:
            print(f"ANALYSIS-ERROR property={prop_id} cannot read replay file {replay}: {e}")
            return 2
    for f in col.findings:
        if replay_key is not None and f.key != replay_key:
            continue
        if f.key in known:
            known_printed.append(f.key)
            if not quiet:
                print(f"KNOWN-FINDING: property={prop_id} {f.rule} in {f.func}: {f.message} [{f.loc}] (id {known[f.key].get('id', '?')})")
        else:
            violations.append(f)
    stats = A.repo.stats()
    stats["digest"] = A.repo.digest()
    extra = {}
    from .cfg import STATS as CFG_STATS

    scope_fns = [A.repo.functions[q] for q in sorted(col.scope_functions) if q in A.repo.functions]
    col.calls_resolved, col.calls_unresolved = A.count_resolution(scope_fns)
    col.paths_explored = CFG_STATS["states"]
    extra["cfg_explorations"] = CFG_STATS["explorations"]
    extra["cfgs_built"] = CFG_STATS["cfgs_built"]
    extra["cfg_nodes"] = CFG_STATS["cfg_nodes"]
    selfval = None
    if tier == "thorough" and replay is None and os.environ.get("PYDRA_SA_NO_SELFVAL") != "1":
        from .selftest import run_corpus

        selfval = run_corpus(prop_id, root, seed)
        from .twins import run_twins

        tw = run_twins(prop_id, root, sorted(col.scope_functions), seed=seed)
        selfval.update(tw)
        extra["self_validation"] = selfval
    for f in violations:
        p = write_replay(prop_id, f, root)
        if not quiet:
            print(f"  {f.rule}: {f.func}: {f.message} [{f.loc}]")
            for w in f.witness[:16]:
                print(f"      {w}")
        print(f"VIOLATION property={prop_id} replay={p}")
    wall = time.time() - t0
    if write and replay is None:
        explanation = (
            f"Static analysis ({spec.technique}). Decides: {spec.decides} Not decided: {spec.not_decided} "
            "Every count below is measured on this run over /repo's current source (parsed with ast; pydra is never imported or executed)."
        )
        write_evidence(prop_id, tier, seed, col, wall, explanation, len(violations), known_printed, stats, extra)
    if not quiet:
        held = sum(1 for o in col.obligations if o.ok)
        print(
            f"{prop_id}: {len(col.obligations)} rule instances evaluated, {held} held, "
            f"{len(known_printed)} known finding(s), {len(violations)} violation(s); "
            f"{stats['files']} files / {stats['functions']} functions parsed; {wall:.2f}s"
        )
        if selfval:
            print(
                f"{prop_id}: self-validation: {selfval['killed']}/{selfval['breaking_variants']} breaking variants detected, "
                f"{selfval['benign_silent']}/{selfval['benign_variants']} benign twins silent"
            )
    if selfval and not quiet:
        print(f"{prop_id}: self-validation: {selfval.get('rename_twins', 0)} rename twins, {selfval.get('rename_twin_alarms', 0)} alarms")
    if selfval and (selfval["killed"] < selfval["breaking_variants"] or selfval["benign_silent"] < selfval["benign_variants"] or selfval.get("rename_twin_alarms", 0)):
        # the checker itself is not behaving as specified on the current tree: analysis broken
        print(f"ANALYSIS-ERROR property={prop_id} self-validation failed: {selfval.get('failures')} {selfval.get('alarms')}")
        return 2
    return 1 if violations else 0


def main(argv=None) -> int:
    ap = argparse.ArgumentParser()
    ap.add_argument("prop")
    ap.add_argument("--tier", default=os.environ.get("VERIF_TIER", "quick"), choices=["quick", "thorough"])
    ap.add_argument("--repo", default=os.environ.get("PYDRA_SA_REPO", "/repo"))
    ap.add_argument("--replay", default=None)
    ap.add_argument("--quiet", action="store_true")
    ap.add_argument("--no-write", action="store_true")
    a = ap.parse_args(argv)
    try:
        seed = int(os.environ.get("VERIF_SEED", "0"))
    except ValueError:
        seed = 0
    return run_property(a.prop, a.tier, a.repo, seed, a.replay, a.quiet, write=not a.no_write)


if __name__ == "__main__":
    sys.exit(main())
