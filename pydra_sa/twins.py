"""Benign-twin generator (thorough tier): rename one local variable of one function of
the check's scope in a scratch copy and require the check to stay silent."""

from __future__ import annotations

import ast
import os
import shutil
import subprocess
import sys
import tempfile
from concurrent.futures import ThreadPoolExecutor
from pathlib import Path

from .model import Repo, walk_own

VERIF = Path(__file__).resolve().parent.parent


def locals_of(fi) -> list[str]:
    node = fi.node
    params = {a.arg for a in node.args.posonlyargs + node.args.args + node.args.kwonlyargs}
    if node.args.vararg:
        params.add(node.args.vararg.arg)
    if node.args.kwarg:
        params.add(node.args.kwarg.arg)
    bound, banned = set(), set(params)
    for n in walk_own(node):
        if isinstance(n, ast.Name) and isinstance(n.ctx, ast.Store):
            bound.add(n.id)
        elif isinstance(n, (ast.Global, ast.Nonlocal)):
            banned |= set(n.names)
        elif isinstance(n, (ast.Import, ast.ImportFrom)):
            for a in n.names:
                banned.add((a.asname or a.name).split(".")[0])
        elif isinstance(n, ast.ExceptHandler) and n.name:
            banned.add(n.name)
    for sub in ast.walk(node):
        if sub is not node and isinstance(sub, (ast.FunctionDef, ast.AsyncFunctionDef, ast.Lambda, ast.ClassDef)):
            for k in ast.walk(sub):
                if isinstance(k, ast.Name):
                    banned.add(k.id)
    return sorted(bound - banned - {"_"})


def renamed_source(fi, name: str) -> str | None:
    lines = fi.module.source.splitlines(keepends=True)
    new = name + "_rn"
    spots = [(n.lineno, n.col_offset) for n in walk_own(fi.node) if isinstance(n, ast.Name) and n.id == name]
    for ln, col in sorted(spots, reverse=True):
        b = lines[ln - 1].encode()
        if b[col : col + len(name.encode())] != name.encode():
            return None
        lines[ln - 1] = (b[:col] + new.encode() + b[col + len(name.encode()) :]).decode()
    out = "".join(lines)
    try:
        compile(out, fi.module.relpath, "exec")
    except SyntaxError:
        return None
    return out


def run_twins(prop: str, repo_root: str, scope: list[str], limit: int | None = None, seed: int = 0) -> dict:
    repo = Repo(repo_root)
    jobs = []
    for q in scope:
        fi = repo.functions.get(q)
        if fi is None:
            continue
        for name in locals_of(fi):
            jobs.append((q, name))
    if limit is not None and len(jobs) > limit:
        import random

        random.Random(seed).shuffle(jobs)
        jobs = jobs[:limit]
    base = tempfile.mkdtemp(prefix="pydra_sa_twbase_")
    alarms = []
    try:
        shutil.copytree(Path(repo_root) / "pydra", Path(base) / "pydra", ignore=shutil.ignore_patterns("tests", "__pycache__", "*.pyc"))

        def run(job):
            q, name = job
            fi = repo.functions[q]
            src = renamed_source(fi, name)
            if src is None:
                return (job, "skip", "")
            d = tempfile.mkdtemp(prefix="pydra_sa_tw_")
            try:
                shutil.copytree(Path(base) / "pydra", Path(d) / "pydra", copy_function=os.link)
                tgt = Path(d) / fi.module.relpath
                tgt.unlink()
                tgt.write_text(src)
                env = dict(os.environ, PYDRA_SA_NO_SELFVAL="1", PYDRA_SA_OUT=str(Path(d) / "_out"))
                r = subprocess.run([sys.executable, "-m", "pydra_sa.check", prop, "--repo", d, "--no-write", "--quiet", "--tier", "quick"], cwd=str(VERIF), capture_output=True, text=True, env=env)
                return (job, r.returncode, r.stdout.strip()[-300:])
            finally:
                shutil.rmtree(d, ignore_errors=True)

        with ThreadPoolExecutor(max_workers=16) as ex:
            for job, rc, out in ex.map(run, jobs):
                if rc not in (0, "skip"):
                    alarms.append({"function": job[0], "local": job[1], "exit": rc, "report": out})
    finally:
        shutil.rmtree(base, ignore_errors=True)
    return {"rename_twins": len(jobs), "rename_twin_alarms": len(alarms), "alarms": alarms[:10]}
