"""Rules over the *run functions* (the functions that call ``<task>._run`` /
``_run_async``: today ``Job.run`` and ``Job.run_async``) -- the lock / hit-check /
populate / execute / record / save protocol.

Shared discovery (:class:`RunFn`) and the rules of C35 (pairing over the exception
CFG), C12/C13 (typestate of the published result), C06(d) (hit condition), C10(a-c)
(lock protocol), C11(a) (must pass the hit check), C19 (hash-change check, checksum
memo, staged inputs), C17 (sibling agreement), C36 (provenance pairing), C31
(rules checked before execution).
"""

from __future__ import annotations

import ast
import typing as ty

from ..engine import Analysis
from ..model import AnalysisError, FuncInfo, ClassInfo, dotted, norm, walk_own, parents, kwarg, is_within, const_str
from ..cfg import CFG, Node, explore, format_path, token_kind, ANY_E, ANY_B
from ..report import Collector
from . import prop

TASK_RUN_ATTRS = ("_run", "_run_async")
RESULT_CLS = "pydra.engine.result.Result"
SAVE_FN = "pydra.engine.result.save"
RECORD_ERROR_FN = "pydra.engine.result.record_error"


# --------------------------------------------------------------------------- #
# discovery
# --------------------------------------------------------------------------- #


class RunFn:
    def __init__(self, A: Analysis, fn: FuncInfo):
        self.A = A
        self.fn = fn
        self.cfg = A.cfg(fn)
        calls = A.calls(fn)
        self.task_calls = [c for c in calls if isinstance(c.func, ast.Attribute) and c.func.attr in TASK_RUN_ATTRS and self._is_task_recv(c.func.value)]
        if len(self.task_calls) != 1:
            raise AnalysisError(f"{fn.qualname}: expected exactly one task-body call, found {len(self.task_calls)}")
        self.task_call = self.task_calls[0]
        # the lock `with`
        self.lock_with = None
        for p in parents(self.task_call):
            if isinstance(p, (ast.With, ast.AsyncWith)):
                for it in p.items:
                    if isinstance(it.context_expr, ast.Call) and self._is_lock_ctor(it.context_expr):
                        self.lock_with = p
            if p is fn.node:
                break
        # innermost try around the task call
        self.try_stmt = None
        child = self.task_call
        for p in parents(self.task_call):
            if isinstance(p, ast.Try) and any(is_within(self.task_call, s) for s in p.body):
                self.try_stmt = p
                break
            if p is fn.node:
                break
        # local bound to Result(...)
        self.result_vars = set()
        self.result_ctor_stmts = []
        for n in walk_own(fn.node):
            if isinstance(n, ast.Assign) and isinstance(n.value, ast.Call):
                names = A.callee_names(n.value, fn)
                if RESULT_CLS in names:
                    for t in n.targets:
                        if isinstance(t, ast.Name):
                            self.result_vars.add(t.id)
                            self.result_ctor_stmts.append(n)
        self.save_calls = [c for c in calls if SAVE_FN in A.callee_names(c, fn) and kwarg(c, "result") is not None]
        self.record_calls = [c for c in calls if RECORD_ERROR_FN in A.callee_names(c, fn)]
        self.result_calls = [c for c in calls if any(q.endswith("Job.result") for q in A.callee_names(c, fn))]
        self.populate_calls = [c for c in calls if any(q.endswith("._populate_filesystem") for q in A.callee_names(c, fn))]

    def _is_task_recv(self, e: ast.AST) -> bool:
        t = self.A.rs.type_of(e, self.fn)
        task = self.A.repo.classes.get("pydra.compose.base.task.Task")
        if task is not None and any(c.is_subclass_of(task) for c in t.inst):
            return True
        d = dotted(e) or ""
        return d.endswith(".task") or d == "task"

    def _is_lock_ctor(self, call: ast.Call) -> bool:
        names = self.A.callee_names(call, self.fn)
        return any(n in ("filelock.SoftFileLock", "filelock.FileLock") or n.endswith(".PydraFileLock") for n in names)

    # -- CFG node helpers
    def nodes_evaluating(self, ast_node: ast.AST) -> list[Node]:
        return self.cfg.nodes_containing(ast_node)

    def region_of(self, node: Node) -> str:
        """where a CFG node sits relative to the try around the task call."""
        s = node.stmt
        if s is None or self.try_stmt is None:
            return "n/a"
        t = self.try_stmt
        if any(is_within(s, b) for b in t.finalbody):
            return "in-finally"
        if any(is_within(s, h) for h in t.handlers):
            return "in-handler"
        if any(is_within(s, b) for b in t.body):
            return "in-try-body"
        if any(is_within(s, b) for b in t.orelse):
            return "in-try-else"
        if self.lock_with is not None and is_within(s, self.lock_with):
            if getattr(s, "lineno", 0) < t.lineno:
                return "before-try"
            return "after-try"
        return "outside-lock"


def run_functions(A: Analysis) -> list[RunFn]:
    out = []
    for fn in A.repo.all_functions():
        found = False
        for c in A.calls(fn):
            if isinstance(c.func, ast.Attribute) and c.func.attr in TASK_RUN_ATTRS:
                d = dotted(c.func.value) or ""
                if d.endswith(".task") or d == "task":
                    found = True
        if found:
            out.append(RunFn(A, fn))
    if len(out) < 2:
        raise AnalysisError(f"run functions (callers of <task>._run/_run_async): found {len(out)}, floor is 2")
    for r in out:
        if r.lock_with is None:
            # a run function without a lock is a C10 violation, reported there; other
            # rules need the anchor
            pass
    return out


# --------------------------------------------------------------------------- #
# memoised-property refinement
# --------------------------------------------------------------------------- #

MEMO_CHAIN = ("checksum", "cache_dir", "lockfile", "cache_root", "uid")


def memo_property_ok(A: Analysis, col: Collector | None, rule: str) -> bool:
    """`Job.checksum` must have the memo shape: return self._checksum when it is not
    None; otherwise assign self._checksum once and return it."""
    job = A.cls("pydra.engine.job.Job")
    m = job.find_method("checksum")
    if m is None or not m.is_property_getter:
        raise AnalysisError("Job.checksum property not found")
    memo_attr = None
    ok_guard = ok_assign = False
    for n in walk_own(m.node):
        if isinstance(n, ast.If) and isinstance(n.test, ast.Compare) and len(n.test.ops) == 1 and isinstance(n.test.ops[0], ast.IsNot):
            l, r = n.test.left, n.test.comparators[0]
            if isinstance(l, ast.Attribute) and dotted(l.value) == "self" and isinstance(r, ast.Constant) and r.value is None:
                if n.body and isinstance(n.body[0], ast.Return) and norm(n.body[0].value) == norm(l):
                    memo_attr = l.attr
                    ok_guard = True
    for n in walk_own(m.node):
        if isinstance(n, ast.Assign) and memo_attr is not None:
            for t in n.targets:
                if isinstance(t, ast.Attribute) and dotted(t.value) == "self" and t.attr == memo_attr:
                    ok_assign = True
    good = ok_guard and ok_assign
    if col is not None:
        if good:
            col.ok(rule, "Job.checksum memoises its value (guarded return + single assignment)", A.loc(m.node))
        else:
            col.fail(rule, m.qualname, "checksum-not-memoised", "Job.checksum no longer memoises the task checksum: the identity under which a result is stored can change during execution", A.loc(m.node))
    return good


def memo_skip(A: Analysis, R: RunFn):
    """skip predicate for RaiseModel: reads of self.<memoised chain> are total at CFG
    nodes dominated by the lock acquisition (whose context expression already evaluated
    self.lockfile -> cache_dir -> checksum successfully)."""
    if R.lock_with is None or not memo_property_ok(A, None, ""):
        return None
    enter = [n for n in R.cfg.nodes if n.kind == "with_enter" and n.stmt is R.lock_with]
    if not enter:
        return None
    # the lock expression must itself read the chain
    reads_chain = any(isinstance(a, ast.Attribute) and a.attr in ("lockfile", "cache_dir", "checksum") and dotted(a.value) == "self" for it in R.lock_with.items for a in ast.walk(it.context_expr))
    if not reads_chain:
        return None
    dom = R.cfg.dominators()
    eid = enter[0].id

    def skip(cfg_node: Node, a: ast.AST) -> bool:
        if isinstance(a, ast.Attribute) and a.attr in MEMO_CHAIN and dotted(a.value) == "self":
            return cfg_node.id != eid and eid in dom.get(cfg_node.id, ())
        return False

    return skip


def tokens_for(A: Analysis, R: RunFn):
    return A.rm.tokens_fn(R.fn, skip=memo_skip(A, R))


def raiser_sig(A: Analysis, R: RunFn, node: Node | None, tokens_of) -> str:
    """stable description of what raises in a CFG node: the set of callee names."""
    if node is None:
        return "?"
    names = set()
    sk = memo_skip(A, R)
    for e in node.exprs:
        for c in [e] + list(walk_own(e)):
            if isinstance(c, ast.Call):
                if A.rm.call_tokens(c, R.fn):
                    cn = A.callee_names(c, R.fn)
                    if not cn:
                        cn = {norm(c.func, 40)}
                    names |= {n.replace("attr:", ".") for n in cn}
            elif isinstance(c, ast.Attribute) and not (sk and sk(node, c)):
                if A.rm.property_tokens(c, R.fn):
                    names.add("prop:" + c.attr)
            elif isinstance(c, ast.Await):
                names.add("await")
    if node.kind == "with_enter":
        names.add("with-enter")
    if node.kind == "raise":
        names.add("raise")
    if node.kind == "assert":
        names.add("assert")
    short = sorted(n.rsplit(".", 2)[-2] + "." + n.rsplit(".", 1)[-1] if n.count(".") >= 2 else n for n in names)
    return "+".join(short) or norm(node.stmt, 40)


# --------------------------------------------------------------------------- #
# generic pairing rule
# --------------------------------------------------------------------------- #


def check_pairing(A: Analysis, col: Collector, R: RunFn, rule: str, pair: str, opens: list[Node], is_close: ty.Callable[[Node], bool], start_edges: str = "normal", what: str = ""):
    toks = tokens_for(A, R)
    closes = [n for n in R.cfg.nodes if is_close(n)]
    if not opens:
        return 0
    if not closes:
        col.fail(rule, R.fn.qualname, f"{pair}:no-close", f"{pair}: opened but no closing operation exists in the function ({what})", A.loc(R.fn.node))
        return len(opens)
    grouped: dict[str, dict] = {}
    n_paths = 0
    for o in opens:
        esc = explore(R.cfg, [(o, None)], toks, stop=is_close, start_edges=start_edges)
        n_paths += len(esc)
        for e in esc:
            if e.exit_kind == "return":
                sig = f"{pair}:normal-exit"
                msg = f"{pair}: a normally returning path leaves the function without the closing operation"
                rz = None
            else:
                rz = e.raiser
                region = R.region_of(rz) if rz is not None else "?"
                sig = f"{pair}:{region}:{raiser_sig(A, R, rz, toks)}"
                msg = f"{pair}: an exception raised by `{rz.text(60) if rz else '?'}` ({region}) leaves the function without the closing operation"
            g = grouped.setdefault(sig, {"msg": msg, "kinds": set(), "path": e.path, "loc": A.loc(rz.stmt) if rz is not None and rz.stmt is not None else A.loc(o.stmt)})
            if e.token:
                g["kinds"].add(token_kind(e.token))
    col.paths_explored += n_paths
    if not grouped:
        for o in opens:
            col.ok(rule, f"{R.fn.qualname}: {pair} opened at `{o.text(50)}` is closed on every path to every exit (normal, Exception, BaseException)", A.loc(o.stmt))
    for sig, g in sorted(grouped.items()):
        kinds = "/".join(sorted(g["kinds"])) or "-"
        col.fail(rule, R.fn.qualname, sig, g["msg"] + f" [exception kinds: {kinds}]", g["loc"], witness=format_path(g["path"]))
    return len(opens)


def _call_nodes(A: Analysis, R: RunFn, pred) -> list[Node]:
    out = []
    for n in R.cfg.nodes:
        if n.kind in ("with_exit", "fin_end", "dispatch", "handler", "entry", "exit"):
            continue
        hit = False
        for e in n.exprs:
            for c in [e] + list(walk_own(e)):
                if isinstance(c, ast.Call) and pred(c):
                    hit = True
        if hit:
            out.append(n)
    return out


def _changes_cwd(A: Analysis, fn: FuncInfo, depth: int = 2, _seen=None) -> bool:
    """summary: the function (transitively, bounded) calls os.chdir."""
    _seen = _seen or set()
    if fn.qualname in _seen or depth < 0:
        return False
    _seen.add(fn.qualname)
    for c in A.calls(fn):
        names = A.callee_names(c, fn)
        if "os.chdir" in names:
            return True
        for t in A.resolve(c, fn).repo_targets:
            if isinstance(t, FuncInfo) and _changes_cwd(A, t, depth - 1, _seen):
                return True
    return False


def _saved_cwd_vars(A: Analysis, fn: FuncInfo) -> set[str]:
    out = set()
    for n in walk_own(fn.node):
        if isinstance(n, ast.Assign) and isinstance(n.value, ast.Call) and "os.getcwd" in A.callee_names(n.value, fn):
            for t in n.targets:
                if isinstance(t, ast.Name):
                    out.add(t.id)
    return out


def _creates_info_file(A: Analysis, fn: FuncInfo) -> bool:
    for c in A.calls(fn):
        if (dotted(c.func) == "open" or (isinstance(c.func, ast.Attribute) and c.func.attr == "open")) and c.args:
            mode = c.args[1] if len(c.args) > 1 else kwarg(c, "mode")
            target = c.args[0] if dotted(c.func) == "open" else c.func.value
            if any(isinstance(k, ast.Constant) and isinstance(k.value, str) and "_info.json" in k.value for k in ast.walk(target)):
                if mode is not None and isinstance(mode, ast.Constant) and "w" in str(mode.value):
                    return True
    return False


# --------------------------------------------------------------------------- #
# C35
# --------------------------------------------------------------------------- #


@prop(
    "C35",
    technique="pairing rules over per-function CFGs with explicit exception edges (Exception / BaseException tokens), finally-inlining and raise summaries",
    decides="in every function that runs a task body (Job.run, Job.run_async): once the process cwd was changed it is restored, once the transient <uid>_info.json exists it is unlinked, once pre_run_task ran post_run_task runs exactly once, and once the task body was entered save(result=) is reached -- on every path to every exit of the function, exceptional exits included; the cache-hit return passes neither hook.",
    not_decided="that the directory restored is the original one when os.getcwd() itself fails; effects of hooks on the file system; behaviour of the worker processes around the run function.",
    level_note="Trusted: CPython ast; the may-raise model (tables TOTAL_EXTERNAL / TOTAL_METHODS / USER_CALLABLE_ATTRS in pydra_sa/raises.py, each row with a reason); reads of the memoised Job.checksum chain are total after the lock expression evaluated them (checked structurally).",
)
def check_c35(A: Analysis, col: Collector):
    runs = run_functions(A)
    n_pairs = 0
    for R in runs:
        fn = R.fn
        col.scope(fn.qualname)
        saved = _saved_cwd_vars(A, fn)

        # --- cwd
        def is_restore(c: ast.Call) -> bool:
            return "os.chdir" in A.callee_names(c, fn) and c.args and isinstance(c.args[0], ast.Name) and c.args[0].id in saved

        def is_cwd_open(c: ast.Call) -> bool:
            names = A.callee_names(c, fn)
            if "os.chdir" in names:
                return not is_restore(c)
            return any(isinstance(t, FuncInfo) and _changes_cwd(A, t) for t in A.resolve(c, fn).repo_targets)

        opens = _call_nodes(A, R, is_cwd_open)
        # only opens inside the lock region matter (the run protocol)
        n_pairs += check_pairing(A, col, R, "C35.cwd", "cwd", opens, lambda n: any(is_restore(c) for e in n.exprs for c in [e] + list(walk_own(e)) if isinstance(c, ast.Call)), what="os.chdir(<saved os.getcwd()>)")
        if not opens:
            col.ok("C35.cwd", f"{fn.qualname}: no cwd-changing call", A.loc(fn.node))

        # --- info file
        def is_info_open(c: ast.Call) -> bool:
            return any(isinstance(t, FuncInfo) and _creates_info_file(A, t) for t in A.resolve(c, fn).repo_targets) or False

        def is_info_close_node(n: Node) -> bool:
            for e in n.exprs:
                for c in [e] + list(walk_own(e)):
                    if isinstance(c, ast.Call) and isinstance(c.func, ast.Attribute) and c.func.attr == "unlink":
                        if any(isinstance(k, ast.Constant) and isinstance(k.value, str) and "_info.json" in k.value for k in ast.walk(c.func.value)):
                            return True
            return False

        iopens = _call_nodes(A, R, is_info_open)
        if not iopens and _creates_info_file(A, fn):
            iopens = _call_nodes(A, R, lambda c: dotted(c.func) == "open")
        # the creating call may raise after it created the file: start at the call itself
        n_pairs += check_pairing(A, col, R, "C35.info", "info-file", iopens, is_info_close_node, start_edges="all", what="<cache_root>/<uid>_info.json unlink")

        # --- hooks
        def attr_call(name):
            return lambda c: isinstance(c.func, ast.Attribute) and c.func.attr == name and (dotted(c.func.value) or "").endswith("hooks")

        pre = _call_nodes(A, R, attr_call("pre_run_task"))
        post_pred = attr_call("post_run_task")
        is_post = lambda n: any(post_pred(c) for e in n.exprs for c in [e] + list(walk_own(e)) if isinstance(c, ast.Call))
        n_pairs += check_pairing(A, col, R, "C35.hooks", "task-hooks", pre, is_post, what="hooks.post_run_task")
        # exactly once: from a completed post_run_task no second one is reachable
        toks = tokens_for(A, R)
        posts = [n for n in R.cfg.nodes if is_post(n)]
        twice = False
        for p in posts:
            seen_post = []
            explore(R.cfg, [(p, None)], toks, start_edges="normal", visit=lambda n, t: seen_post.append(n) if is_post(n) else None)
            if seen_post:
                twice = True
                col.fail("C35.hooks", fn.qualname, "task-hooks:post-twice", "post_run_task can run twice on one path", A.loc(p.stmt))
        if posts and not twice:
            col.ok("C35.hooks", f"{fn.qualname}: post_run_task runs at most once per path ({len(posts)} inlined copies)", A.loc(posts[0].stmt))
        # never for a cache hit: hit-return nodes are not reachable from pre and do not pass post
        hit_returns = _hit_returns(A, R)
        for hr in hit_returns:
            bad = False
            for n in R.cfg.nodes_containing(hr):
                if not R.cfg.dominated_by(n, lambda m: False):  # reachable
                    pass
                for pnode in pre + posts:
                    # pre/post dominating or reachable-before the hit return?
                    reach = R.cfg.reachable_from([pnode])
                    if n.id in reach:
                        bad = True
                # and from the hit return no hook is reachable
                after = R.cfg.reachable_from([n])
                if any(q.id in after for q in pre + posts):
                    bad = True
            if bad:
                col.fail("C35.hooks", fn.qualname, "task-hooks:on-cache-hit", "a task-level hook runs on the cache-hit path", A.loc(hr))
            else:
                col.ok("C35.hooks", f"{fn.qualname}: cache-hit return passes neither pre_run_task nor post_run_task", A.loc(hr))

        # --- result: task body entered => save(result=) reached
        task_nodes = R.cfg.nodes_containing(R.task_call)
        save_ids = set()
        for sc in R.save_calls:
            for n in R.cfg.nodes_containing(sc):
                save_ids.add(n.id)
        n_pairs += check_pairing(A, col, R, "C35.result", "result-record", task_nodes, lambda n: n.id in save_ids, start_edges="all", what="save(<cache_dir>, result=...)")
    col.notes["pairs_checked"] = n_pairs
    if n_pairs < 8:
        raise AnalysisError(f"C35: only {n_pairs} open sites found over the run functions; floor is 8 (4 pairs x 2 functions)")


def _hit_returns(A: Analysis, R: RunFn) -> list[ast.Return]:
    """`return <x>` statements where x is bound from self.result() (the cache-hit exits)."""
    fn = R.fn
    bound = set()
    for n in walk_own(fn.node):
        if isinstance(n, ast.Assign) and isinstance(n.value, ast.Call) and n.value in R.result_calls:
            for t in n.targets:
                if isinstance(t, ast.Name):
                    bound.add(t.id)
    out = []
    for n in walk_own(fn.node):
        if isinstance(n, ast.Return) and n.value is not None:
            v = n.value
            if isinstance(v, ast.Call) and v in R.result_calls:
                out.append(n)
            elif isinstance(v, ast.Name) and v.id in bound and (R.try_stmt is None or n.lineno < R.try_stmt.lineno):
                # before the execution part
                out.append(n)
    return out


# --------------------------------------------------------------------------- #
# C12 / C13 : typestate of the published result
# --------------------------------------------------------------------------- #


def _const_bool(e: ast.AST | None):
    if isinstance(e, ast.Constant) and isinstance(e.value, bool):
        return e.value
    return None


def result_typestate(A: Analysis, col: Collector, R: RunFn, rule: str):
    """Abstract state of the local bound to Result(...): (errored in {F,T,?},
    outputs in {unset,set}).  At every save(..., result=x) require errored=T or
    outputs=set: otherwise a 'success' without outputs is published and the next
    submission is answered from it (returns None / NOTHING outputs)."""
    fn = R.fn
    toks = tokens_for(A, R)
    if not R.result_ctor_stmts:
        raise AnalysisError(f"{fn.qualname}: no local is bound to Result(...)")
    var = sorted(R.result_vars)[0]
    n_inst = 0
    for ctor in R.result_ctor_stmts:
        call: ast.Call = ctor.value
        e0 = _const_bool(kwarg(call, "errored"))
        if kwarg(call, "errored") is None:
            e0 = False  # attrs default of Result.errored
        o0 = kwarg(call, "outputs")
        out0 = "set" if (o0 is not None and not (isinstance(o0, ast.Constant) and o0.value is None)) else "unset"
        state0 = ("T" if e0 is True else "F" if e0 is False else "?", out0)
        starts = [(n, None) for n in R.cfg.nodes_of(ctor)]

        def transfer(node: Node, st, completed: bool):
            if not completed or node.stmt is None or node.kind != "stmt":
                return st
            s = node.stmt
            if isinstance(s, ast.Assign):
                for t in s.targets:
                    if isinstance(t, ast.Attribute) and isinstance(t.value, ast.Name) and t.value.id == var:
                        if t.attr == "errored":
                            b = _const_bool(s.value)
                            st = ("T" if b is True else "F" if b is False else "?", st[1])
                        elif t.attr == "outputs":
                            isnone = isinstance(s.value, ast.Constant) and s.value.value is None
                            st = (st[0], "unset" if isnone else "set")
                    elif isinstance(t, ast.Name) and t.id == var and s is not ctor:
                        st = ("?", "set")  # rebound to something else: unknown, do not flag
            return st

        save_nodes = {}
        for sc in R.save_calls:
            rv = kwarg(sc, "result")
            if isinstance(rv, ast.Name) and rv.id == var:
                for n in R.cfg.nodes_containing(sc):
                    save_nodes[n.id] = sc

        def check(node: Node, st, tok):
            return node.id in save_nodes and st[0] == "F" and st[1] == "unset"

        esc = explore(R.cfg, starts, toks, start_edges="normal", state0=state0, transfer=transfer, check=check)
        col.paths_explored += len(esc)
        bad = [e for e in esc if e.exit_kind == "check"]
        n_inst += len(save_nodes)
        grouped = {}
        for e in bad:
            # how did we get here: the pending token at the save and who raised it
            rz = e.raiser
            kind = token_kind(e.token) if e.token else "-"
            region = R.region_of(rz) if rz is not None else "?"
            if rz is not None and any(n is rz for n in R.cfg.nodes_containing(R.task_call)):
                who = "task-body"
            else:
                who = raiser_sig(A, R, rz, toks)
            sig = f"publish-unerrored-without-outputs:{kind}:{region}:{who}"
            grouped.setdefault(sig, (e, rz, kind))
        for sig, (e, rz, kind) in sorted(grouped.items()):
            kind_txt = "a KeyboardInterrupt/SystemExit-kind exception (not stopped by `except Exception`)" if kind == "B" else "an exception" if kind == "E" else "a normal path"
            col.fail(
                rule,
                fn.qualname,
                sig,
                f"save(result={var}) is reached with errored=False and outputs unset after {kind_txt} from `{rz.text(50) if rz else '?'}`: a success without outputs is cached",
                A.loc(rz.stmt) if rz is not None and rz.stmt is not None else A.loc(ctor),
                witness=format_path(e.path),
            )
        if not bad:
            col.ok(rule, f"{fn.qualname}: every path to save(result={var}) has errored=True or outputs assigned ({len(save_nodes)} save nodes incl. finally copies, initial state {state0})", A.loc(ctor))
    return n_inst


def save_after_run(A: Analysis, col: Collector, R: RunFn, rule: str):
    """_result.pklz is written only after the task call (no save(result=) node on a
    path from function entry to the task call)."""
    task_nodes = R.cfg.nodes_containing(R.task_call)
    bad = False
    for sc in R.save_calls:
        for sn in R.cfg.nodes_containing(sc):
            reach = R.cfg.reachable_from([sn])
            if any(t.id in reach for t in task_nodes):
                bad = True
                col.fail(rule, R.fn.qualname, "save-before-task-body", "save(result=...) can execute before the task body: a result exists on disk while the task has not run", A.loc(sc))
    if not bad:
        col.ok(rule, f"{R.fn.qualname}: no save(result=) precedes the task-body call ({len(R.save_calls)} save sites)", A.loc(R.task_call))


def populate_clears(A: Analysis, col: Collector, rule: str):
    """_populate_filesystem: mkdir(cache_dir, exist_ok=<maybe False>) is preceded on
    every path by the exists()->rmtree clearing unless can_resume."""
    fn = A.func("pydra.engine.job.Job._populate_filesystem")
    cfg = A.cfg(fn)
    mk = [c for c in A.calls(fn) if isinstance(c.func, ast.Attribute) and c.func.attr == "mkdir"]
    rm = [c for c in A.calls(fn) if "shutil.rmtree" in A.callee_names(c, fn)]
    A.anchor("mkdir in _populate_filesystem", mk)
    for m in mk:
        eo = kwarg(m, "exist_ok")
        if isinstance(eo, ast.Constant) and eo.value is True:
            col.ok(rule, "mkdir(exist_ok=True): a leftover directory cannot make mkdir fail", A.loc(m))
            continue
        # need: a guarded rmtree of the same directory on the path where exist_ok is False
        ok = False
        for r in rm:
            if r.args and norm(r.args[0]) == norm(m.func.value):
                # guard: `if not <X> and <dir>.exists()` where exist_ok == <X>
                for p in parents(r):
                    if isinstance(p, ast.If):
                        t = p.test
                        conds = t.values if isinstance(t, ast.BoolOp) and isinstance(t.op, ast.And) else [t]
                        has_exists = any(isinstance(c, ast.Call) and isinstance(c.func, ast.Attribute) and c.func.attr == "exists" and norm(c.func.value) == norm(m.func.value) for c in conds)
                        others = [c for c in conds if not (isinstance(c, ast.Call) and isinstance(c.func, ast.Attribute) and c.func.attr == "exists")]
                        # every other conjunct must be `not <exist_ok expr>`
                        others_ok = all(isinstance(c, ast.UnaryOp) and isinstance(c.op, ast.Not) and eo is not None and norm(c.operand) == norm(eo) for c in others)
                        if has_exists and others_ok and p.lineno < m.lineno:
                            ok = True
        if ok:
            col.ok(rule, "mkdir(cache_dir, exist_ok=can_resume) is preceded by `if not can_resume and cache_dir.exists(): rmtree(cache_dir)`", A.loc(m))
        else:
            col.fail(rule, fn.qualname, "leftover-dir-wedges-mkdir", "cache_dir.mkdir(exist_ok possibly False) is not preceded by clearing a leftover directory: a crashed run wedges the identity (FileExistsError on every resubmission)", A.loc(m))


def stale_lock_rule(A: Analysis, col: Collector, rule: str):
    fn = A.func("pydra.engine.submitter.Submitter._check_locks")
    unl = [c for c in A.calls(fn) if isinstance(c.func, ast.Attribute) and c.func.attr == "unlink"]
    A.anchor("lockfile.unlink in _check_locks", unl)
    for u in unl:
        guarded = False
        for p in parents(u):
            if isinstance(p, ast.If):
                for c in ast.walk(p.test):
                    if isinstance(c, ast.Compare) and len(c.ops) == 1 and isinstance(c.ops[0], ast.Lt):
                        if "run_start_time" in norm(c.comparators[0]) and "start_time" in norm(c.left):
                            guarded = True
        if guarded:
            col.ok(rule, "stale-lock removal is guarded by `start_time < self.run_start_time` (only locks older than this submission)", A.loc(u))
        else:
            col.fail(rule, fn.qualname, "unguarded-lock-unlink", "a lock file is removed without checking that it predates this submission: a live lock of a concurrent run can be broken", A.loc(u))


def handler_rule(A: Analysis, col: Collector, R: RunFn, rule: str):
    """the handler after the task call marks the result errored, records the error and
    re-raises on every path that completes the handler."""
    fn = R.fn
    t = R.try_stmt
    if t is None:
        col.fail(rule, fn.qualname, "no-try-around-task-body", "the task-body call is not inside a try block: a failure is neither recorded nor marked", A.loc(R.task_call))
        return
    hs = [h for h in t.handlers if h.type is not None and any(n in ("Exception", "BaseException") for n in (dotted(h.type) or "").split("."))] or [h for h in t.handlers if h.type is None]
    if not hs:
        col.fail(rule, fn.qualname, "no-exception-handler", "no `except Exception` handler follows the task-body call", A.loc(t))
        return
    h = hs[0]
    var = sorted(R.result_vars)[0] if R.result_vars else "result"
    cfg = R.cfg
    toks = tokens_for(A, R)
    entries = [n for n in cfg.nodes if n.kind == "handler" and n.stmt is h]

    def in_handler(n: Node) -> bool:
        return n.stmt is not None and is_within(n.stmt, h)

    def transfer(node, st, completed):
        marked, recorded = st
        if completed and node.kind == "stmt" and isinstance(node.stmt, ast.Assign):
            for tg in node.stmt.targets:
                if isinstance(tg, ast.Attribute) and tg.attr == "errored" and isinstance(tg.value, ast.Name) and tg.value.id == var and _const_bool(node.stmt.value) is True:
                    marked = True
        if completed and any(rc in R.record_calls for e in node.exprs for rc in ast.walk(e)):
            recorded = True
        return (marked, recorded)

    problems = {}

    def check(node, st, tok):
        # leaving the handler region
        if in_handler(node) or node.kind in ("handler",):
            return False
        return True

    esc = explore(cfg, [(e, None) for e in entries], toks, state0=(False, False), transfer=transfer, check=check, stop=lambda n: not in_handler(n) and n.kind != "handler")
    for e in esc:
        if e.exit_kind != "check":
            continue
        marked, recorded = e.state
        last = e.path[-2][0] if len(e.path) >= 2 else None
        if e.token is None:
            problems.setdefault("handler-falls-through", (e, "the handler can complete without re-raising: the failure is swallowed and the submission reports success"))
        elif last is not None and last.kind == "raise":
            if not marked:
                problems.setdefault("reraise-without-errored", (e, f"the handler re-raises without setting {var}.errored = True"))
            if not recorded:
                problems.setdefault("reraise-without-record_error", (e, "the handler re-raises without calling record_error"))
    for sig, (e, msg) in sorted(problems.items()):
        col.fail(rule, fn.qualname, sig, msg, A.loc(h), witness=format_path(e.path))
    if not problems:
        col.ok(rule, f"{fn.qualname}: `except {norm(h.type) if h.type else ''}` after the task body sets {var}.errored=True, calls record_error and re-raises on every completing path", A.loc(h))


def hit_condition(A: Analysis, col: Collector, R: RunFn, rule: str) -> list[ast.If]:
    """every cache-hit return is guarded by `<r> is not None and not <r>.errored`, <r>
    bound from self.result(), inside the lock.  Returns the valid hit tests."""
    fn = R.fn
    valid_tests = []
    hrs = _hit_returns(A, R)
    if not hrs:
        col.fail(rule, fn.qualname, "no-cache-hit-return", "no cache-hit return exists: every submission re-executes the task", A.loc(fn.node))
        return []
    for hr in hrs:
        name = hr.value.id if isinstance(hr.value, ast.Name) else None
        conds = []
        in_lock = R.lock_with is not None and is_within(hr, R.lock_with)
        child = hr
        for p in parents(hr):
            if p is fn.node:
                break
            if isinstance(p, ast.If) and any(child is s or is_within(child, s) for s in p.body):
                t = p.test
                conds.extend(t.values if isinstance(t, ast.BoolOp) and isinstance(t.op, ast.And) else [t])
                valid_tests.append(p)
            child = p
        not_none = errored_ok = False
        for c in conds:
            if name and isinstance(c, ast.Compare) and len(c.ops) == 1 and isinstance(c.ops[0], ast.IsNot) and norm(c.left) == name and isinstance(c.comparators[0], ast.Constant) and c.comparators[0].value is None:
                not_none = True
            if name and isinstance(c, ast.Name) and c.id == name:
                not_none = True
            if name and isinstance(c, ast.UnaryOp) and isinstance(c.op, ast.Not) and norm(c.operand) == f"{name}.errored":
                errored_ok = True
        sigs = []
        if not not_none:
            sigs.append(("hit-without-none-check", "the cached result is returned without checking that one was found"))
        if not errored_ok:
            sigs.append(("hit-without-errored-check", "a cached result is returned without checking `not result.errored`: a recorded failure is served as the answer"))
        if not in_lock:
            sigs.append(("hit-check-outside-lock", "the cache-hit check is outside the lock (check-then-act race with a concurrent writer)"))
        for s, m in sigs:
            col.fail(rule, fn.qualname, s, m, A.loc(hr))
        if not sigs:
            col.ok(rule, f"{fn.qualname}: cache-hit `return {name}` is guarded by `{name} is not None and not {name}.errored`, inside the lock", A.loc(hr))
    return valid_tests


def _truthy_label(test: ast.AST, name: str) -> str | None:
    """label ('T'/'F') of the branch edge on which variable `name` is truthy, if the
    test decides it."""
    t = test
    if isinstance(t, ast.Name) and t.id == name:
        return "T"
    if isinstance(t, ast.UnaryOp) and isinstance(t.op, ast.Not):
        inner = _truthy_label(t.operand, name)
        if inner:
            return "F" if inner == "T" else "T"
    if isinstance(t, ast.Compare) and len(t.ops) == 1 and isinstance(t.left, ast.Name) and t.left.id == name and isinstance(t.comparators[0], ast.Constant):
        v = t.comparators[0].value
        op = t.ops[0]
        if isinstance(op, (ast.Is, ast.Eq)):
            return "T" if v is True else "F" if v is False else None
        if isinstance(op, (ast.IsNot, ast.NotEq)):
            return "F" if v is True else "T" if v is False else None
    return None


def must_check_cache(A: Analysis, col: Collector, R: RunFn, rule: str):
    """every path from entry to the task-body call either takes the `rerun` branch or
    passes the miss edge of a valid hit test."""
    fn = R.fn
    cfg = R.cfg
    params = [a.arg for a in fn.params()]
    rerun = "rerun" if "rerun" in params else None
    hit_tests = set(id(t) for t in hit_condition(A, Collector(col.prop, col.tier), R, rule))
    task_nodes = cfg.nodes_containing(R.task_call)

    def allowed_edge(src: Node, label: str) -> bool:
        if src.kind != "test" or not isinstance(src.stmt, ast.If):
            return False
        if rerun and _truthy_label(src.stmt.test, rerun) == label:
            return True  # rerun requested
        if id(src.stmt) in hit_tests and label == "F":
            return True  # cache miss
        return False

    bad = False
    for tn in task_nodes:
        seen = set()
        st = [tn]
        reached_entry = False
        while st:
            n = st.pop()
            if n.id in seen:
                continue
            seen.add(n.id)
            if n is cfg.entry:
                reached_entry = True
                break
            for l, p in n.pred:
                if allowed_edge(p, l):
                    continue
                st.append(p)
        if reached_entry:
            bad = True
    if bad:
        col.fail(rule, fn.qualname, "task-body-reachable-without-cache-check", "the task body can be reached without `rerun` being set and without a cache miss: a successful job may be executed again", A.loc(R.task_call))
    else:
        col.ok(rule, f"{fn.qualname}: every path to the task body passes `rerun` or the miss edge of the hit test", A.loc(R.task_call))


# --------------------------------------------------------------------------- #
# tolerant reader (C10d / C12d)
# --------------------------------------------------------------------------- #


def tolerant_reader(A: Analysis, col: Collector, rule: str):
    """every unpickling of _result.pklz in load_result sits in a handler for
    UnpicklingError/EOFError inside a bounded loop whose exhaustion returns None."""
    fn = A.func("pydra.engine.result.load_result")
    col.scope(fn.qualname)
    loads = [c for c in A.calls(fn) if any(n in ("cloudpickle.load", "pickle.load", "cloudpickle.loads", "pickle.loads") for n in A.callee_names(c, fn))]
    A.anchor("cp.load in load_result", loads)
    for c in loads:
        handled = set()
        bounded = False
        child = c
        for p in parents(c):
            if p is fn.node:
                break
            if isinstance(p, ast.Try) and any(is_within(c, s) for s in p.body):
                for h in p.handlers:
                    from ..cfg import handler_names

                    names = handler_names(h)
                    if names is None:
                        handled |= {"UnpicklingError", "EOFError"}
                    else:
                        handled |= set(names)
                        if "Exception" in names or "BaseException" in names:
                            handled |= {"UnpicklingError", "EOFError"}
            if isinstance(p, ast.For) and isinstance(p.iter, ast.Call) and dotted(p.iter.func) == "range":
                bounded = True
            if isinstance(p, ast.While):
                bounded = bounded or False
        missing = {"UnpicklingError", "EOFError"} - handled
        if missing:
            col.fail(rule, fn.qualname, "reader-unhandled:" + "+".join(sorted(missing)), f"unpickling a result that is still being written is not protected against {sorted(missing)}: a concurrent reader crashes or sees a partial result", A.loc(c))
        elif not bounded:
            col.fail(rule, fn.qualname, "reader-unbounded-retry", "the retry around unpickling is not a bounded loop", A.loc(c))
        else:
            col.ok(rule, "load_result: cp.load is inside `except (UnpicklingError, EOFError)` inside a bounded `for _ in range(retries)`", A.loc(c))
    # what is returned: only the unpickled object or None
    cfg = A.cfg(fn)
    for n in walk_own(fn.node):
        if isinstance(n, ast.Return) and n.value is not None:
            v = n.value
            okv = (isinstance(v, ast.Constant) and v.value is None) or (isinstance(v, ast.Call) and v in loads)
            if not okv and isinstance(v, ast.Name):
                # a local bound only from the load
                defs = A.rs.local_defs(fn).get(v.id, [])
                okv = bool(defs) and all(k == "assign" and (p in loads or (isinstance(p, ast.Constant) and p.value is None)) for k, p in defs)
            if okv:
                col.ok(rule, f"load_result returns only a completely unpickled object or None (`{norm(n, 40)}`)", A.loc(n))
            else:
                col.fail(rule, fn.qualname, "reader-returns-other:" + type(v).__name__, f"load_result returns `{norm(v, 40)}`, which is neither None nor the completely unpickled result", A.loc(n))


# --------------------------------------------------------------------------- #
# C12
# --------------------------------------------------------------------------- #


@prop(
    "C12",
    technique="typestate analysis of the published Result over the exception CFG (Exception and BaseException tokens) + ordering/dominance obligations on persistent-state writes",
    decides="the persistent-state obligations crash recovery depends on: (a) save(result=) is reached only with errored=True or outputs assigned, on every path including KeyboardInterrupt/SystemExit exits; (b) no save(result=) precedes the task body; (c) a leftover job directory is cleared before mkdir(exist_ok=False); (d) readers of _result.pklz tolerate a partial file (handler + bounded retry, return None); (e) stale-lock removal is guarded by the submission start time.",
    not_decided="kernel write ordering, truncation lengths, SIGKILL between open('wb') and dump (covered only through (d)); liveness of dead-owner locks is delegated to filelock's PID check.",
    level_note="Trusted: may-raise tables in pydra_sa/raises.py; filelock >= 3.2x breaks soft locks of dead same-host PIDs (assumption, not checked).",
)
def check_c12(A: Analysis, col: Collector):
    runs = run_functions(A)
    n = 0
    for R in runs:
        col.scope(R.fn.qualname)
        n += result_typestate(A, col, R, "C12.typestate")
        save_after_run(A, col, R, "C12.order")
    populate_clears(A, col, "C12.populate")
    tolerant_reader(A, col, "C12.reader")
    stale_lock_rule(A, col, "C12.stale-lock")
    col.assume("filelock.SoftFileLock breaks stale locks whose owner PID is dead on the same host (filelock >= 3.2x)")
    if n < 2:
        raise AnalysisError(f"C12: {n} save(result=) sites analysed, floor 2")


# --------------------------------------------------------------------------- #
# C13
# --------------------------------------------------------------------------- #


def errored_is_reported(A: Analysis, col: Collector, rule: str):
    """Task.__call__ raises when result.errored; Job.done never returns True for an
    errored result."""
    fn = A.func("pydra.compose.base.task.Task.__call__")
    col.scope(fn.qualname)
    cfg = A.cfg(fn)
    tests = [n for n in cfg.nodes if n.kind == "test" and isinstance(n.stmt, ast.If) and norm(n.stmt.test).endswith(".errored") and not isinstance(n.stmt.test, ast.UnaryOp)]
    A.anchor("`if result.errored` in Task.__call__", tests)
    toks = A.rm.tokens_fn(fn)
    for t in tests:
        tsucc = [m for l, m in t.succ if l == "T"]
        esc = explore(cfg, [(m, None) for m in tsucc], toks)
        normal = [e for e in esc if e.exit_kind == "return"]
        if normal:
            col.fail(rule, fn.qualname, "errored-result-returned", "Task.__call__ can return normally although result.errored is set", A.loc(t.stmt), witness=format_path(normal[0].path))
        else:
            col.ok(rule, "Task.__call__: every path through `if result.errored:` ends in a raise", A.loc(t.stmt))
    # the normal return is dominated by the F edge of such a test
    rets = [n for n in cfg.nodes if n.kind == "return" and n.stmt.value is not None and norm(n.stmt.value).endswith(".outputs")]
    A.anchor("return result.outputs in Task.__call__", rets)
    for r in rets:
        if cfg.dominated_by_edge(r, lambda n: n in tests, "F"):
            col.ok(rule, "Task.__call__: `return result.outputs` is dominated by the not-errored branch", A.loc(r.stmt))
        else:
            col.fail(rule, fn.qualname, "outputs-returned-without-errored-test", "`return result.outputs` is reachable without passing the `result.errored` test", A.loc(r.stmt))
    # Job.done
    fd = A.func("pydra.engine.job.Job.done")
    col.scope(fd.qualname)
    cfgd = A.cfg(fd)
    true_rets = [n for n in cfgd.nodes if n.kind == "return" and isinstance(n.stmt.value, ast.Constant) and n.stmt.value.value is True]
    A.anchor("return True in Job.done", true_rets)
    err_tests = [n for n in cfgd.nodes if n.kind == "test" and isinstance(n.stmt, ast.If) and norm(n.stmt.test).endswith(".errored")]
    for r in true_rets:
        if err_tests and cfgd.dominated_by_edge(r, lambda n: n in err_tests, "F"):
            col.ok(rule, "Job.done: `return True` only on the not-errored branch", A.loc(r.stmt))
        else:
            col.fail(rule, fd.qualname, "done-true-for-errored", "Job.done can return True for an errored result: a failure counts as done", A.loc(r.stmt))


def python_outputs_cover(A: Analysis, col: Collector, rule: str):
    """mandatory outputs of a python task: every non-raising path of PythonTask._run
    binds all return_names, or PythonOutputs._from_job rejects NOTHING."""
    fn = A.func("pydra.compose.python.PythonTask._run")
    col.scope(fn.qualname)
    # the variable holding the declared output names
    names_var = None
    for n in walk_own(fn.node):
        if isinstance(n, ast.Assign) and isinstance(n.value, (ast.ListComp, ast.GeneratorExp)) and "Outputs" in norm(n.value):
            if isinstance(n.targets[0], ast.Name):
                names_var = n.targets[0].id
    if names_var is None:
        raise AnalysisError("PythonTask._run: the list of declared output names was not found")
    writes = []
    for n in walk_own(fn.node):
        tgt = None
        if isinstance(n, ast.Assign):
            for t in n.targets:
                if isinstance(t, ast.Attribute) and t.attr == "return_values":
                    writes.append(("assign", n, n.value))
                elif isinstance(t, ast.Subscript) and isinstance(t.value, ast.Attribute) and t.value.attr == "return_values":
                    writes.append(("item", n, t.slice))
        elif isinstance(n, ast.Call) and isinstance(n.func, ast.Attribute) and n.func.attr == "update" and isinstance(n.func.value, ast.Attribute) and n.func.value.attr == "return_values":
            writes.append(("update", n, n.args[0] if n.args else None))
    A.anchor("writes to job.return_values in PythonTask._run", writes, 3)

    def guards(node):
        out = []
        child = node
        for p in parents(node):
            if p is fn.node:
                break
            if isinstance(p, ast.If) and any(is_within(node, s) for s in p.body):
                out.append(norm(p.test))
            child = p
        return " && ".join(out)

    partial = []
    for kind, node, payload in writes:
        g = guards(node)
        total = False
        why = ""
        if kind in ("assign", "update") and isinstance(payload, ast.DictComp):
            gen = payload.generators[0]
            if norm(gen.iter) == names_var and not gen.ifs and norm(payload.key) == norm(gen.target):
                total = True
            elif norm(gen.iter) == names_var and gen.ifs:
                why = f"comprehension over {names_var} filtered by `{norm(gen.ifs[0])}`"
        elif kind == "update" and isinstance(payload, ast.Call) and dotted(payload.func) == "zip" and payload.args and norm(payload.args[0]) == names_var:
            # total under the length guard
            other = norm(payload.args[1]) if len(payload.args) > 1 else "?"
            if f"len({names_var}) == len({other})" in g or f"len({other}) == len({names_var})" in g:
                total = True
            else:
                why = "zip without the equal-length guard"
        elif kind == "item" and norm(payload) == f"{names_var}[0]":
            if f"len({names_var}) == 1" in g:
                total = True
            else:
                why = "single item without the len == 1 guard"
        else:
            why = "unrecognised binding form"
        if total:
            col.ok(rule, f"PythonTask._run: `{norm(node, 60)}` binds every declared output", A.loc(node))
        else:
            partial.append((node, why))
    # does _from_job validate?
    fj = A.func("pydra.compose.python.PythonOutputs._from_job")
    validates = False
    for n in walk_own(fj.node):
        if isinstance(n, ast.Raise):
            for p in parents(n):
                if isinstance(p, ast.If) and ("NOTHING" in norm(p.test) or "mandatory" in norm(p.test) or "missing" in norm(p.test).lower()):
                    validates = True
                if p is fj.node:
                    break
    for node, why in partial:
        if validates:
            col.ok(rule, f"PythonTask._run: partial binding `{norm(node, 50)}` is validated by PythonOutputs._from_job", A.loc(node))
        else:
            col.fail(rule, fn.qualname, "partial-output-binding:" + ("dict-filter" if "filtered" in why else why.replace(" ", "-")), f"`{norm(node, 70)}` may bind only some declared outputs ({why}) and PythonOutputs._from_job does not reject attrs.NOTHING: a task missing a mandatory output is reported as success", A.loc(node))


def load_and_run_results(A: Analysis, col: Collector, rule: str):
    """error branches of load_and_run construct Result with its real signature."""
    from ..sigcheck import class_signature, check_call

    fn = A.func("pydra.engine.job.load_and_run")
    col.scope(fn.qualname)
    res = A.cls(RESULT_CLS)
    sig = class_signature(res)
    if sig is None:
        raise AnalysisError("cannot synthesise Result.__init__")
    calls = [c for c in A.calls(fn) if RESULT_CLS in A.callee_names(c, fn)]
    A.anchor("Result(...) in load_and_run", calls)
    groups = {}
    for c in calls:
        mm = check_call(c, sig)
        if mm:
            sig_txt = ",".join(sorted(f"{k}:{d}" for k, d in mm))
            groups.setdefault(sig_txt, []).append(c)
        else:
            col.ok(rule, "load_and_run: Result(...) call agrees with the attrs-synthesised signature", A.loc(c))
    for sig_txt, cs in sorted(groups.items()):
        col.fail(rule, fn.qualname, f"Result-call:{sig_txt}:x{len(cs)}", f"{len(cs)} Result(...) call(s) on the error path do not match Result's signature ({sig_txt}): the TypeError masks the original error and no errored result is saved", A.loc(cs[0]))


@prop(
    "C13",
    technique="typestate + handler-completion analysis over the exception CFG of the run functions; dominance (edge) checks in Task.__call__/Job.done; abstract key-coverage of PythonTask._run return binding; resolved-call signature check",
    decides="(a) the handler after the task body sets result.errored=True, calls record_error and re-raises on every completing path; (b) a cached result is returned only under `is not None and not errored`; (c) Task.__call__ raises for errored results and Job.done never returns True for one; (d) no path publishes errored=False without outputs; (e) every declared python output is bound or NOTHING is rejected; (f) load_and_run's error branches build Result with its real signature.",
    not_decided="the content of the recorded error; that a non-zero exit status is turned into an exception by the environments' executors (checked only as raise presence in C27/C39 scope).",
    level_note="Trusted: may-raise tables; attrs init synthesis (pydra_sa/sigcheck.py) follows attrs' documented rules for define(kw_only, auto_attribs), field(init, default, factory, kw_only) and leading-underscore stripping.",
)
def check_c13(A: Analysis, col: Collector):
    runs = run_functions(A)
    for R in runs:
        col.scope(R.fn.qualname)
        handler_rule(A, col, R, "C13.handler")
        hit_condition(A, col, R, "C13.hit")
        result_typestate(A, col, R, "C13.typestate")
    errored_is_reported(A, col, "C13.report")
    python_outputs_cover(A, col, "C13.python-outputs")
    load_and_run_results(A, col, "C13.load_and_run")
