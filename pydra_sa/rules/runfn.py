"""Rules over the *run functions* (the functions that call ``<task>._run`` /
``_run_async``: today ``Job.run`` and ``Job.run_async``) -- the lock / hit-check /
populate / execute / record / save protocol.

Shared discovery (:class:`RunFn`) and the rules of C35 (pairing over the exception
CFG), C12/C13 (typestate of the published result), C06(d) (hit condition), C10(a-c)
(lock protocol), C11(a) (must pass the hit check), C19 (hash-change check, checksum
memo, staged inputs), C17 (sibling agreement), C36 (provenance pairing), C31
(rules checked before execution).
"""

from __future__ import annotations

import ast
import typing as ty

from ..engine import Analysis
from ..model import AnalysisError, FuncInfo, ClassInfo, dotted, norm, walk_own, parents, kwarg, is_within, const_str, shape, alpha
from ..cfg import CFG, Node, explore, format_path, token_kind, ANY_E, ANY_B
from ..report import Collector
from . import prop

TASK_RUN_ATTRS = ("_run", "_run_async")
RESULT_CLS = "pydra.engine.result.Result"
SAVE_FN = "pydra.engine.result.save"
RECORD_ERROR_FN = "pydra.engine.result.record_error"


# --------------------------------------------------------------------------- #
# discovery
# --------------------------------------------------------------------------- #


class RunFn:
    def __init__(self, A: Analysis, fn: FuncInfo):
        self.A = A
        self.fn = fn
        self.cfg = A.cfg(fn)
        calls = A.calls(fn)
        self.task_calls = [c for c in calls if isinstance(c.func, ast.Attribute) and c.func.attr in TASK_RUN_ATTRS and self._is_task_recv(c.func.value)]
        if len(self.task_calls) != 1:
            raise AnalysisError(f"{fn.qualname}: expected exactly one task-body call, found {len(self.task_calls)}")
        self.task_call = self.task_calls[0]
        # the lock `with`
        self.lock_with = None
        for p in parents(self.task_call):
            if isinstance(p, (ast.With, ast.AsyncWith)):
                for it in p.items:
                    if isinstance(it.context_expr, ast.Call) and self._is_lock_ctor(it.context_expr):
                        self.lock_with = p
            if p is fn.node:
                break
        # innermost try around the task call
        self.try_stmt = None
        child = self.task_call
        for p in parents(self.task_call):
            if isinstance(p, ast.Try) and any(is_within(self.task_call, s) for s in p.body):
                self.try_stmt = p
                break
            if p is fn.node:
                break
        # local bound to Result(...)
        self.result_vars = set()
        self.result_ctor_stmts = []
        self.ctor_call: dict[int, ast.Call] = {}  # id(ctor stmt) -> the Result(...) call that builds the value
        for n in walk_own(fn.node):
            if isinstance(n, ast.Assign) and isinstance(n.value, ast.Call):
                names = A.callee_names(n.value, fn)
                ctor = None
                if RESULT_CLS in names:
                    ctor = n.value
                else:
                    # a helper whose every return is Result(...): the placeholder result built in one place
                    for h in [t for t in A.rs.resolve_call(n.value, fn).repo_targets if isinstance(t, FuncInfo)]:
                        rets = [r for r in walk_own(h.node) if isinstance(r, ast.Return)]
                        if rets and all(isinstance(r.value, ast.Call) and RESULT_CLS in A.callee_names(r.value, h) for r in rets):
                            ctor = rets[0].value
                if ctor is not None:
                    for t in n.targets:
                        if isinstance(t, ast.Name):
                            self.result_vars.add(t.id)
                            self.result_ctor_stmts.append(n)
                            self.ctor_call[id(n)] = ctor
        self.save_calls = [c for c in calls if SAVE_FN in A.callee_names(c, fn) and kwarg(c, "result") is not None]

        def _reaches_record_error(c: ast.Call) -> bool:
            if RECORD_ERROR_FN in A.callee_names(c, fn):
                return True
            for h in [t for t in A.rs.resolve_call(c, fn).repo_targets if isinstance(t, FuncInfo)]:
                if any(RECORD_ERROR_FN in A.callee_names(k, h) for k in A.calls(h)):
                    return True
            return False

        self.record_calls = [c for c in calls if _reaches_record_error(c)]
        self.result_calls = [c for c in calls if any(q.endswith("Job.result") for q in A.callee_names(c, fn))]
        self.populate_calls = [c for c in calls if any(q.endswith("._populate_filesystem") for q in A.callee_names(c, fn))]

    def _is_task_recv(self, e: ast.AST) -> bool:
        t = self.A.rs.type_of(e, self.fn)
        task = self.A.repo.classes.get("pydra.compose.base.task.Task")
        if task is not None and any(c.is_subclass_of(task) for c in t.inst):
            return True
        d = dotted(e) or ""
        return d.endswith(".task") or d == "task"

    def _is_lock_ctor(self, call: ast.Call) -> bool:
        names = self.A.callee_names(call, self.fn)
        return any(n in ("filelock.SoftFileLock", "filelock.FileLock") or n.endswith(".PydraFileLock") for n in names)

    # -- CFG node helpers
    def nodes_evaluating(self, ast_node: ast.AST) -> list[Node]:
        return self.cfg.nodes_containing(ast_node)

    def region_of(self, node: Node) -> str:
        """where a CFG node sits relative to the try around the task call."""
        s = node.stmt
        if s is None or self.try_stmt is None:
            return "n/a"
        t = self.try_stmt
        if any(is_within(s, b) for b in t.finalbody):
            return "in-finally"
        if any(is_within(s, h) for h in t.handlers):
            return "in-handler"
        if any(is_within(s, b) for b in t.body):
            return "in-try-body"
        if any(is_within(s, b) for b in t.orelse):
            return "in-try-else"
        if self.lock_with is not None and is_within(s, self.lock_with):
            if getattr(s, "lineno", 0) < t.lineno:
                return "before-try"
            return "after-try"
        return "outside-lock"


def run_functions(A: Analysis) -> list[RunFn]:
    out = []
    for fn in A.repo.all_functions():
        found = False
        for c in A.calls(fn):
            if isinstance(c.func, ast.Attribute) and c.func.attr in TASK_RUN_ATTRS:
                d = dotted(c.func.value) or ""
                if d.endswith(".task") or d == "task":
                    found = True
        if found:
            out.append(RunFn(A, fn))
    if len(out) < 2:
        raise AnalysisError(f"run functions (callers of <task>._run/_run_async): found {len(out)}, floor is 2")
    for r in out:
        if r.lock_with is None:
            # a run function without a lock is a C10 violation, reported there; other
            # rules need the anchor
            pass
    return out


# --------------------------------------------------------------------------- #
# memoised-property refinement
# --------------------------------------------------------------------------- #

MEMO_CHAIN = ("checksum", "cache_dir", "lockfile", "cache_root", "uid")


def memo_property_ok(A: Analysis, col: Collector | None, rule: str) -> bool:
    """`Job.checksum` must have the memo shape: return self._checksum when it is not
    None; otherwise assign self._checksum once and return it."""
    job = A.cls("pydra.engine.job.Job")
    m = job.find_method("checksum")
    if m is None or not m.is_property_getter:
        raise AnalysisError("Job.checksum property not found")
    memo_attr = None
    ok_guard = ok_assign = False
    for n in walk_own(m.node):
        if isinstance(n, ast.If) and isinstance(n.test, ast.Compare) and len(n.test.ops) == 1 and isinstance(n.test.ops[0], ast.IsNot):
            l, r = n.test.left, n.test.comparators[0]
            if isinstance(l, ast.Attribute) and dotted(l.value) == "self" and isinstance(r, ast.Constant) and r.value is None:
                if n.body and isinstance(n.body[0], ast.Return) and norm(n.body[0].value) == norm(l):
                    memo_attr = l.attr
                    ok_guard = True
    # inverted form: `if self._x is None: self._x = <compute>` followed by `return self._x`
    if memo_attr is None:
        for n in walk_own(m.node):
            if isinstance(n, ast.If) and isinstance(n.test, ast.Compare) and len(n.test.ops) == 1 and isinstance(n.test.ops[0], ast.Is):
                l, r = n.test.left, n.test.comparators[0]
                if isinstance(l, ast.Attribute) and dotted(l.value) == "self" and isinstance(r, ast.Constant) and r.value is None and not n.orelse:
                    sets = any(isinstance(a_, ast.Assign) and any(norm(t) == norm(l) for t in a_.targets) for a_ in n.body)
                    rets_ = [x for x in walk_own(m.node) if isinstance(x, ast.Return)]
                    if sets and rets_ and all(norm(x.value) == norm(l) for x in rets_) and all(not is_within(x, n) for x in rets_):
                        memo_attr = l.attr
                        ok_guard = True
    for n in walk_own(m.node):
        if isinstance(n, ast.Assign) and memo_attr is not None:
            for t in n.targets:
                if isinstance(t, ast.Attribute) and dotted(t.value) == "self" and t.attr == memo_attr:
                    ok_assign = True
    good = ok_guard and ok_assign
    if col is not None:
        if good:
            col.ok(rule, "Job.checksum memoises its value (guarded return + single assignment)", A.loc(m.node))
        else:
            col.fail(rule, m.qualname, "checksum-not-memoised", "Job.checksum no longer memoises the task checksum: the identity under which a result is stored can change during execution", A.loc(m.node))
    return good


def memo_skip(A: Analysis, R: RunFn):
    """skip predicate for RaiseModel: reads of self.<memoised chain> are total at CFG
    nodes dominated by the lock acquisition (whose context expression already evaluated
    self.lockfile -> cache_dir -> checksum successfully)."""
    if R.lock_with is None or not memo_property_ok(A, None, ""):
        return None
    enter = [n for n in R.cfg.nodes if n.kind == "with_enter" and n.stmt is R.lock_with]
    if not enter:
        return None
    # the lock expression must itself read the chain
    reads_chain = any(isinstance(a, ast.Attribute) and a.attr in ("lockfile", "cache_dir", "checksum") and dotted(a.value) == "self" for it in R.lock_with.items for a in ast.walk(it.context_expr))
    if not reads_chain:
        return None
    dom = R.cfg.dominators()
    eid = enter[0].id

    def skip(cfg_node: Node, a: ast.AST) -> bool:
        if isinstance(a, ast.Attribute) and a.attr in MEMO_CHAIN and dotted(a.value) == "self":
            return cfg_node.id != eid and eid in dom.get(cfg_node.id, ())
        return False

    return skip


def tokens_for(A: Analysis, R: RunFn):
    return A.rm.tokens_fn(R.fn, skip=memo_skip(A, R))


def raiser_sig(A: Analysis, R: RunFn, node: Node | None, tokens_of) -> str:
    """stable description of what raises in a CFG node: the set of callee names."""
    if node is None:
        return "?"
    names = set()
    sk = memo_skip(A, R)
    for e in node.exprs:
        for c in [e] + list(walk_own(e)):
            if isinstance(c, ast.Call):
                if A.rm.call_tokens(c, R.fn):
                    cn = A.callee_names(c, R.fn)
                    if not cn:
                        cn = {norm(c.func, 40)}
                    names |= {n.replace("attr:", ".") for n in cn}
            elif isinstance(c, ast.Attribute) and not (sk and sk(node, c)):
                if A.rm.property_tokens(c, R.fn):
                    names.add("prop:" + c.attr)
            elif isinstance(c, ast.Await):
                names.add("await")
    if node.kind == "with_enter":
        names.add("with-enter")
    if node.kind == "raise":
        names.add("raise")
    if node.kind == "assert":
        names.add("assert")
    short = sorted(n.rsplit(".", 2)[-2] + "." + n.rsplit(".", 1)[-1] if n.count(".") >= 2 else n for n in names)
    return "+".join(short) or norm(node.stmt, 40)


# --------------------------------------------------------------------------- #
# generic pairing rule
# --------------------------------------------------------------------------- #


def check_pairing(A: Analysis, col: Collector, R: RunFn, rule: str, pair: str, opens: list[Node], is_close: ty.Callable[[Node], bool], start_edges: str = "normal", what: str = ""):
    toks = tokens_for(A, R)
    closes = [n for n in R.cfg.nodes if is_close(n)]
    if not opens:
        return 0
    if not closes:
        # the closing operation may have been moved into a helper: the pairing is decided
        # intraprocedurally, so that refactoring makes the analysis inapplicable (exit 2),
        # not the property violated
        key = what.split("(")[0].rsplit(".", 1)[-1].strip()
        direct = [g for g in A.callees(R.fn)]
        for g in direct + [g for g in A.closure(direct, limit=200) if g not in direct]:
            if g.qualname == R.fn.qualname or g.module is not R.fn.module:
                continue
            src = " ".join(norm(c.func, 60) for c in A.calls(g))
            if key and key in src:
                raise AnalysisError(f"{R.fn.qualname}: the closing operation of pair '{pair}' ({what}) is not in the run function but appears in helper {g.qualname}; the pairing rule is intraprocedural and cannot decide this shape")
        col.fail(rule, R.fn.qualname, f"{pair}:no-close", f"{pair}: opened but no closing operation exists in the function ({what})", A.loc(R.fn.node))
        return len(opens)
    grouped: dict[str, dict] = {}
    n_paths = 0
    for o in opens:
        esc = explore(R.cfg, [(o, None)], toks, stop=is_close, start_edges=start_edges)
        n_paths += len(esc)
        for e in esc:
            if e.exit_kind == "return":
                sig = f"{pair}:normal-exit"
                msg = f"{pair}: a normally returning path leaves the function without the closing operation"
                rz = None
            else:
                rz = e.raiser
                region = R.region_of(rz) if rz is not None else "?"
                sig = f"{pair}:{region}:{raiser_sig(A, R, rz, toks)}"
                msg = f"{pair}: an exception raised by `{rz.text(60) if rz else '?'}` ({region}) leaves the function without the closing operation"
            g = grouped.setdefault(sig, {"msg": msg, "kinds": set(), "path": e.path, "loc": A.loc(rz.stmt) if rz is not None and rz.stmt is not None else A.loc(o.stmt)})
            if e.token:
                g["kinds"].add(token_kind(e.token))
    col.paths_explored += n_paths
    if not grouped:
        for o in opens:
            col.ok(rule, f"{R.fn.qualname}: {pair} opened at `{o.text(50)}` is closed on every path to every exit (normal, Exception, BaseException)", A.loc(o.stmt))
    for sig, g in sorted(grouped.items()):
        kinds = "/".join(sorted(g["kinds"])) or "-"
        col.fail(rule, R.fn.qualname, sig, g["msg"] + f" [exception kinds: {kinds}]", g["loc"], witness=format_path(g["path"]))
    return len(opens)


def _call_nodes(A: Analysis, R: RunFn, pred) -> list[Node]:
    out = []
    for n in R.cfg.nodes:
        if n.kind in ("with_exit", "fin_end", "dispatch", "handler", "entry", "exit"):
            continue
        hit = False
        for e in n.exprs:
            for c in [e] + list(walk_own(e)):
                if isinstance(c, ast.Call) and pred(c):
                    hit = True
        if hit:
            out.append(n)
    return out


def _changes_cwd(A: Analysis, fn: FuncInfo, depth: int = 2, _seen=None) -> bool:
    """summary: the function (transitively, bounded) calls os.chdir."""
    _seen = _seen or set()
    if fn.qualname in _seen or depth < 0:
        return False
    _seen.add(fn.qualname)
    for c in A.calls(fn):
        names = A.callee_names(c, fn)
        if "os.chdir" in names:
            return True
        for t in A.resolve(c, fn).repo_targets:
            if isinstance(t, FuncInfo) and _changes_cwd(A, t, depth - 1, _seen):
                return True
    return False


def _saved_cwd_vars(A: Analysis, fn: FuncInfo) -> set[str]:
    out = set()
    for n in walk_own(fn.node):
        if isinstance(n, ast.Assign) and isinstance(n.value, ast.Call) and "os.getcwd" in A.callee_names(n.value, fn):
            for t in n.targets:
                if isinstance(t, ast.Name):
                    out.add(t.id)
    return out


def _creates_info_file(A: Analysis, fn: FuncInfo) -> bool:
    for c in A.calls(fn):
        if (dotted(c.func) == "open" or (isinstance(c.func, ast.Attribute) and c.func.attr == "open")) and c.args:
            mode = c.args[1] if len(c.args) > 1 else kwarg(c, "mode")
            target = A.expand(c.args[0] if dotted(c.func) == "open" else c.func.value, fn)
            if any(isinstance(k, ast.Constant) and isinstance(k.value, str) and "_info.json" in k.value for k in ast.walk(target)):
                if mode is not None and isinstance(mode, ast.Constant) and "w" in str(mode.value):
                    return True
    return False


# --------------------------------------------------------------------------- #
# C35
# --------------------------------------------------------------------------- #


@prop(
    "C35",
    technique="pairing rules over per-function CFGs with explicit exception edges (Exception / BaseException tokens), finally-inlining and raise summaries",
    decides="in every function that runs a task body (Job.run, Job.run_async): once the process cwd was changed it is restored, once the transient <uid>_info.json exists it is unlinked, once pre_run_task ran post_run_task runs exactly once, and once the task body was entered save(result=) is reached -- on every path to every exit of the function, exceptional exits included; the cache-hit return passes neither hook.",
    not_decided="that the directory restored is the original one when os.getcwd() itself fails; effects of hooks on the file system; behaviour of the worker processes around the run function.",
    level_note="Trusted: CPython ast; the may-raise model (tables TOTAL_EXTERNAL / TOTAL_METHODS / USER_CALLABLE_ATTRS in pydra_sa/raises.py, each row with a reason); reads of the memoised Job.checksum chain are total after the lock expression evaluated them (checked structurally).",
)
def check_c35(A: Analysis, col: Collector):
    runs = run_functions(A)
    n_pairs = 0
    for R in runs:
        fn = R.fn
        col.scope(fn.qualname)
        saved = _saved_cwd_vars(A, fn)

        # --- cwd
        def is_restore(c: ast.Call) -> bool:
            return "os.chdir" in A.callee_names(c, fn) and c.args and isinstance(c.args[0], ast.Name) and c.args[0].id in saved

        def is_cwd_open(c: ast.Call) -> bool:
            names = A.callee_names(c, fn)
            if "os.chdir" in names:
                return not is_restore(c)
            return any(isinstance(t, FuncInfo) and _changes_cwd(A, t) for t in A.resolve(c, fn).repo_targets)

        opens = _call_nodes(A, R, is_cwd_open)
        # only opens inside the lock region matter (the run protocol)
        n_pairs += check_pairing(A, col, R, "C35.cwd", "cwd", opens, lambda n: any(is_restore(c) for e in n.exprs for c in [e] + list(walk_own(e)) if isinstance(c, ast.Call)), what="os.chdir(<saved os.getcwd()>)")
        if not opens:
            col.ok("C35.cwd", f"{fn.qualname}: no cwd-changing call", A.loc(fn.node))

        # --- info file
        def is_info_open(c: ast.Call) -> bool:
            return any(isinstance(t, FuncInfo) and _creates_info_file(A, t) for t in A.resolve(c, fn).repo_targets) or False

        def is_info_close_node(n: Node) -> bool:
            for e in n.exprs:
                for c in [e] + list(walk_own(e)):
                    if isinstance(c, ast.Call) and isinstance(c.func, ast.Attribute) and c.func.attr == "unlink":
                        if any(isinstance(k, ast.Constant) and isinstance(k.value, str) and "_info.json" in k.value for k in ast.walk(A.expand(c.func.value, fn))):
                            return True
            return False

        iopens = _call_nodes(A, R, is_info_open)
        if not iopens and _creates_info_file(A, fn):
            iopens = _call_nodes(A, R, lambda c: dotted(c.func) == "open")
        # the creating call may raise after it created the file: start at the call itself
        n_pairs += check_pairing(A, col, R, "C35.info", "info-file", iopens, is_info_close_node, start_edges="all", what="<cache_root>/<uid>_info.json unlink")

        # --- hooks
        def attr_call(name):
            return lambda c: isinstance(c.func, ast.Attribute) and c.func.attr == name and (dotted(c.func.value) or "").endswith("hooks")

        pre = _call_nodes(A, R, attr_call("pre_run_task"))
        post_pred = attr_call("post_run_task")
        is_post = lambda n: any(post_pred(c) for e in n.exprs for c in [e] + list(walk_own(e)) if isinstance(c, ast.Call))
        # "each called exactly once for every actual execution": the start hook dominates
        # the task-body call, and from the task-body call (however it ends) the end hook
        # is reached on every path
        task_nodes_h = R.cfg.nodes_containing(R.task_call)
        pre_ids = {n.id for n in pre}
        for tn in task_nodes_h:
            if pre and R.cfg.dominated_by(tn, lambda m: m.id in pre_ids):
                col.ok("C35.hooks", f"{fn.qualname}: pre_run_task dominates the task-body call", A.loc(R.task_call))
            else:
                col.fail("C35.hooks", fn.qualname, "task-hooks:pre-not-before-body", "the task body can be entered without pre_run_task having been called", A.loc(R.task_call))
        if len(pre) > 1:
            for a in pre:
                if any(b.id in R.cfg.reachable_from([a]) and b is not a for b in pre):
                    col.fail("C35.hooks", fn.qualname, "task-hooks:pre-twice", "pre_run_task can run twice on one path", A.loc(a.stmt))
        n_pairs += check_pairing(A, col, R, "C35.hooks", "task-hooks", task_nodes_h, is_post, start_edges="all", what="hooks.post_run_task")
        # exactly once: from a completed post_run_task no second one is reachable
        toks = tokens_for(A, R)
        posts = [n for n in R.cfg.nodes if is_post(n)]
        twice = False
        for p in posts:
            seen_post = []
            explore(R.cfg, [(p, None)], toks, start_edges="normal", visit=lambda n, t: seen_post.append(n) if is_post(n) else None)
            if seen_post:
                twice = True
                col.fail("C35.hooks", fn.qualname, "task-hooks:post-twice", "post_run_task can run twice on one path", A.loc(p.stmt))
        if posts and not twice:
            col.ok("C35.hooks", f"{fn.qualname}: post_run_task runs at most once per path ({len(posts)} inlined copies)", A.loc(posts[0].stmt))
        # never for a cache hit: hit-return nodes are not reachable from pre and do not pass post
        hit_returns = _hit_returns(A, R)
        for hr in hit_returns:
            bad = False
            for n in R.cfg.nodes_containing(hr):
                if not R.cfg.dominated_by(n, lambda m: False):  # reachable
                    pass
                for pnode in pre + posts:
                    # pre/post dominating or reachable-before the hit return?
                    reach = R.cfg.reachable_from([pnode])
                    if n.id in reach:
                        bad = True
                # and from the hit return no hook is reachable
                after = R.cfg.reachable_from([n])
                if any(q.id in after for q in pre + posts):
                    bad = True
            if bad:
                col.fail("C35.hooks", fn.qualname, "task-hooks:on-cache-hit", "a task-level hook runs on the cache-hit path", A.loc(hr))
            else:
                col.ok("C35.hooks", f"{fn.qualname}: cache-hit return passes neither pre_run_task nor post_run_task", A.loc(hr))

        # --- result: task body entered => save(result=) reached
        task_nodes = R.cfg.nodes_containing(R.task_call)
        save_ids = set()
        for sc in R.save_calls:
            for n in R.cfg.nodes_containing(sc):
                save_ids.add(n.id)
        n_pairs += check_pairing(A, col, R, "C35.result", "result-record", task_nodes, lambda n: n.id in save_ids, start_edges="all", what="save(<cache_dir>, result=...)")
    col.notes["pairs_checked"] = n_pairs
    if n_pairs < 8:
        raise AnalysisError(f"C35: only {n_pairs} open sites found over the run functions; floor is 8 (4 pairs x 2 functions)")


def _hit_returns(A: Analysis, R: RunFn) -> list[ast.Return]:
    """`return <x>` statements where x is bound from self.result() (the cache-hit exits)."""
    fn = R.fn
    bound = set()
    for n in walk_own(fn.node):
        if isinstance(n, ast.Assign) and isinstance(n.value, ast.Call) and n.value in R.result_calls:
            for t in n.targets:
                if isinstance(t, ast.Name):
                    bound.add(t.id)
    out = []
    for n in walk_own(fn.node):
        if isinstance(n, ast.Return) and n.value is not None:
            v = n.value
            if isinstance(v, ast.Call) and v in R.result_calls:
                out.append(n)
            elif isinstance(v, ast.Name) and v.id in bound and (R.try_stmt is None or n.lineno < R.try_stmt.lineno):
                # before the execution part
                out.append(n)
    return out


# --------------------------------------------------------------------------- #
# C12 / C13 : typestate of the published result
# --------------------------------------------------------------------------- #


def _const_bool(e: ast.AST | None):
    if isinstance(e, ast.Constant) and isinstance(e.value, bool):
        return e.value
    return None


def result_typestate(A: Analysis, col: Collector, R: RunFn, rule: str):
    """Abstract state of the local bound to Result(...): (errored in {F,T,?},
    outputs in {unset,set}).  At every save(..., result=x) require errored=T or
    outputs=set: otherwise a 'success' without outputs is published and the next
    submission is answered from it (returns None / NOTHING outputs)."""
    fn = R.fn
    toks = tokens_for(A, R)
    if not R.result_ctor_stmts:
        raise AnalysisError(f"{fn.qualname}: no local is bound to Result(...)")
    var = sorted(R.result_vars)[0]
    n_inst = 0
    for ctor in R.result_ctor_stmts:
        call: ast.Call = R.ctor_call.get(id(ctor), ctor.value)
        e0 = _const_bool(kwarg(call, "errored"))
        if kwarg(call, "errored") is None:
            e0 = False  # attrs default of Result.errored
        o0 = kwarg(call, "outputs")
        out0 = "set" if (o0 is not None and not (isinstance(o0, ast.Constant) and o0.value is None)) else "unset"
        state0 = ("T" if e0 is True else "F" if e0 is False else "?", out0)
        starts = [(n, None) for n in R.cfg.nodes_of(ctor)]

        def transfer(node: Node, st, completed: bool):
            if not completed or node.stmt is None or node.kind != "stmt":
                return st
            s = node.stmt
            if isinstance(s, ast.Assign):
                for t in s.targets:
                    if isinstance(t, ast.Attribute) and isinstance(t.value, ast.Name) and t.value.id == var:
                        if t.attr == "errored":
                            b = _const_bool(s.value)
                            st = ("T" if b is True else "F" if b is False else "?", st[1])
                        elif t.attr == "outputs":
                            isnone = isinstance(s.value, ast.Constant) and s.value.value is None
                            st = (st[0], "unset" if isnone else "set")
                    elif isinstance(t, ast.Name) and t.id == var and s is not ctor:
                        st = ("?", "set")  # rebound to something else: unknown, do not flag
            return st

        save_nodes = {}
        for sc in R.save_calls:
            rv = kwarg(sc, "result")
            if isinstance(rv, ast.Name) and rv.id == var:
                for n in R.cfg.nodes_containing(sc):
                    save_nodes[n.id] = sc

        def check(node: Node, st, tok):
            return node.id in save_nodes and st[0] == "F" and st[1] == "unset"

        esc = explore(R.cfg, starts, toks, start_edges="normal", state0=state0, transfer=transfer, check=check)
        col.paths_explored += len(esc)
        bad = [e for e in esc if e.exit_kind == "check"]
        n_inst += len(save_nodes)
        grouped = {}
        for e in bad:
            # how did we get here: the pending token at the save and who raised it
            rz = e.raiser
            kind = token_kind(e.token) if e.token else "-"
            region = R.region_of(rz) if rz is not None else "?"
            if rz is not None and any(n is rz for n in R.cfg.nodes_containing(R.task_call)):
                who = "task-body"
            else:
                who = raiser_sig(A, R, rz, toks)
            sig = f"publish-unerrored-without-outputs:{kind}:{region}:{who}"
            grouped.setdefault(sig, (e, rz, kind))
        for sig, (e, rz, kind) in sorted(grouped.items()):
            kind_txt = "a KeyboardInterrupt/SystemExit-kind exception (not stopped by `except Exception`)" if kind == "B" else "an exception" if kind == "E" else "a normal path"
            col.fail(
                rule,
                fn.qualname,
                sig,
                f"save(result={var}) is reached with errored=False and outputs unset after {kind_txt} from `{rz.text(50) if rz else '?'}`: a success without outputs is cached",
                A.loc(rz.stmt) if rz is not None and rz.stmt is not None else A.loc(ctor),
                witness=format_path(e.path),
            )
        if not bad:
            col.ok(rule, f"{fn.qualname}: every path to save(result={var}) has errored=True or outputs assigned ({len(save_nodes)} save nodes incl. finally copies, initial state {state0})", A.loc(ctor))
    return n_inst


def save_after_run(A: Analysis, col: Collector, R: RunFn, rule: str):
    """_result.pklz is written only after the task call (no save(result=) node on a
    path from function entry to the task call)."""
    task_nodes = R.cfg.nodes_containing(R.task_call)
    bad = False
    for sc in R.save_calls:
        for sn in R.cfg.nodes_containing(sc):
            reach = R.cfg.reachable_from([sn])
            if any(t.id in reach for t in task_nodes):
                bad = True
                col.fail(rule, R.fn.qualname, "save-before-task-body", "save(result=...) can execute before the task body: a result exists on disk while the task has not run", A.loc(sc))
    if not bad:
        col.ok(rule, f"{R.fn.qualname}: no save(result=) precedes the task-body call ({len(R.save_calls)} save sites)", A.loc(R.task_call))


def populate_clears(A: Analysis, col: Collector, rule: str):
    """_populate_filesystem: mkdir(cache_dir, exist_ok=<maybe False>) is preceded on
    every path by the exists()->rmtree clearing unless can_resume."""
    fn = A.func("pydra.engine.job.Job._populate_filesystem")
    cfg = A.cfg(fn)
    mk = [c for c in A.calls(fn) if isinstance(c.func, ast.Attribute) and c.func.attr == "mkdir"]
    rm = [c for c in A.calls(fn) if "shutil.rmtree" in A.callee_names(c, fn)]
    A.anchor("mkdir in _populate_filesystem", mk)
    for m in mk:
        eo = kwarg(m, "exist_ok")
        if isinstance(eo, ast.Constant) and eo.value is True:
            col.ok(rule, "mkdir(exist_ok=True): a leftover directory cannot make mkdir fail", A.loc(m))
            continue
        # need: a guarded rmtree of the same directory on the path where exist_ok is False
        ok = False
        for r in rm:
            if r.args and norm(r.args[0]) == norm(m.func.value):
                # guard: `if not <X> and <dir>.exists()` where exist_ok == <X>
                for p in parents(r):
                    if isinstance(p, ast.If):
                        t = p.test
                        conds = t.values if isinstance(t, ast.BoolOp) and isinstance(t.op, ast.And) else [t]
                        has_exists = any(isinstance(c, ast.Call) and isinstance(c.func, ast.Attribute) and c.func.attr == "exists" and norm(c.func.value) == norm(m.func.value) for c in conds)
                        others = [c for c in conds if not (isinstance(c, ast.Call) and isinstance(c.func, ast.Attribute) and c.func.attr == "exists")]
                        # every other conjunct must be `not <exist_ok expr>`
                        others_ok = all(isinstance(c, ast.UnaryOp) and isinstance(c.op, ast.Not) and eo is not None and norm(c.operand) == norm(eo) for c in others)
                        if has_exists and others_ok and p.lineno < m.lineno:
                            ok = True
        if ok:
            col.ok(rule, "mkdir(cache_dir, exist_ok=can_resume) is preceded by `if not can_resume and cache_dir.exists(): rmtree(cache_dir)`", A.loc(m))
        else:
            col.fail(rule, fn.qualname, "leftover-dir-wedges-mkdir", "cache_dir.mkdir(exist_ok possibly False) is not preceded by clearing a leftover directory: a crashed run wedges the identity (FileExistsError on every resubmission)", A.loc(m))


def stale_lock_rule(A: Analysis, col: Collector, rule: str):
    # the submitter's stale-lock sweep, found by its role (the method of Submitter that unlinks a job's lockfile), not by its name
    sub_cls = A.cls("pydra.engine.submitter.Submitter")
    cands = [m for m in sub_cls.methods.values() if any(isinstance(c.func, ast.Attribute) and c.func.attr == "unlink" and isinstance(c.func.value, ast.Attribute) and c.func.value.attr == "lockfile" for c in A.calls(m))]
    if len(cands) != 1:
        raise AnalysisError(f"C12: the stale-lock sweep of Submitter was not found by its role ({len(cands)} candidates)")
    fn = cands[0]
    unl = [c for c in A.calls(fn) if isinstance(c.func, ast.Attribute) and c.func.attr == "unlink"]
    A.anchor("lockfile.unlink in _check_locks", unl)
    for u in unl:
        guarded = False
        for p in parents(u):
            if isinstance(p, ast.If):
                for c in ast.walk(p.test):
                    if isinstance(c, ast.Compare) and len(c.ops) == 1 and isinstance(c.ops[0], ast.Lt):
                        if "run_start_time" in norm(c.comparators[0]) and "start_time" in norm(c.left):
                            guarded = True
        if guarded:
            col.ok(rule, "stale-lock removal is guarded by `start_time < self.run_start_time` (only locks older than this submission)", A.loc(u))
        else:
            col.fail(rule, fn.qualname, "unguarded-lock-unlink", "a lock file is removed without checking that it predates this submission: a live lock of a concurrent run can be broken", A.loc(u))


def handler_rule(A: Analysis, col: Collector, R: RunFn, rule: str):
    """the handler after the task call marks the result errored, records the error and
    re-raises on every path that completes the handler."""
    fn = R.fn
    t = R.try_stmt
    if t is None:
        col.fail(rule, fn.qualname, "no-try-around-task-body", "the task-body call is not inside a try block: a failure is neither recorded nor marked", A.loc(R.task_call))
        return
    hs = [h for h in t.handlers if h.type is not None and any(n in ("Exception", "BaseException") for n in (dotted(h.type) or "").split("."))] or [h for h in t.handlers if h.type is None]
    if not hs:
        col.fail(rule, fn.qualname, "no-exception-handler", "no `except Exception` handler follows the task-body call", A.loc(t))
        return
    h = hs[0]
    var = sorted(R.result_vars)[0] if R.result_vars else "result"
    cfg = R.cfg
    toks = tokens_for(A, R)
    entries = [n for n in cfg.nodes if n.kind == "handler" and n.stmt is h]

    def in_handler(n: Node) -> bool:
        return n.stmt is not None and is_within(n.stmt, h)

    def transfer(node, st, completed):
        marked, recorded = st
        if completed and node.kind == "stmt" and isinstance(node.stmt, ast.Assign):
            for tg in node.stmt.targets:
                if isinstance(tg, ast.Attribute) and tg.attr == "errored" and isinstance(tg.value, ast.Name) and tg.value.id == var and _const_bool(node.stmt.value) is True:
                    marked = True
        if completed and any(rc in R.record_calls for e in node.exprs for rc in ast.walk(e)):
            recorded = True
        return (marked, recorded)

    problems = {}

    def check(node, st, tok):
        # leaving the handler region
        if in_handler(node) or node.kind in ("handler",):
            return False
        return True

    esc = explore(cfg, [(e, None) for e in entries], toks, state0=(False, False), transfer=transfer, check=check, stop=lambda n: not in_handler(n) and n.kind != "handler")
    for e in esc:
        if e.exit_kind != "check":
            continue
        marked, recorded = e.state
        last = e.path[-2][0] if len(e.path) >= 2 else None
        if e.token is None:
            problems.setdefault("handler-falls-through", (e, "the handler can complete without re-raising: the failure is swallowed and the submission reports success"))
        elif last is not None and last.kind == "raise":
            if not marked:
                problems.setdefault("reraise-without-errored", (e, f"the handler re-raises without setting {var}.errored = True"))
            if not recorded:
                problems.setdefault("reraise-without-record_error", (e, "the handler re-raises without calling record_error"))
    for sig, (e, msg) in sorted(problems.items()):
        col.fail(rule, fn.qualname, sig, msg, A.loc(h), witness=format_path(e.path))
    if not problems:
        col.ok(rule, f"{fn.qualname}: `except {norm(h.type) if h.type else ''}` after the task body sets {var}.errored=True, calls record_error and re-raises on every completing path", A.loc(h))


def hit_condition(A: Analysis, col: Collector, R: RunFn, rule: str) -> list[ast.If]:
    """every cache-hit return is guarded by `<r> is not None and not <r>.errored`, <r>
    bound from self.result(), inside the lock.  Returns the valid hit tests."""
    fn = R.fn
    valid_tests = []
    hrs = _hit_returns(A, R)
    if not hrs:
        col.fail(rule, fn.qualname, "no-cache-hit-return", "no cache-hit return exists: every submission re-executes the task", A.loc(fn.node))
        return []
    for hr in hrs:
        name = hr.value.id if isinstance(hr.value, ast.Name) else None
        conds = []
        in_lock = R.lock_with is not None and is_within(hr, R.lock_with)
        child = hr
        for p in parents(hr):
            if p is fn.node:
                break
            if isinstance(p, ast.If) and any(child is s or is_within(child, s) for s in p.body):
                t = p.test
                these = list(t.values) if isinstance(t, ast.BoolOp) and isinstance(t.op, ast.And) else [t]
                conds.extend(these)
                # only a test on the looked-up result is a hit test (its false edge is the
                # cache miss); an enclosing `if not rerun:` is not
                if name and any(name in {x.id for x in ast.walk(c) if isinstance(x, ast.Name)} for c in these):
                    valid_tests.append(p)
            child = p
        not_none = errored_ok = False
        for c in conds:
            if name and isinstance(c, ast.Compare) and len(c.ops) == 1 and isinstance(c.ops[0], ast.IsNot) and norm(c.left) == name and isinstance(c.comparators[0], ast.Constant) and c.comparators[0].value is None:
                not_none = True
            if name and isinstance(c, ast.Name) and c.id == name:
                not_none = True
            if name and isinstance(c, ast.UnaryOp) and isinstance(c.op, ast.Not) and norm(c.operand) == f"{name}.errored":
                errored_ok = True
        sigs = []
        if not not_none:
            sigs.append(("hit-without-none-check", "the cached result is returned without checking that one was found"))
        if not errored_ok:
            sigs.append(("hit-without-errored-check", "a cached result is returned without checking `not result.errored`: a recorded failure is served as the answer"))
        if not in_lock:
            sigs.append(("hit-check-outside-lock", "the cache-hit check is outside the lock (check-then-act race with a concurrent writer)"))
        for s, m in sigs:
            col.fail(rule, fn.qualname, s, m, A.loc(hr))
        if not sigs:
            col.ok(rule, f"{fn.qualname}: cache-hit `return {name}` is guarded by `{name} is not None and not {name}.errored`, inside the lock", A.loc(hr))
    return valid_tests


def _truthy_label(test: ast.AST, name: str) -> str | None:
    """label ('T'/'F') of the branch edge on which variable `name` is truthy, if the
    test decides it."""
    t = test
    if isinstance(t, ast.Name) and t.id == name:
        return "T"
    if isinstance(t, ast.UnaryOp) and isinstance(t.op, ast.Not):
        inner = _truthy_label(t.operand, name)
        if inner:
            return "F" if inner == "T" else "T"
    if isinstance(t, ast.Compare) and len(t.ops) == 1 and isinstance(t.left, ast.Name) and t.left.id == name and isinstance(t.comparators[0], ast.Constant):
        v = t.comparators[0].value
        op = t.ops[0]
        if isinstance(op, (ast.Is, ast.Eq)):
            return "T" if v is True else "F" if v is False else None
        if isinstance(op, (ast.IsNot, ast.NotEq)):
            return "F" if v is True else "T" if v is False else None
    return None


def must_check_cache(A: Analysis, col: Collector, R: RunFn, rule: str):
    """every path from entry to the task-body call either takes the `rerun` branch or
    passes the miss edge of a valid hit test."""
    fn = R.fn
    cfg = R.cfg
    params = [a.arg for a in fn.params()]
    rerun = "rerun" if "rerun" in params else None
    hit_tests = set(id(t) for t in hit_condition(A, Collector(col.prop, col.tier), R, rule))
    task_nodes = cfg.nodes_containing(R.task_call)

    def allowed_edge(src: Node, label: str) -> bool:
        if src.kind != "test" or not isinstance(src.stmt, ast.If):
            return False
        if rerun and _truthy_label(src.stmt.test, rerun) == label:
            return True  # rerun requested
        if id(src.stmt) in hit_tests and label == "F":
            return True  # cache miss
        return False

    bad = False
    for tn in task_nodes:
        seen = set()
        st = [tn]
        reached_entry = False
        while st:
            n = st.pop()
            if n.id in seen:
                continue
            seen.add(n.id)
            if n is cfg.entry:
                reached_entry = True
                break
            for l, p in n.pred:
                if allowed_edge(p, l):
                    continue
                st.append(p)
        if reached_entry:
            bad = True
    if bad:
        col.fail(rule, fn.qualname, "task-body-reachable-without-cache-check", "the task body can be reached without `rerun` being set and without a cache miss: a successful job may be executed again", A.loc(R.task_call))
    else:
        col.ok(rule, f"{fn.qualname}: every path to the task body passes `rerun` or the miss edge of the hit test", A.loc(R.task_call))


# --------------------------------------------------------------------------- #
# tolerant reader (C10d / C12d)
# --------------------------------------------------------------------------- #


def tolerant_reader(A: Analysis, col: Collector, rule: str):
    """every unpickling of _result.pklz in load_result sits in a handler for
    UnpicklingError/EOFError inside a bounded loop whose exhaustion returns None."""
    top = A.func("pydra.engine.result.load_result")
    is_load = lambda f_, c_: any(n in ("cloudpickle.load", "pickle.load", "cloudpickle.loads", "pickle.loads") for n in A.callee_names(c_, f_))
    fn = top
    loads = [c for c in A.calls(fn) if is_load(fn, c)]
    if not loads:
        # the unpickling may live in a helper of the same module (refactoring): analyse it there
        for g in A.closure(A.callees(top), limit=30):
            if g.module is top.module and any(is_load(g, c) for c in A.calls(g)):
                fn = g
                loads = [c for c in A.calls(fn) if is_load(fn, c)]
                break
    col.scope(top.qualname, fn.qualname)
    A.anchor("cp.load in load_result (or a helper in its module)", loads)
    for c in loads:
        handled = set()
        bounded = False
        child = c
        for p in parents(c):
            if p is fn.node:
                break
            if isinstance(p, ast.Try) and any(is_within(c, s) for s in p.body):
                for h in p.handlers:
                    from ..cfg import handler_names

                    names = handler_names(h)
                    if names is None:
                        handled |= {"UnpicklingError", "EOFError"}
                    else:
                        handled |= set(names)
                        if "Exception" in names or "BaseException" in names:
                            handled |= {"UnpicklingError", "EOFError"}
            if isinstance(p, ast.For) and isinstance(p.iter, ast.Call) and dotted(p.iter.func) == "range":
                bounded = True
            if isinstance(p, ast.While):
                bounded = bounded or False
        missing = {"UnpicklingError", "EOFError"} - handled
        if missing:
            col.fail(rule, fn.qualname, "reader-unhandled:" + "+".join(sorted(missing)), f"unpickling a result that is still being written is not protected against {sorted(missing)}: a concurrent reader crashes or sees a partial result", A.loc(c))
        elif not bounded:
            col.fail(rule, fn.qualname, "reader-unbounded-retry", "the retry around unpickling is not a bounded loop", A.loc(c))
        else:
            col.ok(rule, "load_result: cp.load is inside `except (UnpicklingError, EOFError)` inside a bounded `for _ in range(retries)`", A.loc(c))
    # the tolerated errors must not leave load_result at all (e.g. re-raised on the last retry)
    cfg = A.cfg(fn)
    for c in loads:
        for node in cfg.nodes_containing(c):
            esc = explore(cfg, [(node, None)], lambda m, _n=node: {"UnpicklingError", "EOFError"} if m is _n else (A.rm.node_tokens(m, fn) & {"<none>"}) | ({"UnpicklingError", "EOFError"} if m.kind == "raise" and m.stmt.exc is None else set()))
            out = [e for e in esc if e.exit_kind == "raise" and e.token in ("UnpicklingError", "EOFError")]
            if out:
                col.fail(rule, fn.qualname, "reader-error-escapes", "an UnpicklingError/EOFError raised while reading a partially written result can leave load_result (re-raised by the handler): a submission that finds a truncated result file of a crashed run fails instead of re-executing the job", A.loc(c), witness=format_path(out[0].path))
            else:
                col.ok(rule, "load_result: UnpicklingError/EOFError from a partial result file never leave the function", A.loc(c))
    # what is returned: only the unpickled object or None
    for n in walk_own(fn.node):
        if isinstance(n, ast.Return) and n.value is not None:
            v = n.value
            okv = (isinstance(v, ast.Constant) and v.value is None) or (isinstance(v, ast.Call) and v in loads)
            if not okv and isinstance(v, ast.Name):
                # a local bound only from the load
                defs = A.rs.local_defs(fn).get(v.id, [])
                okv = bool(defs) and all(k == "assign" and (p in loads or (isinstance(p, ast.Constant) and p.value is None)) for k, p in defs)
            if okv:
                col.ok(rule, f"load_result returns only a completely unpickled object or None (`{norm(n, 40)}`)", A.loc(n))
            else:
                col.fail(rule, fn.qualname, "reader-returns-other:" + type(v).__name__, f"load_result returns `{norm(v, 40)}`, which is neither None nor the completely unpickled result", A.loc(n))


# --------------------------------------------------------------------------- #
# C12
# --------------------------------------------------------------------------- #


@prop(
    "C12",
    technique="typestate analysis of the published Result over the exception CFG (Exception and BaseException tokens) + ordering/dominance obligations on persistent-state writes",
    decides="the persistent-state obligations crash recovery depends on: (a) save(result=) is reached only with errored=True or outputs assigned, on every path including KeyboardInterrupt/SystemExit exits; (b) no save(result=) precedes the task body; (c) a leftover job directory is cleared before mkdir(exist_ok=False); (d) readers of _result.pklz tolerate a partial file (handler + bounded retry, return None); (e) stale-lock removal is guarded by the submission start time.",
    not_decided="kernel write ordering, truncation lengths, SIGKILL between open('wb') and dump (covered only through (d)); liveness of dead-owner locks is delegated to filelock's PID check.",
    level_note="Trusted: may-raise tables in pydra_sa/raises.py; filelock >= 3.2x breaks soft locks of dead same-host PIDs (assumption, not checked).",
)
def check_c12(A: Analysis, col: Collector):
    runs = run_functions(A)
    n = 0
    for R in runs:
        col.scope(R.fn.qualname)
        n += result_typestate(A, col, R, "C12.typestate")
        save_after_run(A, col, R, "C12.order")
    populate_clears(A, col, "C12.populate")
    tolerant_reader(A, col, "C12.reader")
    stale_lock_rule(A, col, "C12.stale-lock")
    col.assume("filelock.SoftFileLock breaks stale locks whose owner PID is dead on the same host (filelock >= 3.2x)")
    if n < 2:
        raise AnalysisError(f"C12: {n} save(result=) sites analysed, floor 2")


# --------------------------------------------------------------------------- #
# C13
# --------------------------------------------------------------------------- #


def errored_is_reported(A: Analysis, col: Collector, rule: str):
    """Task.__call__ raises when result.errored; Job.done never returns True for an
    errored result."""
    fn = A.func("pydra.compose.base.task.Task.__call__")
    col.scope(fn.qualname)
    cfg = A.cfg(fn)
    def implies_not_errored_when_false(test: ast.AST) -> bool:
        """the test being False implies `<x>.errored` is False: the attribute itself, or a
        disjunction containing it."""
        if isinstance(test, ast.Attribute) and test.attr == "errored":
            return True
        if isinstance(test, ast.BoolOp) and isinstance(test.op, ast.Or):
            return any(implies_not_errored_when_false(v) for v in test.values)
        return False

    mentions = [n for n in cfg.nodes if n.kind == "test" and isinstance(n.stmt, ast.If) and any(isinstance(a, ast.Attribute) and a.attr == "errored" for a in ast.walk(n.stmt.test))]
    tests = [n for n in mentions if implies_not_errored_when_false(n.stmt.test)]
    toks = A.rm.tokens_fn(fn)
    if not tests:
        col.fail(rule, fn.qualname, "no-complete-errored-test", "Task.__call__ has no test whose false branch implies `not result.errored`" + (f" (only `{norm(mentions[0].stmt.test, 50)}`)" if mentions else "") + ": an errored result without an error file is returned as outputs", A.loc(mentions[0].stmt) if mentions else A.loc(fn.node))
    for t in tests:
        tsucc = [m for l, m in t.succ if l == "T"]
        esc = explore(cfg, [(m, None) for m in tsucc], toks)
        normal = [e for e in esc if e.exit_kind == "return"]
        if normal:
            col.fail(rule, fn.qualname, "errored-result-returned", "Task.__call__ can return normally although result.errored is set", A.loc(t.stmt), witness=format_path(normal[0].path))
        else:
            col.ok(rule, "Task.__call__: every path through `if result.errored:` ends in a raise", A.loc(t.stmt))
    # the normal return is dominated by the F edge of such a test
    rets = [n for n in cfg.nodes if n.kind == "return" and n.stmt.value is not None and norm(n.stmt.value).endswith(".outputs")]
    A.anchor("return result.outputs in Task.__call__", rets)
    for r in rets:
        if tests and cfg.dominated_by_edge(r, lambda n: n in tests, "F"):
            col.ok(rule, "Task.__call__: `return result.outputs` is dominated by the not-errored branch", A.loc(r.stmt))
        else:
            col.fail(rule, fn.qualname, "outputs-returned-without-errored-test", "`return result.outputs` is reachable without passing the false branch of a complete `result.errored` test", A.loc(r.stmt))
    # Job.done
    fd = A.func("pydra.engine.job.Job.done")
    col.scope(fd.qualname)
    cfgd = A.cfg(fd)
    true_rets = [n for n in cfgd.nodes if n.kind == "return" and isinstance(n.stmt.value, ast.Constant) and n.stmt.value.value is True]
    A.anchor("return True in Job.done", true_rets)
    err_tests = [n for n in cfgd.nodes if n.kind == "test" and isinstance(n.stmt, ast.If) and norm(n.stmt.test).endswith(".errored")]
    for r in true_rets:
        if err_tests and cfgd.dominated_by_edge(r, lambda n: n in err_tests, "F"):
            col.ok(rule, "Job.done: `return True` only on the not-errored branch", A.loc(r.stmt))
        else:
            col.fail(rule, fd.qualname, "done-true-for-errored", "Job.done can return True for an errored result: a failure counts as done", A.loc(r.stmt))


def python_outputs_cover(A: Analysis, col: Collector, rule: str):
    """mandatory outputs of a python task: every non-raising path of PythonTask._run
    binds all return_names, or PythonOutputs._from_job rejects NOTHING."""
    fn = A.func("pydra.compose.python.PythonTask._run")
    col.scope(fn.qualname)
    # the variable holding the declared output names
    names_var = None
    for n in walk_own(fn.node):
        if isinstance(n, ast.Assign) and isinstance(n.value, (ast.ListComp, ast.GeneratorExp)) and "Outputs" in norm(A.expand(n.value, fn)):
            if isinstance(n.targets[0], ast.Name):
                names_var = n.targets[0].id
    if names_var is None:
        raise AnalysisError("PythonTask._run: the list of declared output names was not found")
    writes = []
    for n in walk_own(fn.node):
        tgt = None
        if isinstance(n, ast.Assign):
            for t in n.targets:
                if isinstance(t, ast.Attribute) and t.attr == "return_values":
                    writes.append(("assign", n, n.value))
                elif isinstance(t, ast.Subscript) and isinstance(t.value, ast.Attribute) and t.value.attr == "return_values":
                    writes.append(("item", n, t.slice))
        elif isinstance(n, ast.Call) and isinstance(n.func, ast.Attribute) and n.func.attr == "update" and isinstance(n.func.value, ast.Attribute) and n.func.value.attr == "return_values":
            writes.append(("update", n, n.args[0] if n.args else None))
    A.anchor("writes to job.return_values in PythonTask._run", writes, 3)

    def guards(node):
        out = []
        child = node
        for p in parents(node):
            if p is fn.node:
                break
            if isinstance(p, ast.If) and any(is_within(node, s) for s in p.body):
                out.append(norm(p.test))
            child = p
        return " && ".join(out)

    partial = []
    hard = []
    for kind, node, payload in writes:
        g = guards(node)
        total = False
        why = ""
        defaulting = False
        if kind in ("assign", "update") and isinstance(payload, ast.DictComp):
            gen = payload.generators[0]
            defaulted = any(isinstance(k, ast.Call) and isinstance(k.func, ast.Attribute) and k.func.attr in ("get", "setdefault", "pop") for k in ast.walk(payload.value))
            if norm(gen.iter) == names_var and not gen.ifs and norm(payload.key) == norm(gen.target) and defaulted:
                why = f"value `{norm(payload.value, 40)}` silently substitutes a default for an output the function did not return (it is then neither missing nor NOTHING)"
                defaulting = True
            elif norm(gen.iter) == names_var and not gen.ifs and norm(payload.key) == norm(gen.target):
                total = True
            elif norm(gen.iter) == names_var and gen.ifs:
                why = f"comprehension over {names_var} filtered by `{norm(gen.ifs[0])}`"
        elif kind == "update" and isinstance(payload, ast.Call) and dotted(payload.func) == "zip" and payload.args and norm(payload.args[0]) == names_var:
            # total under the length guard
            other = norm(payload.args[1]) if len(payload.args) > 1 else "?"
            if f"len({names_var}) == len({other})" in g or f"len({other}) == len({names_var})" in g:
                total = True
            else:
                why = "zip without the equal-length guard"
        elif kind == "item" and norm(payload) == f"{names_var}[0]":
            if f"len({names_var}) == 1" in g:
                total = True
            else:
                why = "single item without the len == 1 guard"
        else:
            why = "unrecognised binding form"
        if total:
            col.ok(rule, f"PythonTask._run: `{norm(node, 60)}` binds every declared output", A.loc(node))
        elif defaulting:
            hard.append((node, why))
        else:
            partial.append((node, why))
    for node, why in hard:
        col.fail(rule, fn.qualname, "missing-output-defaulted", f"`{norm(node, 70)}`: {why}; no validation downstream can tell it from a returned value, so a task missing a mandatory output is reported and cached as success", A.loc(node))
    # does _from_job validate?
    fj = A.func("pydra.compose.python.PythonOutputs._from_job")
    validates = False
    for n in walk_own(fj.node):
        if isinstance(n, ast.Raise):
            for p in parents(n):
                if isinstance(p, ast.If) and ("NOTHING" in norm(p.test) or "mandatory" in norm(p.test) or "missing" in norm(p.test).lower()):
                    validates = True
                if p is fj.node:
                    break
    for node, why in partial:
        if validates:
            col.ok(rule, f"PythonTask._run: partial binding `{norm(node, 50)}` is validated by PythonOutputs._from_job", A.loc(node))
        else:
            col.fail(rule, fn.qualname, "partial-output-binding:" + ("dict-filter" if "filtered" in why else why.replace(" ", "-")), f"`{norm(node, 70)}` may bind only some declared outputs ({why}) and PythonOutputs._from_job does not reject attrs.NOTHING: a task missing a mandatory output is reported as success", A.loc(node))


def load_and_run_results(A: Analysis, col: Collector, rule: str):
    """error branches of load_and_run construct Result with its real signature."""
    from ..sigcheck import class_signature, check_call

    fn = A.func("pydra.engine.job.load_and_run")
    col.scope(fn.qualname)
    res = A.cls(RESULT_CLS)
    sig = class_signature(res)
    if sig is None:
        raise AnalysisError("cannot synthesise Result.__init__")
    calls = [c for c in A.calls(fn) if RESULT_CLS in A.callee_names(c, fn)]
    A.anchor("Result(...) in load_and_run", calls)
    groups = {}
    for c in calls:
        mm = check_call(c, sig)
        if mm:
            sig_txt = ",".join(sorted(f"{k}:{d}" for k, d in mm))
            groups.setdefault(sig_txt, []).append(c)
        else:
            col.ok(rule, "load_and_run: Result(...) call agrees with the attrs-synthesised signature", A.loc(c))
    for sig_txt, cs in sorted(groups.items()):
        col.fail(rule, fn.qualname, f"Result-call:{sig_txt}:x{len(cs)}", f"{len(cs)} Result(...) call(s) on the error path do not match Result's signature ({sig_txt}): the TypeError masks the original error and no errored result is saved", A.loc(cs[0]))


@prop(
    "C13",
    technique="typestate + handler-completion analysis over the exception CFG of the run functions; dominance (edge) checks in Task.__call__/Job.done; abstract key-coverage of PythonTask._run return binding; resolved-call signature check",
    decides="(a) the handler after the task body sets result.errored=True, calls record_error and re-raises on every completing path; (b) a cached result is returned only under `is not None and not errored`; (c) Task.__call__ raises for errored results and Job.done never returns True for one; (d) no path publishes errored=False without outputs; (e) every declared python output is bound or NOTHING is rejected; (f) load_and_run's error branches build Result with its real signature; (g) the errored latch that the cache check may set on the Job is cleared before a successful re-execution returns (otherwise the fresh success is reported as the old failure). Additionally (C13.exit-status): every Environment.execute implementation raises on a non-zero return code through an exact guard (truthiness or `!= 0`, every path raising); `> 0` is rejected because a process killed by a signal has a negative code.",
    not_decided="the content of the recorded error; that a non-zero exit status is turned into an exception by the environments' executors (checked only as raise presence in C27/C39 scope).",
    level_note="Trusted: may-raise tables; attrs init synthesis (pydra_sa/sigcheck.py) follows attrs' documented rules for define(kw_only, auto_attribs), field(init, default, factory, kw_only) and leading-underscore stripping.",
)
def check_c13(A: Analysis, col: Collector):
    runs = run_functions(A)
    for R in runs:
        col.scope(R.fn.qualname)
        handler_rule(A, col, R, "C13.handler")
        hit_condition(A, col, R, "C13.hit")
        result_typestate(A, col, R, "C13.typestate")
    errored_latch_rule(A, col, "C13.latch")
    errored_is_reported(A, col, "C13.report")
    python_outputs_cover(A, col, "C13.python-outputs")
    load_and_run_results(A, col, "C13.load_and_run")
    exit_status_rule(A, col, "C13.exit-status")


def exit_status_rule(A: Analysis, col: Collector, rule: str):
    """a shell command that did not exit with status 0 fails its job: every Environment.execute turns a
    non-zero return code into an exception through an exact guard (truthiness or `!= 0`, no narrowing
    conjunct, every path raising) -- `> 0` would let a process killed by a signal (negative code) pass."""
    from .envs import _raises_on_return_code

    env = A.cls("pydra.environments.base.Environment")
    n = 0
    for sub in env.all_subclasses():
        ex = sub.methods.get("execute")
        if ex is None or not any((dotted(c.func) or "").endswith("execute") and c is not None for c in A.calls(ex)):
            continue
        n += 1
        col.scope(ex.qualname)
        if _raises_on_return_code(ex):
            col.ok(rule, f"{sub.name}.execute raises whenever the command's return code is not 0", A.loc(ex.node))
        else:
            col.fail(rule, ex.qualname, "nonzero-exit-not-raised", f"{sub.name}.execute does not raise for every non-zero return code (the guard is missing, narrowed by another condition, or tests `> 0`, which lets the negative code of a process killed by a signal pass): the job is recorded -- and cached -- as a success with partial output", A.loc(ex.node))
    if n < 3:
        raise AnalysisError(f"C13: {n} Environment.execute implementations found; floor 3")


# --------------------------------------------------------------------------- #
# C10: lock protocol
# --------------------------------------------------------------------------- #


def self_readset(A: Analysis, cls: ClassInfo, prop_name: str, _seen=None) -> tuple[set[str], set[str]]:
    """(leaf self-attributes, external callee names) read transitively by a property
    chain on `self`."""
    _seen = _seen if _seen is not None else set()
    leaves: set[str] = set()
    calls: set[str] = set()
    if prop_name in _seen:
        return leaves, calls
    _seen.add(prop_name)
    m = cls.find_method(prop_name)
    if m is None or not m.is_property_getter:
        return {prop_name}, calls
    for n in walk_own(m.node):
        if isinstance(n, ast.Attribute) and isinstance(n.value, ast.Name) and n.value.id == "self" and isinstance(n.ctx, ast.Load):
            l, c = self_readset(A, cls, n.attr, _seen)
            leaves |= l
            calls |= c
        elif isinstance(n, ast.Attribute) and isinstance(n.value, ast.Attribute) and dotted(n.value) and dotted(n.value).startswith("self."):
            # self.task._checksum : record as 'task._checksum'
            if isinstance(n.ctx, ast.Load):
                leaves.add(dotted(n)[5:])
        elif isinstance(n, ast.Call):
            calls |= {q for q in A.callee_names(n, m) if not q.startswith("attr:")}
    return leaves, calls


NONDETERMINISTIC_CALLS = ("os.getpid", "uuid.uuid4", "time.time", "datetime.datetime.now", "datetime.now", "random.random", "socket.gethostname", "id")


def lock_rules(A: Analysis, col: Collector, runs: list[RunFn], rule: str):
    job = A.cls("pydra.engine.job.Job")
    # (a) protocol steps inside the lock
    lock_exprs = []
    for R in runs:
        fn = R.fn
        if R.lock_with is None:
            col.fail(rule, fn.qualname, "no-lock-around-task-body", "the task body is executed without holding the per-identity lock", A.loc(R.task_call))
            continue
        lock_exprs.append(norm(R.lock_with.items[0].context_expr.args[0]) if R.lock_with.items[0].context_expr.args else "?")
        steps = [("cache-check", R.result_calls), ("populate", R.populate_calls), ("task-body", R.task_calls), ("record_error", R.record_calls), ("save-result", R.save_calls)]
        for name, calls in steps:
            if not calls and name in ("cache-check", "populate", "save-result", "record_error"):
                key_ = {"cache-check": ".result", "populate": "_populate_filesystem", "save-result": "save", "record_error": "record_error"}[name]
                for g in A.callees(fn):
                    if g.qualname != fn.qualname and g.module is fn.module and any(norm(c.func, 60).endswith(key_) or norm(c.func, 60) == key_ for c in A.calls(g)):
                        raise AnalysisError(f"{fn.qualname}: protocol step `{name}` is not in the run function but in helper {g.qualname}; the lock-region rule is intraprocedural and cannot decide this shape")
                col.fail(rule, fn.qualname, f"step-missing:{name}", f"protocol step `{name}` not found in the run function", A.loc(fn.node))
                continue
            outside = [c for c in calls if not is_within(c, R.lock_with)]
            if outside:
                col.fail(rule, fn.qualname, f"outside-lock:{name}", f"`{norm(outside[0], 50)}` ({name}) is outside the `with <lock>` block: concurrent submitters can interleave between check and write", A.loc(outside[0]))
            else:
                col.ok(rule, f"{fn.qualname}: step `{name}` ({len(calls)} site(s)) is inside the lock block", A.loc(calls[0]))
        # the cache check precedes populate inside the lock
        if R.result_calls and R.populate_calls:
            if min(c.lineno for c in R.result_calls) < min(c.lineno for c in R.populate_calls):
                col.ok(rule, f"{fn.qualname}: the cache check precedes _populate_filesystem under the lock", A.loc(R.result_calls[0]))
            else:
                col.fail(rule, fn.qualname, "populate-before-cache-check", "_populate_filesystem (which clears the job directory) runs before the cache check", A.loc(R.populate_calls[0]))
    if len(set(lock_exprs)) > 1:
        col.fail(rule, "pydra.engine.job.Job", "lock-names-differ:" + "|".join(sorted(set(lock_exprs))), f"the run functions lock different names {sorted(set(lock_exprs))}: a sync and an async submitter of one identity do not exclude each other", A.loc(runs[0].fn.node))
    elif lock_exprs:
        col.ok(rule, f"both run functions lock `{lock_exprs[0]}`", A.loc(runs[0].lock_with))
    # (b) lock name derives from cache_root and checksum only
    for expr in sorted(set(lock_exprs)):
        if not expr.startswith("self."):
            col.fail(rule, "pydra.engine.job.Job", f"lock-name-not-from-self:{expr}", f"the lock name `{expr}` is not a property of the job", A.loc(runs[0].lock_with))
            continue
        leaves, calls = self_readset(A, job, expr[5:])
        need = {"_checksum", "_cache_root"}
        forbidden_attrs = {l for l in leaves if l.lstrip("_") in ("uid", "name", "state_index") or "uid" in l}
        forbidden_calls = {c for c in calls if c in NONDETERMINISTIC_CALLS}
        if forbidden_attrs or forbidden_calls:
            col.fail(rule, "pydra.engine.job.Job", "lock-name-depends-on:" + "+".join(sorted(forbidden_attrs | forbidden_calls)), f"the lock file name depends on {sorted(forbidden_attrs | forbidden_calls)}: two submitters of the same identity get different locks", A.loc(job.find_method(expr[5:]).node))
        elif not need <= leaves:
            col.fail(rule, "pydra.engine.job.Job", "lock-name-missing:" + "+".join(sorted(need - leaves)), f"the lock file name does not depend on {sorted(need - leaves)}: distinct identities (or cache roots) share one lock or none", A.loc(job.find_method(expr[5:]).node))
        else:
            col.ok(rule, f"lock name `{expr}` reads only {sorted(leaves)} (cache root + checksum), no uid/pid/time", A.loc(job.find_method(expr[5:]).node))
    # the lock file must not live inside the job directory, which _populate_filesystem
    # removes (rmtree) while the lock is held
    lf = job.find_method("lockfile")
    if lf is not None:
        rets = [n for n in walk_own(lf.node) if isinstance(n, ast.Return) and n.value is not None]
        for r in rets:
            v = r.value
            inside = isinstance(v, ast.BinOp) and isinstance(v.op, ast.Div) and norm(v.left) == "self.cache_dir"
            joinpath = isinstance(v, ast.Call) and isinstance(v.func, ast.Attribute) and v.func.attr == "joinpath" and norm(v.func.value) == "self.cache_dir"
            if inside or joinpath:
                col.fail(rule, lf.qualname, "lock-file-inside-job-directory", f"the lock file `{norm(v, 50)}` lives inside the job directory, which _populate_filesystem deletes while the lock is held: a second submitter then acquires a fresh lock and runs the body again", A.loc(r))
            else:
                col.ok(rule, f"the lock file `{norm(v, 50)}` is a sibling of the job directory (not removed by rmtree(cache_dir))", A.loc(r))
    # (c) PydraFileLock
    enter = A.func("pydra.engine.job.PydraFileLock.__aenter__")
    col.scope(enter.qualname)
    cfg = A.cfg(enter)
    acq_nodes = [n for n in cfg.nodes if any(isinstance(c, ast.Call) and isinstance(c.func, ast.Attribute) and c.func.attr == "acquire" for e in n.exprs for c in [e] + list(walk_own(e)))]
    A.anchor("lock.acquire in PydraFileLock.__aenter__", acq_nodes)
    acq_ids = {n.id for n in acq_nodes}
    # boolean flags assigned constants
    flags = set()
    for n in walk_own(enter.node):
        if isinstance(n, ast.Assign) and _const_bool(n.value) is not None:
            for t in n.targets:
                if isinstance(t, ast.Name):
                    flags.add(t.id)

    def transfer(node, st, completed):
        acquired, fl = st
        fl = dict(fl)
        if completed and node.id in acq_ids:
            acquired = True
        if completed and node.kind == "stmt" and isinstance(node.stmt, ast.Assign):
            b = _const_bool(node.stmt.value)
            for t in node.stmt.targets:
                if isinstance(t, ast.Name) and t.id in flags and b is not None:
                    fl[t.id] = b
        return (acquired, tuple(sorted(fl.items())))

    def edge_ok(node, label, st):
        if node.kind in ("loop", "test") and label in ("T", "F"):
            test = node.stmt.test if hasattr(node.stmt, "test") else None
            fl = dict(st[1])
            for name, val in fl.items():
                tl = _truthy_label(test, name) if test is not None else None
                if tl is not None:
                    # edge `tl` is where name is truthy
                    if val and label != tl:
                        return False
                    if not val and label == tl:
                        return False
        return True

    def tokens(node):
        t = A.rm.node_tokens(node, enter)
        if node.id in acq_ids:
            t = set(t) | {"Timeout"}
        return t

    esc = explore(cfg, [(cfg.entry, None)], tokens, state0=(False, ()), transfer=transfer, edge_ok=edge_ok)
    bad = [e for e in esc if e.exit_kind == "return" and not e.state[0]]
    if bad:
        col.fail(rule, enter.qualname, "aenter-returns-without-acquire", "PydraFileLock.__aenter__ can return without a completed lock.acquire(): the async run function enters its critical section unlocked", A.loc(enter.node), witness=format_path(bad[0].path))
    else:
        col.ok(rule, "PydraFileLock.__aenter__ returns only after lock.acquire() completed without Timeout (flag-sensitive path exploration)", A.loc(enter.node))
    timeouts = [e for e in esc if e.exit_kind == "raise" and e.token == "Timeout"]
    if timeouts:
        col.fail(rule, enter.qualname, "aenter-timeout-escapes", "a Timeout of lock.acquire escapes __aenter__ (the waiting submitter fails instead of waiting)", A.loc(enter.node), witness=format_path(timeouts[0].path))
    else:
        col.ok(rule, "PydraFileLock.__aenter__: Timeout of acquire is handled and retried", A.loc(enter.node))
    ex = A.func("pydra.engine.job.PydraFileLock.__aexit__")
    cfgx = A.cfg(ex)
    is_rel = lambda n: any(isinstance(c, ast.Call) and isinstance(c.func, ast.Attribute) and c.func.attr == "release" for e in n.exprs for c in [e] + list(walk_own(e)))
    escx = explore(cfgx, [(cfgx.entry, None)], A.rm.tokens_fn(ex), stop=is_rel)
    if [e for e in escx if e.exit_kind == "return"]:
        col.fail(rule, ex.qualname, "aexit-without-release", "PydraFileLock.__aexit__ can return without releasing the lock", A.loc(ex.node))
    else:
        col.ok(rule, "PydraFileLock.__aexit__ releases the lock on every path", A.loc(ex.node))
    # the lock acquired and the lock released are the same object: self.lock assigned from the acquired local
    assigned = [n for n in walk_own(enter.node) if isinstance(n, ast.Assign) and any(isinstance(t, ast.Attribute) and t.attr == "lock" for t in n.targets)]
    if assigned:
        col.ok(rule, "PydraFileLock.__aenter__ stores the acquired lock object for __aexit__", A.loc(assigned[0]))
    else:
        col.fail(rule, enter.qualname, "acquired-lock-not-stored", "the acquired lock is not stored on the context manager; __aexit__ cannot release it", A.loc(enter.node))


@prop(
    "C10",
    technique="lock-region containment + read-set of the lock name + flag-sensitive path exploration of the async lock + handler/bounded-retry rule for readers",
    decides="the structural obligations of the lock protocol: (a) cache check, directory population, task body, error record and result save are all inside one `with <lock>` block in every run function, the check precedes population, and both run functions lock the same name; (b) the lock name reads only the cache root and the checksum (no uid/pid/time); (c) PydraFileLock.__aenter__ returns only after a completed acquire and __aexit__ always releases; (d) unlocked readers of _result.pklz tolerate partial files (handler for UnpicklingError/EOFError in a bounded loop, return None).",
    not_decided="the interleavings themselves, filelock's own correctness, NFS semantics.",
    level_note="Trusted: filelock.SoftFileLock gives mutual exclusion for equal paths; CPython ast.",
)
def check_c10(A: Analysis, col: Collector):
    runs = run_functions(A)
    for R in runs:
        col.scope(R.fn.qualname)
    lock_rules(A, col, runs, "C10.lock")
    for R in runs:
        hit_condition(A, col, R, "C10.hit-in-lock")
    tolerant_reader(A, col, "C10.reader")
    col.assume("filelock.SoftFileLock provides mutual exclusion between processes for the same lock path")


# --------------------------------------------------------------------------- #
# C19
# --------------------------------------------------------------------------- #


def _calls_in_node(n: Node):
    for e in n.exprs:
        for c in [e] + list(walk_own(e)):
            if isinstance(c, ast.Call):
                yield c


@prop(
    "C19",
    technique="must-pass-through on the run functions' CFGs, memo-shape check of Job.checksum, def-use flow from job.inputs to the task body's arguments",
    decides="(a) every normally returning path that executed the task body passes _check_for_hash_changes(), which raises when Task._hash_changes() is non-empty; (b) the job checksum is memoised before the task body runs (the lock expression reads it) and results are saved under self.cache_dir; (c) every task body receives its input values through the copy-mode-aware staging Job.inputs, and Job.inputs stages with mode=fld.copy_mode. Additionally: Job.inputs stages every field whose type holds a FileSet and that has a value, with the field's own copy_mode and copy_collation; no other condition (e.g. on the copy mode) may skip staging.",
    not_decided="which in-place mutations the content hash can detect; behaviour of user functions that keep references to inputs.",
    level_note="Trusted: flow analysis (flow-insensitive def-use with property inlining bound 2).",
)
def check_c19(A: Analysis, col: Collector):
    runs = run_functions(A)
    for R in runs:
        fn = R.fn
        col.scope(fn.qualname)
        toks = tokens_for(A, R)
        is_chk = lambda n: any(isinstance(c.func, ast.Attribute) and c.func.attr == "_check_for_hash_changes" for c in _calls_in_node(n))
        chk_nodes = [n for n in R.cfg.nodes if is_chk(n)]
        if not chk_nodes:
            col.fail("C19.hash-check", fn.qualname, "no-hash-change-check", "the run function never calls _check_for_hash_changes(): in-place modification of inputs by the task goes unreported", A.loc(fn.node))
        else:
            esc = explore(R.cfg, [(n, None) for n in R.cfg.nodes_containing(R.task_call)], toks, stop=is_chk, start_edges="normal")
            normal = [e for e in esc if e.exit_kind == "return"]
            if normal:
                col.fail("C19.hash-check", fn.qualname, "normal-exit-without-hash-check", "a path that executed the task body returns normally without _check_for_hash_changes()", A.loc(R.task_call), witness=format_path(normal[0].path))
            else:
                col.ok("C19.hash-check", f"{fn.qualname}: every normal exit after the task body passes _check_for_hash_changes()", A.loc(chk_nodes[0].stmt))
        # (b) checksum memoised before the body
        if R.lock_with is not None:
            reads = any(isinstance(a, ast.Attribute) and a.attr in ("lockfile", "cache_dir", "checksum") and dotted(a.value) == "self" for it in R.lock_with.items for a in ast.walk(it.context_expr))
            if reads:
                col.ok("C19.identity", f"{fn.qualname}: the lock expression evaluates self.lockfile -> cache_dir -> checksum before the task body (memoised identity)", A.loc(R.lock_with))
            else:
                col.fail("C19.identity", fn.qualname, "checksum-not-read-before-body", "the job checksum is not evaluated before the task body runs: the result would be stored under the identity of the modified inputs", A.loc(R.lock_with))
        for c in R.save_calls:
            a0 = c.args[0] if c.args else None
            if a0 is not None and norm(a0) == "self.cache_dir":
                col.ok("C19.identity", f"{fn.qualname}: result saved under self.cache_dir", A.loc(c))
            else:
                col.fail("C19.identity", fn.qualname, f"save-target:{norm(a0, 30)}", "the result is not saved under self.cache_dir", A.loc(c))
    memo_property_ok(A, col, "C19.identity")
    job = A.cls("pydra.engine.job.Job")
    chk = job.find_method("checksum")
    if any(isinstance(n, ast.Attribute) and n.attr == "_checksum" and dotted(n.value) == "self.task" for n in walk_own(chk.node)):
        col.ok("C19.identity", "Job.checksum is the task's _checksum", A.loc(chk.node))
    else:
        col.fail("C19.identity", chk.qualname, "checksum-not-task-checksum", "Job.checksum no longer derives from self.task._checksum", A.loc(chk.node))
    # _check_for_hash_changes raises when changes exist
    cf = A.func("pydra.engine.job.Job._check_for_hash_changes")
    cfg = A.cfg(cf)
    var = None
    for n in walk_own(cf.node):
        if isinstance(n, ast.Assign) and isinstance(n.value, ast.Call) and isinstance(n.value.func, ast.Attribute) and n.value.func.attr == "_hash_changes":
            var = n.targets[0].id if isinstance(n.targets[0], ast.Name) else None
    if var is None:
        raise AnalysisError("_check_for_hash_changes: call to Task._hash_changes not found")
    tests = [n for n in cfg.nodes if n.kind == "test" and isinstance(n.stmt, ast.If) and _truthy_label(n.stmt.test, var) == "T"]
    good = False
    for t in tests:
        esc = explore(cfg, [(m, None) for l, m in t.succ if l == "T"], A.rm.tokens_fn(cf))
        if esc and all(e.exit_kind == "raise" for e in esc):
            good = True
    if good:
        col.ok("C19.hash-check", "_check_for_hash_changes raises on every path where hash_changes is non-empty", A.loc(cf.node))
    else:
        col.fail("C19.hash-check", cf.qualname, "hash-changes-not-raised", "_check_for_hash_changes does not raise when Task._hash_changes() reports changes", A.loc(cf.node))
    hc = A.func("pydra.compose.base.task.Task._hash_changes")
    txt = " ".join(norm(n) for n in walk_own(hc.node) if isinstance(n, ast.Return))
    if "_compute_hashes" in " ".join(norm(n) for n in walk_own(hc.node) if isinstance(n, ast.Assign)) and "self._hashes" in txt and "!=" in txt:
        col.ok("C19.hash-check", "Task._hash_changes recomputes the hashes and compares every key with the recorded self._hashes", A.loc(hc.node))
    else:
        col.fail("C19.hash-check", hc.qualname, "hash-changes-comparison", "Task._hash_changes no longer compares recomputed hashes with the recorded ones", A.loc(hc.node))
    # every per-field hash is computed afresh from the current value (no re-use of earlier hashes,
    # no type-based shortcuts): otherwise an in-place change of that value goes unnoticed
    ch = A.func("pydra.compose.base.task.Task._compute_hashes")
    col.scope(ch.qualname, hc.qualname)
    rets = [n for n in walk_own(ch.node) if isinstance(n, ast.Return) and isinstance(n.value, ast.Tuple) and len(n.value.elts) == 2]
    if not rets or not isinstance(rets[0].value.elts[1], ast.Name):
        raise AnalysisError("Task._compute_hashes: `return <hash>, <per-field hashes>` not found")
    hv = rets[0].value.elts[1].id
    sources = []
    for n in walk_own(ch.node):
        if isinstance(n, ast.Assign):
            for t in n.targets:
                if isinstance(t, ast.Name) and t.id == hv:
                    if isinstance(n.value, ast.DictComp):
                        sources.append((n, n.value.value, bool(n.value.generators[0].ifs)))
                    elif not (isinstance(n.value, ast.Dict) and not n.value.keys):
                        sources.append((n, n.value, False))
                if isinstance(t, ast.Subscript) and isinstance(t.value, ast.Name) and t.value.id == hv:
                    sources.append((n, n.value, False))
    okh = bool(sources)
    for n, v, filtered in sources:
        fresh = isinstance(v, ast.Call) and any(q.endswith("hash_function") or q.endswith("hash_object") or q.endswith("hash_single") for q in A.callee_names(v, ch))
        if not fresh or filtered:
            okh = False
            col.fail("C19.hash-check", ch.qualname, "field-hash-not-recomputed", f"`{norm(n, 70)}`: a per-field hash is not computed from the field's current value (re-used / filtered): an in-place modification of that input is not detected by the hash-change check", A.loc(n))
    if okh:
        col.ok("C19.hash-check", "Task._compute_hashes computes every per-field hash afresh with hash_function(value)", A.loc(sources[0][0]))
    calls_ch = [c for c in A.calls(hc) if isinstance(c.func, ast.Attribute) and c.func.attr == "_compute_hashes"]
    if calls_ch and all(not c.args and not c.keywords for c in calls_ch):
        col.ok("C19.hash-check", "Task._hash_changes recomputes with self._compute_hashes() (no shortcuts passed in)", A.loc(calls_ch[0]))
    else:
        col.fail("C19.hash-check", hc.qualname, "hash-changes-recompute-args", "Task._hash_changes passes arguments to _compute_hashes (partial recomputation)", A.loc(hc.node))
    # (c) staged inputs are what the body sees
    staged_inputs_rule(A, col, "C19.staging")
    from .misc import _copy_nested_core

    _copy_nested_core(A, col, "C19.staging")


def staging_loop_rule(A: Analysis, col: Collector, rule: str):
    """Job.inputs hands every file-typed field that has a value to copy_nested_files with the field's own
    mode and collation: the only reasons not to are `the type holds no FileSet` and `no value`.  Whether a
    file-set can be left where it is depends on mode AND collation and is FileSet.copy's decision."""
    ji = A.func("pydra.engine.job.Job.inputs")
    col.scope(ji.qualname)
    calls = [c for c in A.calls(ji) if any(q.endswith("copy_nested_files") for q in A.callee_names(c, ji))]
    A.anchor("copy_nested_files(...) in Job.inputs", calls)
    for c in calls:
        loop = next((p_ for p_ in parents(c) if isinstance(p_, ast.For)), None)
        fvar = loop.target.id if loop is not None and isinstance(loop.target, ast.Name) else None
        if fvar is None:
            raise AnalysisError("C34: the field loop around copy_nested_files in Job.inputs was not recognised")
        conds = []
        for p_ in parents(c):
            if p_ is loop:
                break
            if isinstance(p_, ast.If):
                conds += p_.test.values if isinstance(p_.test, ast.BoolOp) and isinstance(p_.test.op, ast.And) else [p_.test]
        skips = [(n, next((g for g in parents(n) if isinstance(g, ast.If)), None)) for n in ast.walk(loop) if isinstance(n, ast.Continue)]
        bad = []
        for cd_ in conds:
            is_type = any(isinstance(k, ast.Call) and isinstance(k.func, ast.Attribute) and k.func.attr == "contains_type" for k in ast.walk(cd_))
            is_value = isinstance(cd_, ast.Name) or (isinstance(cd_, ast.Compare) and isinstance(cd_.ops[0], (ast.IsNot, ast.Is)))
            if not (is_type or is_value):
                bad.append(cd_)
        for n_, g_ in skips:
            bad.append(g_.test if g_ is not None else n_)
        if bad:
            col.fail(rule, ji.qualname, f"staging-skipped-when:{shape(bad[0], 40)}", f"Job.inputs does not stage a file-typed field with a value when `{norm(bad[0], 60)}`: the copy mode alone does not decide whether files may stay where they are (a collation of siblings/adjacent requires scattered files to be brought together), so the field's declared staging is not applied", A.loc(bad[0]))
        else:
            col.ok(rule, f"Job.inputs stages every field whose type holds a FileSet and that has a value ({len(conds)} guard(s): type, value)", A.loc(c))
        kws = {k.arg: norm(k.value) for k in c.keywords}
        if kws.get("mode") == f"{fvar}.copy_mode" and kws.get("collation") == f"{fvar}.copy_collation":
            col.ok(rule, "copy_nested_files receives the field's own copy_mode and copy_collation", A.loc(c))
        else:
            col.fail(rule, ji.qualname, f"staging-args:{kws.get('mode')}:{kws.get('collation')}", "copy_nested_files is not given the field's own copy_mode / copy_collation", A.loc(c))


def staged_inputs_rule(A: Analysis, col: Collector, rule: str):
    staging_loop_rule(A, col, rule)
    task = A.cls("pydra.compose.base.task.Task")
    n_sites = 0
    # python task: the user function's arguments
    pr = A.func("pydra.compose.python.PythonTask._run")
    col.scope(pr.qualname)
    for c in A.calls(pr):
        callee = A.expand(c.func, pr)
        if isinstance(callee, ast.Attribute) and callee.attr == "function" and dotted(callee.value) == "self":
            n_sites += 1
            roots = None
            for k in c.keywords:
                if k.arg is None:
                    roots = A.flow.derives(k.value, pr)
            for a in c.args:
                r2 = A.flow.derives(a, pr)
                if roots is None:
                    roots = r2
                else:
                    roots.merge(r2)
            attrs_ = roots.attrs if roots else set()
            if any(a == "job.inputs" or a.endswith(".inputs") and a.startswith("job") for a in attrs_):
                col.ok(rule, "PythonTask._run passes values derived from job.inputs (staged copies) to the function", A.loc(c))
            else:
                src = sorted(x for x in (roots.calls if roots else []) if not x.startswith("attr:"))
                col.fail(rule, pr.qualname, "python-body-bypasses-job.inputs:" + "+".join(s.rsplit(".", 1)[-1] for s in src), f"the python function is called with values from {src or sorted(attrs_)} rather than from job.inputs: file inputs declared copy_mode=copy are handed over as the originals and can be modified in place", A.loc(c))
    # shell task: every environment builds argv from job.inputs (or get_bindings' remapped copy of it)
    env = A.cls("pydra.environments.base.Environment")
    for sub in env.all_subclasses():
        ex = sub.methods.get("execute")
        if ex is None:
            continue
        col.scope(ex.qualname)
        for c in A.calls(ex):
            if isinstance(c.func, ast.Attribute) and c.func.attr == "_command_args":
                n_sites += 1
                v = kwarg(c, "values") or (c.args[0] if c.args else None)
                roots = A.flow.derives(v, ex)
                direct = "job.inputs" in roots.attrs
                via = any(q.endswith("get_bindings") for q in roots.calls)
                if direct or via:
                    col.ok(rule, f"{ex.qualname}: argv is built from {'job.inputs' if direct else 'get_bindings(job) (remapped copy of job.inputs)'}", A.loc(c))
                else:
                    col.fail(rule, ex.qualname, f"argv-values:{norm(v, 30)}", f"the command line is built from `{norm(v, 40)}`, not from the staged job.inputs", A.loc(c))
    gb = A.func("pydra.environments.base.Container.get_bindings")
    rets = [n for n in walk_own(gb.node) if isinstance(n, ast.Return) and isinstance(n.value, ast.Tuple) and len(n.value.elts) == 2]
    A.anchor("return bindings, values in get_bindings", rets)
    for r in rets:
        roots = A.flow.derives(r.value.elts[1], gb)
        if "job.inputs" in roots.attrs:
            col.ok(rule, "Container.get_bindings returns values derived from job.inputs", A.loc(r))
        else:
            col.fail(rule, gb.qualname, "bindings-values-not-from-job.inputs", "the values returned by get_bindings do not derive from job.inputs", A.loc(r))
    # Job.inputs stages with the field's copy mode
    ji = A.cls("pydra.engine.job.Job").find_method("inputs")
    col.scope(ji.qualname)
    cs = [c for c in A.calls(ji) if any(q.endswith("copy_nested_files") for q in A.callee_names(c, ji))]
    A.anchor("copy_nested_files call in Job.inputs", cs)
    for c in cs:
        want = {"mode": "copy_mode", "collation": "copy_collation", "dest_dir": "self.cache_dir"}
        for k, suffix in want.items():
            v = kwarg(c, k)
            if v is not None and norm(v).endswith(suffix):
                col.ok(rule, f"Job.inputs: copy_nested_files({k}={norm(v)})", A.loc(c))
            else:
                col.fail(rule, ji.qualname, f"staging-arg:{k}={norm(v, 30)}", f"Job.inputs stages files with {k}=`{norm(v, 30)}` instead of the field's {suffix}", A.loc(c))
    if n_sites < 5:
        raise AnalysisError(f"C19: {n_sites} task-body argument sites found, floor 5 (python function + 4 environments)")


# --------------------------------------------------------------------------- #
# C31
# --------------------------------------------------------------------------- #


def _quantifier(node: ast.AST, over_attr: str) -> tuple[str, ast.AST] | None:
    """(`any`|`all`, call) for the first any(...)/all(...) over a generator whose iterable is `<x>.<over_attr>`"""
    for c in ast.walk(node):
        if isinstance(c, ast.Call) and isinstance(c.func, ast.Name) and c.func.id in ("any", "all") and c.args and isinstance(c.args[0], (ast.GeneratorExp, ast.ListComp)):
            it = c.args[0].generators[0].iter
            if isinstance(it, ast.Attribute) and it.attr == over_attr:
                return c.func.id, c
    return None


def rule_shape(A: Analysis, col: Collector, rule: str):
    """the quantifier structure of the rule evaluation, as far as it is visible in the shape of the code:
    a requirement set holds iff ALL its requirements hold; a field's requirements are violated iff NOT ANY
    of its requirement sets holds; an exclusive group is violated iff MORE THAN ONE member is set, or none
    is set and the group does not allow none; every violation found is returned.  An unrecognised shape is
    an analysis error (the anchor moved), never a violation."""
    rs = A.func("pydra.compose.base.field.RequirementSet.satisfied")
    col.scope(rs.qualname)
    q = _quantifier(rs.node, "requirements")
    if q is None:
        raise AnalysisError("C31: RequirementSet.satisfied is no longer an any()/all() over self.requirements")
    rets = [n for n in walk_own(rs.node) if isinstance(n, ast.Return)]
    if q[0] == "all" and len(rets) == 1 and rets[0].value is q[1] and not q[1].args[0].generators[0].ifs:
        col.ok(rule, "RequirementSet.satisfied = all(req.satisfied(inputs) for req in self.requirements)", A.loc(q[1]))
    else:
        col.fail(rule, rs.qualname, f"requirement-set-quantifier:{q[0]}", f"a requirement set is evaluated as `{norm(rets[0].value if rets else q[1], 70)}`: the property requires ALL its fields to be set (a set with one satisfied member would wrongly allow the task to run)", A.loc(q[1]))
    rv = A.func("pydra.compose.base.task.Task._rule_violations")
    col.scope(rv.qualname)
    # the evaluation may be split over private helper methods of Task that _rule_violations calls
    tcls_ = rv.cls
    rv_scope = [rv] + [tcls_.methods[c.func.attr] for c in A.calls(rv) if isinstance(c.func, ast.Attribute) and dotted(c.func.value) == "self" and tcls_ is not None and c.func.attr in tcls_.methods]
    for h_ in rv_scope[1:]:
        col.scope(h_.qualname)
    q2 = next((q for q in (_quantifier(f_.node, "requires") for f_ in rv_scope) if q is not None), None)
    if q2 is None:
        raise AnalysisError("C31: Task._rule_violations no longer quantifies over field.requires with any()/all()")
    par = getattr(q2[1], "_parent", None)
    negated = isinstance(par, ast.UnaryOp) and isinstance(par.op, ast.Not)
    inner_sat = any(isinstance(c, ast.Call) and isinstance(c.func, ast.Attribute) and c.func.attr == "satisfied" for c in ast.walk(q2[1].args[0].elt))
    if q2[0] == "any" and negated and inner_sat and not q2[1].args[0].generators[0].ifs:
        col.ok(rule, "a set field's requirements are violated iff `not any(rs.satisfied(self) for rs in field.requires)`", A.loc(q2[1]))
    else:
        col.fail(rule, rv.qualname, f"requires-quantifier:{'not-' if negated else ''}{q2[0]}", f"the requirements of a field are tested with `{norm(par if negated else q2[1], 70)}`: the property asks for AT LEAST ONE satisfied requirement set", A.loc(q2[1]))
    # exclusive groups
    xloops = [l for f_ in rv_scope for l in walk_own(f_.node) if isinstance(l, ast.For) and isinstance(l.iter, ast.Attribute) and l.iter.attr == "_xor"]
    A.anchor("loop over self._xor in Task._rule_violations", xloops)
    appended_lists = set()
    for l in xloops:
        tests = [n for n in ast.walk(l) if isinstance(n, ast.If)]
        many = none = None
        for t in tests:
            for cmp_ in [k for k in ast.walk(t.test) if isinstance(k, ast.Compare)]:
                if isinstance(cmp_.left, ast.Call) and isinstance(cmp_.left.func, ast.Name) and cmp_.left.func.id == "len" and len(cmp_.ops) == 1 and isinstance(cmp_.comparators[0], ast.Constant):
                    many = (t, cmp_)
            if isinstance(t.test, ast.BoolOp) and isinstance(t.test.op, ast.And) and any(isinstance(v, ast.UnaryOp) and isinstance(v.op, ast.Not) for v in t.test.values) and any(isinstance(v, ast.Compare) and isinstance(v.ops[0], ast.NotIn) and isinstance(v.left, ast.Constant) and v.left.value is None for v in t.test.values):
                none = t
        if many is None:
            raise AnalysisError("C31: the `more than one member set` test of the xor loop was not recognised")
        t, cmp_ = many
        op, k = cmp_.ops[0], cmp_.comparators[0].value
        if (isinstance(op, ast.Gt) and k == 1) or (isinstance(op, ast.GtE) and k == 2):
            col.ok(rule, f"an exclusive group is violated when `{norm(cmp_)}` (more than one member set)", A.loc(cmp_))
        else:
            col.fail(rule, rv.qualname, f"xor-threshold:{type(op).__name__}{k}", f"an exclusive group is reported only when `{norm(cmp_)}`: the property allows AT MOST ONE member of a group to be set", A.loc(cmp_))
        if none is not None and len(none.test.values) == 2:
            col.ok(rule, f"a group with no member set is violated unless it allows none (`{norm(none.test)}`)", A.loc(none))
        else:
            col.fail(rule, rv.qualname, "xor-none-set-not-reported", "the `exactly one unless the group allows none` case is no longer reported as `not <set members> and None not in <group>`", A.loc(l))
    # every violation found is returned: one return, of the list every append targets
    rets = [n for n in walk_own(rv.node) if isinstance(n, ast.Return)]
    apps = [c for c in A.calls(rv) if isinstance(c.func, ast.Attribute) and c.func.attr == "append" and isinstance(c.func.value, ast.Name)]
    A.anchor("errors.append(...) in Task._rule_violations", apps)
    tgt = {c.func.value.id for c in apps}
    # messages collected by a helper that returns its own list count when that list is extended into the returned one
    n_helper = 0
    helpers_ok = True
    for h_ in rv_scope[1:]:
        happs = [c for c in A.calls(h_) if isinstance(c.func, ast.Attribute) and c.func.attr == "append" and isinstance(c.func.value, ast.Name)]
        if not happs:
            continue
        hrets = [n for n in walk_own(h_.node) if isinstance(n, ast.Return)]
        own = len(hrets) == 1 and isinstance(hrets[0].value, ast.Name) and {c.func.value.id for c in happs} == {hrets[0].value.id}
        consumed = any(isinstance(c.func, ast.Attribute) and c.func.attr in ("extend", "__iadd__") and isinstance(c.func.value, ast.Name) and c.func.value.id in tgt and c.args and isinstance(c.args[0], ast.Call) and isinstance(c.args[0].func, ast.Attribute) and c.args[0].func.attr == h_.name for c in A.calls(rv))
        if own and consumed:
            n_helper += len(happs)
        else:
            helpers_ok = False
    if helpers_ok and len(rets) == 1 and isinstance(rets[0].value, ast.Name) and tgt == {rets[0].value.id} and len(apps) + n_helper >= 4:
        col.ok(rule, f"all {len(apps) + n_helper} violation messages are appended to the one list that is returned", A.loc(rets[0]))
    else:
        col.fail(rule, rv.qualname, "violations-not-all-returned", f"violations are appended to {sorted(tgt)} ({len(apps)} sites) but the function returns `{norm(rets[0].value) if rets else None}` ({len(rets)} return statements)", A.loc(rv.node))
    # nothing skips the checks of a field but a lazy value
    conts = [n for n in walk_own(rv.node) if isinstance(n, (ast.Continue, ast.Break))]
    for c_ in conts:
        guard = next((p_ for p_ in parents(c_) if isinstance(p_, ast.If)), None)
        if isinstance(c_, ast.Continue) and guard is not None and any(q_.endswith("is_lazy") for k in ast.walk(guard.test) if isinstance(k, ast.Call) for q_ in A.callee_names(k, rv)) and not isinstance(guard.test, ast.BoolOp):
            col.ok(rule, "fields holding a lazy value are skipped (checked again when the value is resolved)", A.loc(c_))
        else:
            col.fail(rule, rv.qualname, f"rule-check-skipped:{shape(guard.test, 50) if guard is not None else 'unconditional'}", f"`{type(c_).__name__.lower()}` under `{norm(guard.test, 60) if guard is not None else 'no condition'}` skips the rule checks of a field whose value is known", A.loc(c_))


@prop(
    "C31",
    technique="must-pass-through (dominance over CFGs) + who-may-call over the resolved call graph",
    decides="_check_rules() is passed on every normally completing path of Job.__init__ (so no Job exists for a task violating its rules); Submitter.__call__ checks the rules before constructing the job; Workflow.construct checks every node's rules; ShellTask._command_args re-checks before building argv; _check_rules raises when _rule_violations() is non-empty; task bodies (<task>._run/_run_async) are called only from the run functions.",
    not_decided="value-level exactness of Task._rule_violations (which values count as set); decided structurally: the quantifier shape all/not-any, the xor threshold, the none-set case, that every violation is returned and that only lazy values skip the checks.",
    level_note="Trusted: class-hierarchy call resolution of pydra_sa.",
)
def check_c31(A: Analysis, col: Collector):
    def must_pass(fn: FuncInfo, what: str, before_pred=None):
        cfg = A.cfg(fn)
        is_chk = lambda n: any(isinstance(c.func, ast.Attribute) and c.func.attr == "_check_rules" for c in _calls_in_node(n))
        chk = [n for n in cfg.nodes if is_chk(n)]
        if not chk:
            col.fail("C31.must-check", fn.qualname, "no-_check_rules-call", f"{what}: _check_rules() is not called", A.loc(fn.node))
            return
        if before_pred is None:
            esc = explore(cfg, [(cfg.entry, None)], A.rm.tokens_fn(fn), stop=is_chk)
            if [e for e in esc if e.exit_kind == "return"]:
                col.fail("C31.must-check", fn.qualname, "completes-without-_check_rules", f"{what}: a normally completing path skips _check_rules()", A.loc(fn.node))
            else:
                col.ok("C31.must-check", f"{what}: every normally completing path passes _check_rules()", A.loc(chk[0].stmt))
        else:
            targets = [n for n in cfg.nodes if before_pred(n)]
            A.anchor(f"job construction in {fn.qualname}", targets)
            ids = {n.id for n in chk}
            for t in targets:
                if cfg.dominated_by(t, lambda m: m.id in ids):
                    col.ok("C31.must-check", f"{what}: _check_rules() dominates `{t.text(40)}`", A.loc(t.stmt))
                else:
                    col.fail("C31.must-check", fn.qualname, f"not-dominated:{t.text(30)}", f"{what}: `{t.text(40)}` is reachable without _check_rules()", A.loc(t.stmt))

    ji = A.func("pydra.engine.job.Job.__init__")
    col.scope(ji.qualname)
    must_pass(ji, "Job.__init__")
    sc = A.func("pydra.engine.submitter.Submitter.__call__")
    col.scope(sc.qualname)
    is_job_ctor = lambda n: any("pydra.engine.job.Job" in A.callee_names(c, sc) for c in _calls_in_node(n))
    must_pass(sc, "Submitter.__call__", is_job_ctor)
    ca = A.func("pydra.compose.shell.task.ShellTask._command_args")
    must_pass(ca, "ShellTask._command_args")
    wc = A.func("pydra.engine.workflow.Workflow.construct")
    col.scope(wc.qualname)
    cs = [c for c in A.calls(wc) if isinstance(c.func, ast.Attribute) and c.func.attr == "_check_rules"]
    if cs and any(isinstance(p, ast.For) for p in parents(cs[0])):
        col.ok("C31.must-check", "Workflow.construct checks the rules of every node's task (inside the loop over nodes)", A.loc(cs[0]))
    else:
        col.fail("C31.must-check", wc.qualname, "nodes-not-rule-checked", "Workflow.construct no longer checks the rules of every node", A.loc(wc.node))
    # _check_rules raises when violations exist
    cr = A.func("pydra.compose.base.task.Task._check_rules")
    cfg = A.cfg(cr)
    tests = [n for n in cfg.nodes if n.kind == "test" and "_rule_violations" in norm(A.expand(n.stmt.test, cr))]
    good = False
    for t in tests:
        esc = explore(cfg, [(m, None) for l, m in t.succ if l == "T"], A.rm.tokens_fn(cr))
        if esc and all(e.exit_kind == "raise" for e in esc):
            good = True
    if good:
        col.ok("C31.raise", "Task._check_rules raises when _rule_violations() is non-empty", A.loc(cr.node))
    else:
        col.fail("C31.raise", cr.qualname, "violations-not-raised", "Task._check_rules does not raise on rule violations", A.loc(cr.node))
    if any("attrs.validate" in A.callee_names(c, cr) for c in A.calls(cr)):
        col.ok("C31.raise", "Task._check_rules runs attrs.validate (allowed_values / field validators)", A.loc(cr.node))
    else:
        col.fail("C31.raise", cr.qualname, "no-attrs-validate", "Task._check_rules no longer runs the attrs validators", A.loc(cr.node))
    rule_shape(A, col, "C31.shape")
    # who may call the task body
    run_qn = {R.fn.qualname for R in run_functions(A)}
    n = 0
    for f in A.repo.all_functions():
        for c in A.calls(f):
            if isinstance(c.func, ast.Attribute) and c.func.attr in TASK_RUN_ATTRS:
                tg = A.resolve(c, f).repo_targets
                recv = dotted(c.func.value) or ""
                if tg or recv.endswith("task") or recv == "self":
                    n += 1
                    if f.qualname in run_qn:
                        col.ok("C31.who-may-call", f"task body `{norm(c, 40)}` is called from run function {f.qualname}", A.loc(c))
                    else:
                        col.fail("C31.who-may-call", f.qualname, f"task-body-called-outside-run-function:{c.func.attr}", f"`{norm(c, 50)}` calls a task body outside the run functions (no Job, hence no rule check, lock or cache protocol)", A.loc(c))
    if n < 2:
        raise AnalysisError("C31: fewer than 2 task-body call sites found")


# --------------------------------------------------------------------------- #
# C17: sibling agreement of the two run functions and the two workflow expanders
# --------------------------------------------------------------------------- #

# result-affecting protocol steps, recognised by resolved callee / attribute
def _step_of_call(A: Analysis, fn: FuncInfo, c: ast.Call, saved_cwd: set[str]) -> str | None:
    names = A.callee_names(c, fn)
    f = c.func
    attr = f.attr if isinstance(f, ast.Attribute) else None
    if any(n in ("filelock.SoftFileLock",) or n.endswith(".PydraFileLock") for n in names):
        return "lock(" + (norm(c.args[0]) if c.args else "") + ")"
    if any(q.endswith("Job.result") for q in names):
        return "cache-check"
    if any(q.endswith("._populate_filesystem") for q in names):
        return "populate"
    if RESULT_CLS in names:
        e = kwarg(c, "errored")
        return f"Result(errored={norm(e)})"
    if attr in TASK_RUN_ATTRS:
        return "task-body"
    if attr == "_from_job":
        return "outputs-from-job"
    if RECORD_ERROR_FN in names:
        return "record_error"
    if SAVE_FN in names and kwarg(c, "result") is not None:
        return "save-result"
    if attr == "_check_for_hash_changes":
        return "check-hash-changes"
    if attr in ("pre_run", "pre_run_task", "post_run_task", "post_run") and (dotted(f.value) or "").endswith("hooks"):
        return "hook:" + attr
    if attr in ("start_audit", "monitor", "finalize_audit"):
        return "audit:" + attr
    if attr == "unlink":
        return "unlink-info"
    if "os.chdir" in names and c.args and isinstance(c.args[0], ast.Name) and c.args[0].id in saved_cwd:
        return "restore-cwd"
    return None


def _ordered_nodes(node: ast.AST):
    """source-order traversal of own-scope nodes."""
    for ch in ast.iter_child_nodes(node):
        if isinstance(ch, (ast.FunctionDef, ast.AsyncFunctionDef, ast.ClassDef, ast.Lambda)):
            continue
        yield ch
        yield from _ordered_nodes(ch)


def protocol_steps(A: Analysis, fn: FuncInfo, depth: int = 2) -> list[str]:
    saved = _saved_cwd_vars(A, fn)
    out = []
    for n in _ordered_nodes(fn.node):
        if isinstance(n, ast.Call):
            s = _step_of_call(A, fn, n, saved)
            if s:
                out.append(s)
            elif depth > 0:
                # inline repo helpers (so extracting a common helper is silent)
                for t in A.resolve(n, fn).repo_targets:
                    if isinstance(t, FuncInfo) and t.cls is fn.cls and t.name.startswith("_") and t.name not in ("_populate_filesystem", "_check_for_hash_changes"):
                        out.extend(protocol_steps(A, t, depth - 1))
        elif isinstance(n, ast.Assign):
            for t in n.targets:
                if isinstance(t, ast.Attribute) and t.attr == "errored" and isinstance(t.value, ast.Name):
                    out.append(f"errored={norm(n.value)}")
        elif isinstance(n, ast.If) and "errored" in norm(n.test) and "is not None" in norm(n.test):
            out.append("hit-test(" + shape(n.test).replace(" ", "") + ")")
        elif isinstance(n, ast.ExceptHandler):
            out.append("except:" + norm(n.type))
        elif isinstance(n, ast.Raise) and n.exc is None:
            out.append("reraise")
    # AST order visits call arguments after the call node; normalise 'lock' first is fine
    return out


@prop(
    "C17",
    technique="sibling agreement: ordered protocol-step extraction (resolved callees, helper inlining bound 2) from the sync/async run functions and the sync/async workflow expanders",
    decides="the two run functions perform the same result-affecting protocol steps in the same order (lock name, hit test, populate, Result state, hooks, task body, outputs, error marking, record, save, restore, hash check), and the two workflow expanders agree on construct -> execution_graph -> return_values -> get_runnable_tasks -> loop condition -> rerun expression; the worker's run() forwards to the job's run function with the same rerun value; the scheduler's done/errored decision for a queued job is not taken from the cache alone (known findings: it is). Additionally: both expanders have the same exits outside their scheduling loop. The evidence that the worker has returned from a job must be tested before the cache lookup in the same `and`, and the per-submission record must be emptied before the job is handed to the worker.",
    not_decided="equality of outputs across workers and schedules (behavioural; the premise is task determinism).",
    level_note="Audited exceptions: os.chdir(cache_dir) and audit_task only in the sync run function; `self._errored = True` only in run_async (each listed in rules/runfn.py with its reason).",
)
def check_c17(A: Analysis, col: Collector):
    runs = run_functions(A)
    by = {R.fn.name: R for R in runs}
    if "run" not in by or "run_async" not in by:
        raise AnalysisError("C17: Job.run / Job.run_async pair not found")
    s1 = protocol_steps(A, by["run"].fn)
    s2 = protocol_steps(A, by["run_async"].fn)
    col.scope(by["run"].fn.qualname, by["run_async"].fn.qualname)
    col.notes["run_steps"] = s1
    col.notes["run_async_steps"] = s2
    if len(s1) < 15:
        raise AnalysisError(f"C17: only {len(s1)} protocol steps extracted from Job.run; floor 15")
    if s1 == s2:
        col.ok("C17.run-pair", f"Job.run and Job.run_async perform the same {len(s1)} protocol steps in the same order", A.loc(by["run"].fn.node))
    else:
        import difflib

        sm = difflib.SequenceMatcher(a=s1, b=s2, autojunk=False)
        for tag, i1, i2, j1, j2 in sm.get_opcodes():
            if tag == "equal":
                continue
            only_sync, only_async = s1[i1:i2], s2[j1:j2]
            sig = f"{tag}:sync[{','.join(only_sync)}]:async[{','.join(only_async)}]"
            col.fail("C17.run-pair", "pydra.engine.job.Job", sig, f"the sync and async run functions disagree: run has {only_sync or 'nothing'} where run_async has {only_async or 'nothing'}", A.loc(by["run_async"].fn.node))
    for i, st in enumerate(s1):
        col.ok("C17.run-pair.step", f"step {i}: {st}", "")
    # expanders
    sub = A.cls("pydra.engine.submitter.Submitter")
    seqs = {}
    early_exits = {}
    for name in ("expand_workflow", "expand_workflow_async"):
        fn = sub.find_method(name)
        if fn is None:
            raise AnalysisError(f"Submitter.{name} not found")
        col.scope(fn.qualname)
        steps = []

        def _inlined(node_, depth_=1):
            """source-order nodes, with calls to private methods of the submitter replaced by the nodes of
            the method's body (one level): extracting part of an expander into a helper changes nothing"""
            for n_ in _ordered_nodes(node_):
                yield n_
                if depth_ > 0 and isinstance(n_, ast.Call) and isinstance(n_.func, ast.Attribute) and dotted(n_.func.value) == "self" and n_.func.attr.startswith("_") and n_.func.attr in sub.methods and n_.func.attr not in ("_check_locks",):
                    yield from _inlined(sub.methods[n_.func.attr].node, depth_ - 1)

        for n in _inlined(fn.node):
            if isinstance(n, ast.Call) and isinstance(n.func, ast.Attribute):
                a = n.func.attr
                if a in ("construct", "execution_graph", "get_runnable_tasks"):
                    steps.append(a)
                elif a in ("run", "submit") and (dotted(n.func.value) or "").endswith("worker"):
                    steps.append(f"worker.{a}(rerun={norm(kwarg(n, 'rerun'))})")
            elif isinstance(n, ast.Assign) and any(isinstance(t, ast.Attribute) and t.attr == "return_values" for t in n.targets):
                keys = sorted(norm(k) for k in n.value.keys) if isinstance(n.value, ast.Dict) else [norm(n.value)]
                steps.append("return_values=" + ",".join(keys))
            elif isinstance(n, ast.While):
                if any(isinstance(a, ast.Attribute) and a.attr == "nodes" for a in ast.walk(n.test)) and any(isinstance(a, ast.Attribute) and a.attr == "done" for a in ast.walk(n.test)):
                    # which other collections keep the loop alive: local lists tested for truth
                    extra = sorted(v.id for v in (n.test.values if isinstance(n.test, ast.BoolOp) else []) if isinstance(v, ast.Name))
                    steps.append("loop-until-all-done" + ("+runnable-list" if extra else ""))
        seqs[name] = steps
        # exits taken before / outside the scheduling loop (an early `return` skips every node that has
        # not been offered yet): both expanders must have the same ones
        loop_nodes = [w for w in walk_own(fn.node) if isinstance(w, ast.While)]
        exits = []
        for n in walk_own(fn.node):
            if isinstance(n, ast.Return) and not any(is_within(n, w) for w in loop_nodes):
                # the guarding tests, outermost first
                tests = [shape(p_.test, 60) for p_ in parents(n) if isinstance(p_, ast.If)]
                exits.append("return-outside-loop[" + " & ".join(reversed(tests)) + "]")
        early_exits[name] = sorted(exits)
    col.notes["expander_steps"] = seqs
    core = lambda seq: [s for s in seq if not s.startswith("worker.submit")]
    a, b = seqs["expand_workflow"], seqs["expand_workflow_async"]

    def _collapse(seq):
        out = []
        for s in seq:
            if s.startswith("worker."):
                s = "worker(" + s.split("(", 1)[1]
            if out and out[-1] == s:
                continue
            out.append(s)
        return out

    def first_index(seq, item):
        return seq.index(item) if item in seq else -1

    for name, seq in seqs.items():
        order = ["construct", "execution_graph", "return_values='exec_graph','workflow'", "get_runnable_tasks"]
        idx = [first_index(seq, o) for o in order]
        if -1 in idx or idx != sorted(idx):
            col.fail("C17.expanders", f"pydra.engine.submitter.Submitter.{name}", "prologue-order:" + ">".join(s for s in seq[:5]), f"{name}: prologue is {seq[:5]}, expected construct -> execution_graph -> return_values -> get_runnable_tasks", A.loc(sub.find_method(name).node))
        else:
            col.ok("C17.expanders", f"{name}: construct -> execution_graph -> return_values{{exec_graph,workflow}} -> get_runnable_tasks", A.loc(sub.find_method(name).node))
    if early_exits["expand_workflow"] == early_exits["expand_workflow_async"]:
        col.ok("C17.expanders", f"both expanders leave only through their scheduling loop (exits outside it: {early_exits['expand_workflow'] or 'none'})", A.loc(sub.find_method("expand_workflow").node))
    else:
        only_s = [e for e in early_exits["expand_workflow"] if e not in early_exits["expand_workflow_async"]]
        only_a = [e for e in early_exits["expand_workflow_async"] if e not in early_exits["expand_workflow"]]
        col.fail("C17.expanders", "pydra.engine.submitter.Submitter", f"early-exit:sync{only_s}:async{only_a}", f"the expanders disagree on exits outside the scheduling loop: only the sync one has {only_s or 'none'}, only the async one has {only_a or 'none'}; a return taken when the first scan offers no job (e.g. every first-level node splits over an empty list) skips the downstream nodes under one worker only", A.loc(sub.find_method("expand_workflow_async").node))
    la = [s for s in a if s.startswith("loop-until-all-done")]
    lb = [s for s in b if s.startswith("loop-until-all-done")]
    if la and lb and la[0] == lb[0]:
        col.ok("C17.expanders", f"both expanders loop on `{la[0]}`", A.loc(sub.find_method("expand_workflow").node))
    else:
        col.fail("C17.expanders", "pydra.engine.submitter.Submitter", f"loop-conditions:{la[:1]}:{lb[:1]}", f"the expanders' loop conditions differ: {la[:1]} vs {lb[:1]}", A.loc(sub.find_method("expand_workflow").node))
    ra = {s.split("(", 1)[1] for s in a if s.startswith("worker.")}
    rb = {s.split("(", 1)[1] for s in b if s.startswith("worker.")}
    if ra and ra == rb and len(ra) == 1:
        col.ok("C17.expanders", f"both expanders run node jobs with ({sorted(ra)[0]}", A.loc(sub.find_method("expand_workflow").node))
    else:
        col.fail("C17.expanders", "pydra.engine.submitter.Submitter", f"rerun-expr:{sorted(ra)}:{sorted(rb)}", f"node jobs are run with different rerun expressions: {sorted(ra)} vs {sorted(rb)}", A.loc(sub.find_method("expand_workflow").node))
    # both expanders refresh the runnable list at the end of each iteration
    for name, seq in seqs.items():
        if seq and seq[-1] == "get_runnable_tasks" or (len(seq) > 1 and "get_runnable_tasks" in seq[-2:]):
            col.ok("C17.expanders", f"{name}: the runnable list is refreshed after each round", A.loc(sub.find_method(name).node))
        else:
            col.fail("C17.expanders", f"pydra.engine.submitter.Submitter.{name}", "no-refresh-of-runnable-list", f"{name} does not refresh the runnable tasks at the end of the loop body", A.loc(sub.find_method(name).node))
    # workers: run() reaches the job's run function with the same rerun
    worker = A.cls("pydra.workers.base.Worker")
    n = 0
    for w in [worker] + worker.all_subclasses():
        r = w.methods.get("run")
        if r is None:
            continue
        col.scope(r.qualname)
        n += 1
        reruns = []
        for c in A.calls(r):
            kw = kwarg(c, "rerun")
            if kw is not None:
                reruns.append(norm(kw))
            elif any(q.endswith("load_and_run") or q.endswith("Job.run") for q in A.callee_names(c, r)) and len(c.args) >= 2:
                reruns.append(norm(c.args[-1]))
        # positional forwarding through executors: run_in_executor(pool, fn, job, rerun)
        for c in A.calls(r):
            if isinstance(c.func, ast.Attribute) and c.func.attr in ("run_in_executor", "submit", "exec_as_coro"):
                if c.args and norm(c.args[-1]) == "rerun":
                    reruns.append("rerun")
        if r.node.body and all(isinstance(s, (ast.Pass, ast.Raise, ast.Expr)) for s in r.node.body):
            col.ok("C17.workers", f"{r.qualname}: abstract", A.loc(r.node))
        elif reruns and all(x == "rerun" for x in reruns):
            col.ok("C17.workers", f"{r.qualname} forwards `rerun` unchanged ({len(reruns)} site(s))", A.loc(r.node))
        elif not reruns:
            col.ok("C17.workers", f"{r.qualname}: no rerun forwarding site recognised (batch worker; see C28)", A.loc(r.node))
        else:
            col.fail("C17.workers", r.qualname, "rerun-forwarding:" + ",".join(sorted(set(reruns))), f"the worker forwards rerun as {sorted(set(reruns))}", A.loc(r.node))
    if n < 3:
        raise AnalysisError("C17: fewer than 3 worker run() implementations found")
    status_source_rule(A, col, "C17.status")


def evidence_is_set_by_submitter(A: Analysis, ev: ast.AST) -> bool:
    """`<job>.<flag>`: the flag is initialised False in Job.__init__ and set True in both expanders right
    after the worker call returned / the future completed (and nowhere in Job itself)."""
    if isinstance(ev, ast.Compare) and len(ev.ops) == 1 and isinstance(ev.ops[0], ast.In):
        return _record_is_filled_by_submitter(A, ev)
    if not (isinstance(ev, ast.Attribute)):
        return False
    flag = ev.attr
    job = A.cls("pydra.engine.job.Job")
    init = job.find_method("__init__")
    inits = [n for n in walk_own(init.node) if isinstance(n, ast.Assign) and any(isinstance(t, ast.Attribute) and t.attr == flag for t in n.targets)]
    if not inits or not all(isinstance(n.value, ast.Constant) and n.value.value is False for n in inits):
        return False
    for m in job.methods.values():
        if m is init:
            continue
        if any(isinstance(n, ast.Assign) and any(isinstance(t, ast.Attribute) and t.attr == flag for t in n.targets) for n in walk_own(m.node)):
            return False  # the job sets it itself: not evidence from the submitter
    sub = A.cls("pydra.engine.submitter.Submitter")
    for name in ("expand_workflow", "expand_workflow_async"):
        fn = sub.find_method(name)
        sets = [n for n in walk_own(fn.node) if isinstance(n, ast.Assign) and any(isinstance(t, ast.Attribute) and t.attr == flag for t in n.targets) and isinstance(n.value, ast.Constant) and n.value.value is True]
        if not sets:
            return False
        # never before the worker call of the same block: the statement preceding each set (same body) is the
        # worker call, or the set is the first statement of the loop over completed futures
        for st in sets:
            par = getattr(st, "_parent", None)
            body = None
            for fld in ("body", "orelse", "finalbody"):
                b = getattr(par, fld, None)
                if isinstance(b, list) and st in b:
                    body = b
            if body is None:
                return False
            i = body.index(st)
            prev_is_worker_call = i > 0 and any(isinstance(c, ast.Call) and isinstance(c.func, ast.Attribute) and c.func.attr in ("run", "submit") and (dotted(c.func.value) or "").endswith("worker") for c in ast.walk(body[i - 1]))
            # the loop over the futures that fetch_finished reported as done
            fetched = {e.id for a_ in walk_own(fn.node) if isinstance(a_, ast.Assign) and any(isinstance(c, ast.Call) and isinstance(c.func, ast.Attribute) and c.func.attr == "fetch_finished" for c in ast.walk(a_.value)) for t in a_.targets for e in (t.elts if isinstance(t, ast.Tuple) else [t]) if isinstance(e, ast.Name)}
            in_completed_loop = isinstance(par, ast.For) and i == 0 and bool(shape_names(par.iter) & fetched)
            if not (prev_is_worker_call or in_completed_loop):
                return False
    return True


def _record_is_filled_by_submitter(A: Analysis, ev: ast.Compare) -> bool:
    """`<job>.checksum in <record>`: the record is an attribute of the submitter that both expanders `.add()`
    to right after the worker call returned / for each completed future, that nothing else adds to, and
    that Submitter.__call__ empties (so a second submission does not inherit it)."""
    if not (isinstance(ev.left, ast.Attribute) and ev.left.attr == "checksum"):
        return False
    rec = ev.comparators[0]
    us = A.func("pydra.engine.submitter.NodeExecution.update_status")
    attr = None
    if isinstance(rec, ast.Attribute):
        attr = rec.attr
    elif isinstance(rec, ast.Name):
        for k, d in A.rs.local_defs(us).get(rec.id, []):
            if k == "assign" and isinstance(d, ast.Attribute):
                attr = d.attr
    if attr is None:
        return False
    sub = A.cls("pydra.engine.submitter.Submitter")
    adders = {}
    for f in A.repo.all_functions():
        for c in A.calls(f):
            if isinstance(c.func, ast.Attribute) and c.func.attr in ("add", "update") and isinstance(c.func.value, ast.Attribute) and c.func.value.attr == attr:
                adders.setdefault(f.qualname, []).append(c)
    expanders = {f"{sub.qualname}.expand_workflow", f"{sub.qualname}.expand_workflow_async"}
    # the record may be filled in the expanders themselves or in private methods of the submitter they call
    helpers = {f"{sub.qualname}.{c.func.attr}" for nm in ("expand_workflow", "expand_workflow_async") for c in A.calls(sub.find_method(nm)) if isinstance(c.func, ast.Attribute) and dotted(c.func.value) == "self" and c.func.attr in sub.methods}
    if not set(adders) or not set(adders) <= (expanders | helpers):
        return False
    if not (set(adders) & expanders) and not (set(adders) & helpers):
        return False
    for qn in sorted(adders):
        fn = A.repo.functions[qn]
        fetched = {e.id for a_ in walk_own(fn.node) if isinstance(a_, ast.Assign) and any(isinstance(c, ast.Call) and isinstance(c.func, ast.Attribute) and c.func.attr == "fetch_finished" for c in ast.walk(a_.value)) for t in a_.targets for e in (t.elts if isinstance(t, ast.Tuple) else [t]) if isinstance(e, ast.Name)}
        for c in adders[fn.qualname]:
            st = next(p_ for p_ in parents(c) if isinstance(p_, ast.stmt))
            par = getattr(st, "_parent", None)
            body = next((b for fld in ("body", "orelse", "finalbody") if isinstance(b := getattr(par, fld, None), list) and st in b), None)
            if body is None:
                return False
            i = body.index(st)
            prev_is_worker_call = i > 0 and any(isinstance(k, ast.Call) and isinstance(k.func, ast.Attribute) and k.func.attr in ("run", "submit") and (dotted(k.func.value) or "").endswith("worker") for k in ast.walk(body[i - 1]))
            in_completed_loop = isinstance(par, ast.For) and i == 0 and bool(shape_names(par.iter) & fetched)
            if not (prev_is_worker_call or in_completed_loop):
                return False
    call = sub.find_method("__call__")
    # emptied BEFORE the job is handed to the worker: a clean-up after the run is skipped when the submission
    # raises, and the next submission with the same Submitter inherits the record
    clears = [c for c in A.calls(call) if isinstance(c.func, ast.Attribute) and c.func.attr == "clear" and isinstance(c.func.value, ast.Attribute) and c.func.value.attr == attr]
    runs_ = [c for c in A.calls(call) if isinstance(c.func, ast.Attribute) and c.func.attr in ("run", "run_async", "run_until_complete", "submit") and (norm(c.func.value) == "self" or "worker" in norm(c.func.value) or "loop" in norm(c.func.value))]
    if not runs_:
        raise AnalysisError("C17: the call that hands the job to the worker in Submitter.__call__ was not found")
    if clears and runs_ and not all(cl.lineno < min(r.lineno for r in runs_) for cl in clears):
        return False
    cleared = any(isinstance(c.func, ast.Attribute) and c.func.attr == "clear" and isinstance(c.func.value, ast.Attribute) and c.func.value.attr == attr for c in A.calls(call)) or any(isinstance(n, ast.Assign) and any(isinstance(t, ast.Attribute) and t.attr == attr for t in n.targets) for n in walk_own(call.node))
    return cleared


def shape_names(node: ast.AST) -> set[str]:
    return {n.id for n in ast.walk(node) if isinstance(n, ast.Name)}


def status_source_rule(A: Analysis, col: Collector, rule: str):
    """where the scheduler learns that a job has finished.

    The sequential expander runs every offered job to completion before it reads any status, so what it
    finds in the cache afterwards was written by this run. The asynchronous expander reads statuses while
    jobs are still waiting in the pool; NodeExecution.update_status decides `done` / `errored` of a queued
    job from the cache alone (Job.done -> load_result). Whenever the cache can hold a result for the job's
    checksum that pre-dates its execution in this submission -- rerun=True, or an errored result that
    Job.run is about to re-execute -- that status is the previous run's, and the two workers disagree.
    The decision must therefore be conjoined with evidence from this submission."""
    us = A.func("pydra.engine.submitter.NodeExecution.update_status")
    col.scope(us.qualname)
    loops = [l for l in walk_own(us.node) if isinstance(l, ast.For) and any(isinstance(a, ast.Attribute) and a.attr == "queued" for a in ast.walk(l.iter))]
    A.anchor("loop over self.queued in NodeExecution.update_status", loops)
    # the lookup may have been extracted into a private method of NodeExecution that returns (is_done, errored):
    # then the rule is applied to the helper's own binding, and the tuple unpacked from its call inherits the verdict
    helper_guard = None
    necls = us.cls
    for c_ in A.calls(us):
        if isinstance(c_.func, ast.Attribute) and dotted(c_.func.value) == "self" and necls is not None and c_.func.attr in necls.methods and c_.func.attr != us.name:
            h_ = necls.methods[c_.func.attr]
            for n_ in walk_own(h_.node):
                if isinstance(n_, ast.Assign) and isinstance(n_.value, ast.BoolOp) and isinstance(n_.value.op, ast.And) and any(isinstance(v, ast.Attribute) and v.attr == "done" for v in n_.value.values):
                    ev_ = [v for v in n_.value.values if not (isinstance(v, ast.Attribute) and v.attr in ("done", "errored"))]
                    first_done_ = min(i for i, v in enumerate(n_.value.values) if isinstance(v, ast.Attribute) and v.attr == "done")
                    if ev_ and n_.value.values.index(ev_[0]) < first_done_ and evidence_is_set_by_submitter(A, ev_[0]):
                        helper_guard = (h_, norm(ev_[0]))
                        col.scope(h_.qualname)
    for lp in loops:
        # names bound from `<job>.done` (directly or in try/else)
        # names bound from the cache lookup `<job>.done`; a binding `<evidence> and <job>.done`, where the
        # evidence operand is set by the submitter when the worker has returned from the job, is guarded
        done_vars, guarded_vars = set(), {}
        for n in ast.walk(lp):
            if isinstance(n, ast.Assign):
                names = {t.id for t in n.targets if isinstance(t, ast.Name)}
                if isinstance(n.value, ast.Attribute) and n.value.attr == "done":
                    done_vars |= names
                elif isinstance(n.value, ast.BoolOp) and isinstance(n.value.op, ast.And) and any(isinstance(v, ast.Attribute) and v.attr == "done" for v in n.value.values):
                    ev = [v for v in n.value.values if not (isinstance(v, ast.Attribute) and v.attr in ("done", "errored"))]
                    # `and` short-circuits: the evidence must be tested BEFORE the cache lookup (Job.done loads what is
                    # on disk, latches the errored flag and raises for an errored result)
                    first_done = min(i for i, v in enumerate(n.value.values) if isinstance(v, ast.Attribute) and v.attr == "done")
                    ev_before = bool(ev) and n.value.values.index(ev[0]) < first_done
                    if ev and not ev_before:
                        col.fail(rule, us.qualname, "cache-lookup-before-run-evidence", f"`{norm(n.value)}` evaluates the cache lookup before the evidence that the worker has returned from the job: Job.done loads a result left by a previous run, latches the job's errored flag and raises, although the job is still waiting in the pool", A.loc(n))
                    if ev and ev_before and evidence_is_set_by_submitter(A, ev[0]):
                        for nm in names:
                            guarded_vars[nm] = norm(ev[0])
                    else:
                        done_vars |= names
        if helper_guard is not None:
            for n in ast.walk(lp):
                if isinstance(n, ast.Assign) and isinstance(n.value, ast.Call) and isinstance(n.value.func, ast.Attribute) and n.value.func.attr == helper_guard[0].name:
                    for t in n.targets:
                        for e in (t.elts if isinstance(t, ast.Tuple) else [t]):
                            if isinstance(e, ast.Name):
                                guarded_vars[e.id] = helper_guard[1]
        # an exception flag set in the handler of the same lookup inherits the lookup's guard
        for n in ast.walk(lp):
            if isinstance(n, ast.Try) and any(isinstance(b, ast.Assign) and any(isinstance(t, ast.Name) and t.id in guarded_vars for t in b.targets) for b in n.body):
                g = next(guarded_vars[t.id] for b in n.body if isinstance(b, ast.Assign) for t in b.targets if isinstance(t, ast.Name) and t.id in guarded_vars)
                for h in n.handlers:
                    for b in h.body:
                        if isinstance(b, ast.Assign) and isinstance(b.value, ast.Constant) and b.value.value is True:
                            for t in b.targets:
                                if isinstance(t, ast.Name):
                                    guarded_vars.setdefault(t.id, g)
        moves = []
        for n in ast.walk(lp):
            if isinstance(n, ast.If):
                for a in n.body:
                    for asg in ast.walk(a):
                        if isinstance(asg, ast.Assign) and any(isinstance(t, ast.Subscript) and isinstance(t.value, ast.Attribute) and t.value.attr in ("successful", "errored") for t in asg.targets):
                            dest = next(t.value.attr for t in asg.targets if isinstance(t, ast.Subscript) and isinstance(t.value, ast.Attribute))
                            moves.append((dest, n.test, asg))
        A.anchor("queued -> successful/errored moves in update_status", moves)
        for dest, test, asg in moves:
            operands = test.values if isinstance(test, ast.BoolOp) and isinstance(test.op, ast.And) else [test]
            def _guarded(o):
                if isinstance(o, ast.Name) and o.id in guarded_vars:
                    return True
                if isinstance(o, ast.BoolOp) and isinstance(o.op, ast.Or):
                    # `job.errored or errored`: job.errored is a flag of the parent's own job object, which only
                    # the guarded lookup and the failed-future handler set
                    return all((isinstance(v, ast.Name) and v.id in guarded_vars) or (isinstance(v, ast.Attribute) and v.attr == "errored") for v in o.values) and any(isinstance(v, ast.Name) and v.id in guarded_vars for v in o.values)
                return False

            if any(_guarded(o) for o in operands):
                col.ok(rule, f"queued/running -> {dest} is decided on `{norm(test, 60)}`, whose cache lookup is conjoined with `{next(iter(guarded_vars.values()))}` (set by the submitter once the worker has returned from the job)", A.loc(asg))
                continue
            cache_only = all((isinstance(o, ast.Name) and o.id in done_vars) or (isinstance(o, ast.Attribute) and o.attr in ("done", "errored")) or (isinstance(o, ast.BoolOp) and isinstance(o.op, ast.Or) and all((isinstance(v, ast.Attribute) and v.attr in ("done", "errored")) or isinstance(v, ast.Name) for v in o.values)) for o in operands)
            if cache_only:
                col.fail(rule, us.qualname, f"queued-job-{dest}-read-from-cache-without-run-evidence", f"a queued job is moved to `{dest}` on `{norm(test)}` alone, i.e. on what the cache holds for its checksum: under an asynchronous worker a result left by a previous run (rerun=True; an errored result that is being re-executed) is taken for the outcome of this run while the job is still waiting in the pool, so downstream nodes get stale values / the node is reported failed, whereas the sequential worker re-runs the job first -- the workflow's outputs depend on the worker", A.loc(asg))
            else:
                col.ok(rule, f"queued -> {dest} is decided on `{norm(test, 60)}` (cache state conjoined with evidence from this submission)", A.loc(asg))


# --------------------------------------------------------------------------- #
# C36: provenance records
# --------------------------------------------------------------------------- #


def _prov_messages(A: Analysis, fn: FuncInfo):
    """audit_message(<dict>, AuditFlag.PROV) calls with a literal / local dict: returns
    [(call, dict node)]"""
    out = []
    for c in A.calls(fn):
        if isinstance(c.func, ast.Attribute) and c.func.attr == "audit_message" and c.args:
            flag = c.args[1] if len(c.args) > 1 else kwarg(c, "flags")
            if flag is None or not norm(flag).endswith("PROV"):
                continue
            d = c.args[0]
            if isinstance(d, ast.Name):
                defs = [p for k, p in A.rs.local_defs(fn).get(d.id, []) if k == "assign"]
                d = defs[0] if defs else d
            if isinstance(d, ast.Dict):
                out.append((c, d))
    return out


def _dict_get(d: ast.Dict, key: str):
    for k, v in zip(d.keys, d.values):
        if isinstance(k, ast.Constant) and k.value == key:
            return v
    return None


@prop(
    "C36",
    technique="pairing over the exception CFG (start/end record calls around the task body) + record-shape agreement + shared-state re-entrancy rule over the resolved call graph (SCC through Job.run)",
    decides="(a) start_audit dominates the task body and finalize_audit is reached on every path out of it in both run functions; the start record ('@type': 'job', startedAtTime) and the end record (endedAtTime, errored) are sent under AuditFlag.PROV with the same '@id' expression, the end record's errored is result.errored of the Result that is saved; (b) the attribute carrying the activity id between start and end lives on an object that is not shared between re-entrant activations of the run function. Additionally: nothing that may raise lies between start_audit and the try whose finally calls finalize_audit; finalize_audit has no return before the end record; per-job record state is not kept by mutating a container created in Audit.__init__ while jobs get shallow copies.",
    not_decided="message transport (messengers), JSON-LD validity, resource-monitor records.",
    level_note="Trusted: resolved call graph (class-hierarchy analysis) for the re-entrancy argument.",
)
def check_c36(A: Analysis, col: Collector):
    audit = A.cls("pydra.engine.audit.Audit")
    sa, fa = audit.find_method("start_audit"), audit.find_method("finalize_audit")
    if sa is None or fa is None:
        raise AnalysisError("Audit.start_audit / finalize_audit not found")
    col.scope(sa.qualname, fa.qualname)
    starts = [(c, d) for c, d in _prov_messages(A, sa) if _dict_get(d, "startedAtTime") is not None]
    ends = [(c, d) for c, d in _prov_messages(A, fa) if _dict_get(d, "errored") is not None]
    A.anchor("start record in start_audit", starts)
    A.anchor("end record (with errored) in finalize_audit", ends)
    sid = norm(_dict_get(starts[0][1], "@id"))
    eid = norm(_dict_get(ends[0][1], "@id"))
    if sid == eid and sid:
        col.ok("C36.records", f"start and end record carry the same '@id' expression `{sid}`", A.loc(ends[0][0]))
    else:
        col.fail("C36.records", fa.qualname, f"id-mismatch:{sid}:{eid}", f"the start record's @id is `{sid}` but the end record's is `{eid}`", A.loc(ends[0][0]))
    ev = _dict_get(ends[0][1], "errored")
    params = [p.arg for p in fa.params()]
    if isinstance(ev, ast.Attribute) and ev.attr == "errored" and isinstance(ev.value, ast.Name) and ev.value.id in params:
        col.ok("C36.records", f"end record's errored is `{norm(ev)}` of the result passed in", A.loc(ends[0][0]))
    else:
        col.fail("C36.records", fa.qualname, f"errored-source:{norm(ev, 30)}", f"the end record's error flag is `{norm(ev, 30)}`, not the errored flag of the job's result", A.loc(ends[0][0]))
    if _dict_get(ends[0][1], "endedAtTime") is not None:
        col.ok("C36.records", "end record has endedAtTime", A.loc(ends[0][0]))
    else:
        col.fail("C36.records", fa.qualname, "end-record-without-endedAtTime", "the end record carries no endedAtTime", A.loc(ends[0][0]))
    # the PROV guard of both records
    for nm, (c, d), f in (("start", starts[0], sa), ("end", ends[0], fa)):
        guarded = any(isinstance(p, ast.If) and "audit_check" in norm(p.test) and "PROV" in norm(p.test) for p in parents(c))
        if guarded:
            col.ok("C36.records", f"{nm} record is sent under audit_check(AuditFlag.PROV)", A.loc(c))
        else:
            col.fail("C36.records", f.qualname, f"{nm}-record-not-under-PROV", f"the {nm} record is not guarded by audit_check(AuditFlag.PROV)", A.loc(c))
    # exactly one start / end record per call: not inside a loop
    for nm, (c, d), f in (("start", starts[0], sa), ("end", ends[0], fa)):
        if any(isinstance(p, (ast.For, ast.While)) for p in parents(c)):
            col.fail("C36.records", f.qualname, f"{nm}-record-in-loop", f"the {nm} record is emitted inside a loop", A.loc(c))
    if len(starts) == 1 and len(ends) == 1:
        col.ok("C36.records", "exactly one start-record site and one end-record site", A.loc(starts[0][0]))
    else:
        col.fail("C36.records", audit.qualname, f"record-sites:{len(starts)}:{len(ends)}", f"{len(starts)} start-record sites and {len(ends)} end-record sites", A.loc(starts[0][0]))
    # run functions: start dominates the body, finalize on every path out of it, same result as saved
    runs = run_functions(A)
    for R in runs:
        fn = R.fn
        col.scope(fn.qualname)
        is_start = lambda n: any(isinstance(c.func, ast.Attribute) and c.func.attr == "start_audit" for c in _calls_in_node(n))
        is_fin = lambda n: any(isinstance(c.func, ast.Attribute) and c.func.attr == "finalize_audit" for c in _calls_in_node(n))
        tn = R.cfg.nodes_containing(R.task_call)
        if all(R.cfg.dominated_by(t, is_start) for t in tn):
            col.ok("C36.pairing", f"{fn.qualname}: start_audit dominates the task body", A.loc(R.task_call))
        else:
            col.fail("C36.pairing", fn.qualname, "body-without-start-record", "the task body can run without start_audit having been called", A.loc(R.task_call))
        check_pairing(A, col, R, "C36.pairing", "prov-end-record", tn, is_fin, start_edges="all", what="audit.finalize_audit")
        fins = [c for c in A.calls(fn) if isinstance(c.func, ast.Attribute) and c.func.attr == "finalize_audit"]
        for c in fins:
            rv = kwarg(c, "result") or (c.args[0] if c.args else None)
            saved = {norm(kwarg(s, "result")) for s in R.save_calls}
            if rv is not None and norm(rv) in saved:
                col.ok("C36.pairing", f"{fn.qualname}: finalize_audit receives the Result that is saved (`{norm(rv)}`)", A.loc(c))
            else:
                col.fail("C36.pairing", fn.qualname, f"finalize-result:{norm(rv, 20)}", "finalize_audit is given a different object than the Result that is saved", A.loc(c))
        # no second start_audit on a path
        sn = [n for n in R.cfg.nodes if is_start(n)]
        for s in sn:
            reach = R.cfg.reachable_from([m for _, m in s.succ])
            if any(o.id in reach for o in sn):
                col.fail("C36.pairing", fn.qualname, "start-record-twice", "start_audit can run twice on one path", A.loc(s.stmt))
    # nothing that can raise sits between the call that sends the start record and the try whose finally
    # sends the end record (an exception there leaves an open activity and no saved result)
    for R in run_functions(A):
        fnr = R.fn
        cfg_r = A.cfg(fnr)
        tok = A.rm.tokens_fn(fnr)
        for st_node in [n for n in walk_own(fnr.node) if isinstance(n, ast.Expr) and isinstance(n.value, ast.Call) and isinstance(n.value.func, ast.Attribute) and n.value.func.attr == "start_audit"]:
            par = getattr(st_node, "_parent", None)
            body = next((b for fld in ("body", "orelse", "finalbody") if isinstance(b := getattr(par, fld, None), list) and st_node in b), None)
            if body is None:
                continue
            i = body.index(st_node)
            between = []
            guard_try = None
            for nxt in body[i + 1 :]:
                if isinstance(nxt, ast.Try) and any(isinstance(c, ast.Call) and isinstance(c.func, ast.Attribute) and c.func.attr == "finalize_audit" for fb in nxt.finalbody for c in ast.walk(fb)):
                    guard_try = nxt
                    break
                between.append(nxt)
            if guard_try is None:
                col.fail("C36.pairing", fnr.qualname, "start-record-not-followed-by-guard", "start_audit is not followed (in the same block) by the try whose finally calls finalize_audit", A.loc(st_node))
                continue
            risky = []
            for b in between:
                hit = None
                for sub in [k for k in ast.walk(b) if isinstance(k, ast.stmt)]:
                    for nd in cfg_r.nodes_of(sub):
                        if tok(nd):
                            hit = sorted(tok(nd))
                            break
                    if hit:
                        break
                if hit:
                    risky.append((b, hit))
            if risky:
                b, toks = risky[0]
                col.fail("C36.pairing", fnr.qualname, f"may-raise-between-start-record-and-guard:{shape(b, 40)}", f"`{norm(b, 60)}` runs after the start record was sent and before the try whose finally sends the end record, and may raise {toks[:3]} (for a shell task audit_task renders the command line, which calls user formatters): the activity stays open and no result is saved", A.loc(b))
            else:
                col.ok("C36.pairing", f"{fnr.name}: nothing that can raise lies between start_audit and the try that guarantees finalize_audit ({len(between)} statement(s) in between)", A.loc(st_node))
    # the end record is sent on every normal path through finalize_audit: no return before it
    end_call = ends[0][0]
    early = [r for r in walk_own(fa.node) if isinstance(r, ast.Return) and r.lineno < end_call.lineno]
    if early:
        g = next((p_ for p_ in parents(early[0]) if isinstance(p_, ast.If)), None)
        col.fail("C36.pairing", fa.qualname, f"end-record-skipped-by-early-return:{shape(g.test, 40) if g is not None else 'unconditional'}", f"`return` under `{norm(g.test, 50) if g is not None else 'no condition'}` leaves finalize_audit before the record that closes the activity is sent: the job's start record has no end record and its failure is recorded nowhere", A.loc(early[0]))
    else:
        col.ok("C36.pairing", "finalize_audit has no return before the end record", A.loc(end_call))
    # (b) shared state across re-entrant activations
    carried = set()
    for n in walk_own(sa.node):
        if isinstance(n, ast.Assign):
            for t in n.targets:
                if isinstance(t, ast.Attribute) and dotted(t.value) == "self":
                    carried.add(t.attr)
    read_in_end = {n.attr for n in walk_own(fa.node) if isinstance(n, ast.Attribute) and dotted(n.value) == "self" and isinstance(n.ctx, ast.Load)}
    carried &= read_in_end
    # record state kept by mutating a container that is created once in __init__: a shallow copy of the
    # Audit object (copy.copy) shares that container with the original and with every other copy
    containers = set()
    for m in (sa, fa, audit.find_method("monitor")):
        if m is None:
            continue
        for n in walk_own(m.node):
            if isinstance(n, ast.Assign):
                for t in n.targets:
                    if isinstance(t, ast.Subscript) and isinstance(t.value, ast.Attribute) and dotted(t.value.value) == "self":
                        containers.add(t.value.attr)
            if isinstance(n, ast.Call) and isinstance(n.func, ast.Attribute) and n.func.attr in ("update", "setdefault", "append", "add") and isinstance(n.func.value, ast.Attribute) and dotted(n.func.value.value) == "self":
                containers.add(n.func.value.attr)
    if containers:
        ji0 = A.func("pydra.engine.job.Job.__init__")
        deep = any(isinstance(n, ast.Assign) and any(isinstance(t, ast.Attribute) and t.attr == "audit" for t in n.targets) and isinstance(n.value, ast.Call) and any(q == "copy.deepcopy" or q.endswith(".Audit") for q in A.callee_names(n.value, ji0)) for n in walk_own(ji0.node))
        if deep:
            col.ok("C36.reentrancy", f"record state kept in {sorted(containers)} lives on a deep copy / fresh Audit per job", A.loc(sa.node))
        else:
            col.fail("C36.reentrancy", "pydra.engine.audit.Audit", "record-state-in-shared-container:" + "+".join(sorted(containers)), f"start_audit / monitor / finalize_audit keep per-job record state by mutating `self.{sorted(containers)[0]}`, a container created once in __init__; Job.__init__ gives each job a *shallow* copy of the submitter's Audit, so all jobs share that container: a nested job overwrites the enclosing job's activity id, whose start record never gets its end record (and the nested job gets two)", A.loc(sa.node))
        return
    if "aid" not in carried:
        col.ok("C36.reentrancy", "the activity id is not carried through an attribute of the Audit object", A.loc(sa.node))
        return
    ji = A.func("pydra.engine.job.Job.__init__")
    assigns = [n for n in walk_own(ji.node) if isinstance(n, ast.Assign) and any(isinstance(t, ast.Attribute) and t.attr == "audit" and dotted(t.value) == "self" for t in n.targets)]
    A.anchor("self.audit = ... in Job.__init__", assigns)
    shared = False
    for a in assigns:
        v = a.value
        fresh = isinstance(v, ast.Call) and (any(q in ("copy.copy", "copy.deepcopy") or q.endswith(".Audit") for q in A.callee_names(v, ji)) or (isinstance(v.func, ast.Attribute) and v.func.attr in ("copy", "clone", "fork")))
        if not fresh:
            shared = True
    # re-entrancy: Job.run reaches itself through the call graph
    run = A.func("pydra.engine.job.Job.run")
    reach = A.closure(A.callees(run), limit=600)
    reentrant = any(f.qualname == run.qualname for f in reach)
    col.notes["job_run_reentrant"] = reentrant
    col.notes["carried_audit_attrs"] = sorted(carried)
    if shared and reentrant:
        cyc = "Job.run -> WorkflowTask._run -> Submitter.expand_workflow -> Worker.run -> Job.run"
        col.fail("C36.reentrancy", "pydra.engine.audit.Audit", "shared-activity-id:" + "+".join(sorted(carried)), f"attributes {sorted(carried)} written by start_audit and read by finalize_audit live on the Audit object that Job.__init__ shares between all jobs of a submitter, and the run function is re-entrant ({cyc}): a nested job overwrites the outer job's activity id, so the outer end record carries the inner id", A.loc(assigns[0]))
    else:
        col.ok("C36.reentrancy", f"activity id attributes {sorted(carried)} live on a per-job Audit object (or the run function is not re-entrant)", A.loc(assigns[0]))


# --------------------------------------------------------------------------- #
# C13 (g): the errored latch of Job.result must not survive a successful re-run
# --------------------------------------------------------------------------- #


def errored_latch_rule(A: Analysis, col: Collector, rule: str):
    """Job.result() latches `self._errored = True` when it loads an errored result and
    afterwards short-circuits to a synthetic errored Result.  The run functions call it
    for the cache check and re-execute when the cached result is errored; if the latch
    is still set when the re-execution succeeds, the submitter's final job.result()
    reports the fresh success as a failure."""
    jr = A.func("pydra.engine.job.Job.result")
    latches = [n for n in walk_own(jr.node) if isinstance(n, ast.Assign) and any(isinstance(t, ast.Attribute) and t.attr == "_errored" and dotted(t.value) == "self" for t in n.targets) and _const_bool(n.value) is True]
    shortcut = [n for n in walk_own(jr.node) if isinstance(n, ast.If) and norm(n.test) in ("self.errored", "self._errored")]
    if not latches or not shortcut:
        col.ok(rule, "Job.result() does not latch an errored flag that short-circuits later lookups", A.loc(jr.node))
        return
    for R in run_functions(A):
        fn = R.fn
        toks = tokens_for(A, R)
        res_ids = {n.id for c in R.result_calls for n in R.cfg.nodes_containing(c)}
        task_ids = {n.id for n in R.cfg.nodes_containing(R.task_call)}

        def transfer(node, st, completed):
            latched, ran = st
            if node.id in res_ids and completed:
                latched = True
            if node.id in task_ids and completed:
                ran = True
            if completed and node.kind == "stmt" and isinstance(node.stmt, ast.Assign):
                for t in node.stmt.targets:
                    if isinstance(t, ast.Attribute) and t.attr == "_errored" and dotted(t.value) == "self":
                        b = _const_bool(node.stmt.value)
                        latched = True if b is not False else False
            return (latched, ran)

        esc = explore(R.cfg, [(R.cfg.entry, None)], toks, state0=(False, False), transfer=transfer)
        bad = [e for e in esc if e.exit_kind == "return" and e.state == (True, True)]
        if bad:
            col.fail(rule, fn.qualname, "errored-latch-survives-successful-rerun", "the cache check `self.result()` may latch self._errored (errored cached result); the function then re-executes the task and returns normally without clearing the latch, so the following job.result() reports the successful re-run as a failure", A.loc(R.result_calls[0]) if R.result_calls else A.loc(fn.node), witness=format_path(bad[0].path))
        else:
            col.ok(rule, f"{fn.qualname}: the errored latch set by the cache check is cleared before a successful re-execution returns", A.loc(fn.node))
