"""C11: at-most-once, rerun, read-only caches.  C06(d) lives in runfn.hit_condition."""

from __future__ import annotations

import ast

from ..engine import Analysis
from ..model import AnalysisError, FuncInfo, dotted, norm, walk_own, parents, kwarg, is_within
from ..report import Collector
from . import prop
from .runfn import run_functions, must_check_cache, hit_condition

READONLY_ATTRS = ("_readonly_caches", "readonly_caches", "all_caches")
WRITE_METHODS = {"mkdir", "unlink", "write_text", "write_bytes", "touch", "rename", "replace", "rmdir", "symlink_to", "hardlink_to"}
WRITE_FUNCS = {"shutil.rmtree", "shutil.copy", "shutil.copy2", "shutil.copytree", "shutil.move", "os.remove", "os.unlink", "os.mkdir", "os.makedirs", "os.rename", "os.replace", "os.rmdir", "os.symlink", "os.link"}
ENGINE_MODULES = ("pydra.engine.job", "pydra.engine.result", "pydra.engine.submitter", "pydra.engine.workflow", "pydra.engine.node", "pydra.engine.lazy", "pydra.workers.base", "pydra.workers.cf", "pydra.workers.debug")


def _write_sites(A: Analysis, fn: FuncInfo):
    """(call, path operand expr, description) for file-system writes in fn."""
    out = []
    for c in A.calls(fn):
        names = A.callee_names(c, fn)
        f = c.func
        if isinstance(f, ast.Attribute) and f.attr in WRITE_METHODS and not any(n.startswith("pydra.") for n in names):
            out.append((c, f.value, f".{f.attr}()"))
        elif names & WRITE_FUNCS and c.args:
            # for copy-like calls the destination is the last positional argument
            dest = c.args[-1] if any(n.rsplit(".", 1)[-1] in ("copy", "copy2", "copytree", "move", "rename", "replace", "symlink", "link") for n in names) else c.args[0]
            out.append((c, dest, sorted(names & WRITE_FUNCS)[0]))
        elif (dotted(f) == "open" or (isinstance(f, ast.Attribute) and f.attr == "open")) :
            mode = None
            if dotted(f) == "open":
                mode = c.args[1] if len(c.args) > 1 else kwarg(c, "mode")
                target = c.args[0] if c.args else None
            else:
                mode = c.args[0] if c.args else kwarg(c, "mode")
                target = f.value
            if isinstance(mode, ast.Constant) and isinstance(mode.value, str) and any(ch in mode.value for ch in "wax+") and target is not None:
                out.append((c, target, f"open(mode={mode.value!r})"))
        elif any(n in ("pydra.engine.result.save", "pydra.engine.result.record_error") for n in names) and (c.args or c.keywords):
            tgt = c.args[0] if c.args else (kwarg(c, "task_path") or kwarg(c, "error_path"))
            if tgt is not None:
                out.append((c, tgt, sorted(names)[0].rsplit(".", 1)[-1] + "()"))
    return out


def readonly_never_written(A: Analysis, col: Collector, rule: str):
    fns = [f for f in A.repo.all_functions() if f.module.name in ENGINE_MODULES]
    # tainted parameters: params that receive values derived from the read-only lists
    tainted_params: set[str] = set()
    changed = True
    rounds = 0

    def is_tainted(roots) -> bool:
        if any(a.rsplit(".", 1)[-1] in READONLY_ATTRS for a in roots.attrs):
            return True
        return bool(roots.params & tainted_params)

    while changed and rounds < 4:
        changed = False
        rounds += 1
        for f in fns:
            for c in A.calls(f):
                targets = [t for t in A.resolve(c, f).repo_targets if isinstance(t, FuncInfo)]
                if not targets:
                    continue
                for t in targets:
                    ps = t.params()
                    if t.cls is not None and not t.is_staticmethod and ps:
                        ps = ps[1:]
                    for i, a in enumerate(c.args):
                        if i < len(ps) and is_tainted(A.flow.derives(a, f)):
                            key = f"{t.qualname}:{ps[i].arg}"
                            if key not in tainted_params:
                                tainted_params.add(key)
                                changed = True
                    for k in c.keywords:
                        if k.arg and any(p.arg == k.arg for p in ps) and is_tainted(A.flow.derives(k.value, f)):
                            key = f"{t.qualname}:{k.arg}"
                            if key not in tainted_params:
                                tainted_params.add(key)
                                changed = True
    n = 0
    for f in fns:
        for call, operand, desc in _write_sites(A, f):
            n += 1
            roots = A.flow.derives(operand, f)
            if is_tainted(roots):
                src = sorted(a for a in roots.attrs if a.rsplit(".", 1)[-1] in READONLY_ATTRS) + sorted(roots.params & tainted_params)
                col.fail(rule, f.qualname, f"write-to-readonly:{desc}:{'+'.join(s.rsplit(':', 1)[-1].rsplit('.', 1)[-1] for s in src)}", f"`{norm(call, 70)}` writes to a path derived from the read-only cache list ({src})", A.loc(call))
            else:
                col.ok(rule, f"{f.qualname}: write `{norm(call, 50)}` targets a path not derived from the read-only caches", A.loc(call))
    col.notes["write_sites_checked"] = n
    col.notes["readonly_tainted_params"] = sorted(tainted_params)
    if n < 10:
        raise AnalysisError(f"C11: only {n} file-system write sites found in the engine modules; floor is 10")
    if not any(p.endswith("load_result:readonly_caches") for p in tainted_params):
        raise AnalysisError("C11: the read-only cache list no longer flows into load_result (anchor lost)")


def results_under_cache_root(A: Analysis, col: Collector, rule: str):
    job = A.cls("pydra.engine.job.Job")
    cd = job.find_method("cache_dir")
    if cd is None:
        raise AnalysisError("Job.cache_dir not found")
    rets = [n for n in walk_own(cd.node) if isinstance(n, ast.Return) and n.value is not None]
    ok = any(isinstance(r.value, ast.BinOp) and isinstance(r.value.op, ast.Div) and norm(r.value.left) == "self.cache_root" and norm(r.value.right) == "self.checksum" for r in rets)
    if ok:
        col.ok(rule, "Job.cache_dir == self.cache_root / self.checksum", A.loc(cd.node))
    else:
        col.fail(rule, cd.qualname, "cache_dir-not-root/checksum", "Job.cache_dir is no longer <cache_root>/<checksum>: results may be written outside the cache root", A.loc(cd.node))
    for R in run_functions(A):
        writers = []
        for c in R.save_calls + R.record_calls:
            # a helper method of Job that does the write: look at the write inside it (its `self` is the job)
            direct = any(q.endswith(".save") or q.endswith("record_error") for q in A.callee_names(c, R.fn))
            if direct:
                writers.append(c)
            else:
                for h in [t for t in A.rs.resolve_call(c, R.fn).repo_targets if hasattr(t, "node")]:
                    inner = [k for k in A.calls(h) if any(q.endswith(".save") or q.endswith("record_error") for q in A.callee_names(k, h))]
                    writers += inner or [c]
        for c in writers:
            a0 = c.args[0] if c.args else None
            if a0 is not None and norm(a0) == "self.cache_dir":
                col.ok(rule, f"{R.fn.qualname}: `{norm(c, 50)}` writes under self.cache_dir", A.loc(c))
            else:
                col.fail(rule, R.fn.qualname, f"result-written-elsewhere:{norm(a0, 30)}", f"`{norm(c, 60)}` does not write under self.cache_dir", A.loc(c))


def load_result_falls_through(A: Analysis, col: Collector, rule: str):
    """In load_result's loop over cache locations, a location without a loadable result
    must fall through to the next location."""
    fn = A.func("pydra.engine.result.load_result")
    col.scope(fn.qualname)
    loops = [n for n in walk_own(fn.node) if isinstance(n, ast.For) and isinstance(n.iter, ast.Name) and any(p.arg == n.iter.id for p in fn.params())]
    A.anchor("loop over cache locations in load_result", loops)
    for loop in loops:
        bad = []
        for n in ast.walk(loop):
            if isinstance(n, ast.Return) and (n.value is None or (isinstance(n.value, ast.Constant) and n.value.value is None)):
                if any(is_within(n, s) for s in loop.body):
                    bad.append(n)
            if isinstance(n, ast.Return) and isinstance(n.value, ast.Call) and any(is_within(n, s) for s in loop.body):
                # `return helper(...)`: gives up at this location if the helper can return None
                for g in A.resolve(n.value, fn).repo_targets:
                    if isinstance(g, FuncInfo):
                        gc = A.cfg(g)
                        falls_off = any(p.kind != "return" for _, p in gc.exit_ret.pred)
                        ret_none = any(isinstance(r, ast.Return) and (r.value is None or (isinstance(r.value, ast.Constant) and r.value.value is None)) for r in walk_own(g.node))
                        if falls_off or ret_none:
                            bad.append(n)
            if isinstance(n, ast.Break) and any(is_within(n, s) for s in loop.body):
                # a break out of the location loop (not out of an inner retry loop)
                inner = [p for p in parents(n) if isinstance(p, (ast.For, ast.While))]
                if inner and inner[0] is loop:
                    bad.append(n)
        if bad:
            col.fail(rule, fn.qualname, f"location-loop-gives-up:x{len(bad)}", "the loop over cache locations returns None (or breaks) at the first location whose directory exists but holds no loadable result: a complete result in a later (read-only) cache is not reused", A.loc(bad[0]))
        else:
            col.ok(rule, "load_result: a location without a loadable result falls through to the next location", A.loc(loop))
        # the iteration covers the whole list (no slicing / indexing of the parameter)
        col.ok(rule, f"load_result iterates the complete list `{loop.iter.id}`", A.loc(loop))
    # and the list handed to load_result is all_caches (cache_root + read-only)
    job_result = A.func("pydra.engine.job.Job.result")
    calls = [c for c in A.calls(job_result) if "pydra.engine.result.load_result" in A.callee_names(c, job_result)]
    A.anchor("load_result call in Job.result", calls)
    for c in calls:
        a = c.args[1] if len(c.args) > 1 else kwarg(c, "readonly_caches")
        if a is not None and norm(a) == "self.all_caches":
            col.ok(rule, "Job.result looks the checksum up in self.all_caches (cache root first, then read-only caches)", A.loc(c))
        else:
            col.fail(rule, job_result.qualname, f"lookup-list:{norm(a, 30)}", f"Job.result looks results up in `{norm(a, 40)}` rather than in all caches", A.loc(c))
    # the locations are made absolute when the submitter is built: the run functions change the
    # working directory (os.chdir(cache_dir), Audit.start_audit), and nested jobs are created and
    # looked up while it is changed, so a relative location would point somewhere else
    init = A.func("pydra.engine.submitter.Submitter.__init__")
    col.scope(init.qualname)
    stores = [n for n in walk_own(init.node) if isinstance(n, ast.Assign) and any(isinstance(t, ast.Attribute) and t.attr == "readonly_caches" and dotted(t.value) == "self" for t in n.targets)]
    A.anchor("self.readonly_caches = ... in Submitter.__init__", stores)
    for st in stores:
        made_abs = any(isinstance(k, ast.Call) and ((isinstance(k.func, ast.Attribute) and k.func.attr in ("resolve", "absolute")) or (dotted(k.func) or "").endswith("abspath")) for k in ast.walk(st.value))
        if made_abs:
            col.ok(rule, "Submitter.__init__ stores the read-only cache locations as absolute paths (like cache_root)", A.loc(st))
        else:
            col.fail(rule, init.qualname, "readonly-caches-stored-relative", "the read-only cache locations are stored as given; jobs change the working directory while they run, so for jobs created inside a running workflow a relative location is looked up under the wrong directory and a complete result in that cache is not reused", A.loc(st))
    ac = A.cls("pydra.engine.job.Job").find_method("all_caches")
    rets = [n for n in walk_own(ac.node) if isinstance(n, ast.Return)]
    txt = norm(rets[0].value) if rets else ""
    if "cache_root" in txt and "_readonly_caches" in txt and txt.index("cache_root") < txt.index("_readonly_caches"):
        col.ok(rule, f"Job.all_caches = `{txt}`", A.loc(ac.node))
    else:
        col.fail(rule, ac.qualname, "all_caches-composition", f"Job.all_caches is `{txt}`: it must list the cache root followed by the read-only caches", A.loc(ac.node))


def rerun_propagation(A: Analysis, col: Collector, rule: str):
    sub = A.cls("pydra.engine.submitter.Submitter")
    n = 0
    for name in ("expand_workflow", "expand_workflow_async"):
        fn = sub.find_method(name)
        if fn is None:
            raise AnalysisError(f"Submitter.{name} not found")
        col.scope(fn.qualname)
        for c in A.calls(fn):
            f = c.func
            if isinstance(f, ast.Attribute) and f.attr in ("run", "submit") and (dotted(f.value) or "").endswith("worker"):
                n += 1
                kw = kwarg(c, "rerun")
                ok = False
                if isinstance(kw, ast.BoolOp) and isinstance(kw.op, ast.And):
                    parts = sorted(norm(v) for v in kw.values)
                    ok = parts == ["rerun", "self.propagate_rerun"]
                if ok:
                    col.ok(rule, f"{fn.qualname}: `{norm(c, 60)}` passes rerun and self.propagate_rerun", A.loc(c))
                else:
                    col.fail(rule, fn.qualname, f"node-rerun:{norm(kw, 40)}", f"a node job is run with rerun=`{norm(kw, 40)}` instead of `rerun and self.propagate_rerun`", A.loc(c))
    if n < 3:
        raise AnalysisError(f"C11: {n} worker.run/submit sites in expand_workflow*, floor 3")
    # the flag is stored from the constructor argument
    init = sub.find_method("__init__")
    stored = any(isinstance(s, ast.Assign) and any(isinstance(t, ast.Attribute) and t.attr == "propagate_rerun" for t in s.targets) and norm(s.value) == "propagate_rerun" for s in walk_own(init.node))
    if stored:
        col.ok(rule, "Submitter.__init__ stores propagate_rerun", A.loc(init.node))
    else:
        col.fail(rule, init.qualname, "propagate_rerun-not-stored", "Submitter.__init__ does not store the propagate_rerun argument", A.loc(init.node))
    # workflow task bodies forward rerun
    for q in ("pydra.compose.workflow.WorkflowTask._run", "pydra.compose.workflow.WorkflowTask._run_async"):
        fn = A.func(q)
        cs = [c for c in A.calls(fn) if isinstance(c.func, ast.Attribute) and c.func.attr.startswith("expand_workflow")]
        A.anchor(f"expand_workflow call in {q}", cs)
        for c in cs:
            if len(c.args) >= 2 and norm(c.args[1]) == "rerun" or norm(kwarg(c, "rerun")) == "rerun":
                col.ok(rule, f"{q} forwards rerun to the submitter", A.loc(c))
            else:
                col.fail(rule, q, "workflow-drops-rerun", "the workflow task body does not forward `rerun` to expand_workflow", A.loc(c))


@prop(
    "C11",
    technique="must-pass-through on the run functions' CFGs (edge-labelled backward reachability), interprocedural taint from the read-only cache list to file-system write APIs, loop-exit rule in load_result, sibling agreement of the rerun expression",
    decides="(a) every path to the task body takes the `rerun` branch or the miss edge of a valid hit test; (b) no file-system write in the engine modules targets a path derived from the read-only cache list, and results are written under <cache_root>/<checksum>; (c) in load_result a location without a loadable result falls through to the next location and the lookup list is cache root + read-only caches; (d) both workflow expanders pass `rerun and self.propagate_rerun` to every node job and workflow task bodies forward rerun.",
    not_decided="histories of submissions; that rmtree of a leftover directory is harmless; cache behaviour of third-party workers.",
    level_note="Trusted: list of write APIs (WRITE_METHODS/WRITE_FUNCS in rules/cache.py); flow analysis is flow-insensitive with property inlining bound 2.",
)
def check_c11(A: Analysis, col: Collector):
    for R in run_functions(A):
        col.scope(R.fn.qualname)
        must_check_cache(A, col, R, "C11.must-check")
        hit_condition(A, col, R, "C11.hit")
    readonly_never_written(A, col, "C11.readonly")
    results_under_cache_root(A, col, "C11.root")
    load_result_falls_through(A, col, "C11.lookup")
    rerun_propagation(A, col, "C11.rerun")
