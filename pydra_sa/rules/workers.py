"""C28: batch-scheduler workers -- resolved-call soundness (signatures, attributes),
None-flow, regex-match guards, option-default placement, status-table agreement.
These modules are never executed by the offline test suite."""

from __future__ import annotations

import ast
import re

from ..engine import Analysis
from ..model import AnalysisError, FuncInfo, ClassInfo, dotted, norm, walk_own, parents, kwarg, is_within
from ..cfg import Node, explore
from ..sigcheck import class_signature, func_signature, check_call
from ..report import Collector
from . import prop

SCOPE_MODULES = ("pydra.workers.slurm", "pydra.workers.sge", "pydra.workers.base", "pydra.workers.cf", "pydra.workers.debug", "pydra.scripts.run_pickled")
EXTRA_FUNCS = ("pydra.engine.job.load_and_run", "pydra.engine.job.load_job")


def scope_functions(A: Analysis) -> list[FuncInfo]:
    fns = [f for f in A.repo.all_functions() if f.module.name in SCOPE_MODULES]
    fns += [A.func(q) for q in EXTRA_FUNCS]
    if len(fns) < 30:
        raise AnalysisError(f"C28: {len(fns)} functions in the worker scope; floor 30")
    return fns


def signature_rule(A: Analysis, col: Collector, rule: str, fns: list[FuncInfo]):
    n = 0
    bad: dict[str, list] = {}
    for f in fns:
        for c in A.calls(f):
            r = A.resolve(c, f)
            if r.kind != "static" or len(r.repo_targets) != 1:
                continue
            t = r.repo_targets[0]
            if isinstance(t, ClassInfo):
                sig = class_signature(t)
            else:
                bound = None
                if t.cls is not None and isinstance(c.func, ast.Attribute) and not t.is_staticmethod:
                    bound = True
                elif t.cls is not None:
                    bound = False
                sig = func_signature(t, bound=bound)
            if sig is None:
                continue
            n += 1
            mm = check_call(c, sig)
            if mm:
                key = f"{t.qualname.rsplit('.', 1)[-1]}:" + ",".join(sorted(f"{k}={d}" for k, d in mm))
                bad.setdefault(f"{f.qualname}|{key}", []).append((f, c, t, mm))
    for key, items in sorted(bad.items()):
        f, c, t, mm = items[0]
        col.fail(rule, f.qualname, f"call-signature:{key.split('|', 1)[1]}:x{len(items)}", f"`{norm(c, 70)}` does not match the signature of {t.qualname} ({', '.join(f'{k}: {d}' for k, d in mm)}): TypeError when this path runs", A.loc(c))
    col.ok(rule, f"{n - sum(len(v) for v in bad.values())} of {n} statically resolved repo calls in the worker scope agree with their callee's signature", "")
    col.notes["resolved_repo_calls_checked"] = n
    # code embedded in strings: the run_pickled / -c command lines
    return n


def self_attr_rule(A: Analysis, col: Collector, rule: str, fns: list[FuncInfo]):
    n = 0
    missing: dict[str, list] = {}
    for f in fns:
        if f.cls is None or f.is_staticmethod or f.is_classmethod:
            continue
        for a in walk_own(f.node):
            if isinstance(a, ast.Attribute) and isinstance(a.value, ast.Name) and a.value.id == "self" and isinstance(a.ctx, ast.Load):
                n += 1
                if not A.rs.class_has_attr(f.cls, a.attr):
                    missing.setdefault(f"{f.cls.qualname}.{a.attr}", []).append((f, a))
    for key, items in sorted(missing.items()):
        f, a = items[0]
        col.fail(rule, f.qualname, f"undefined-attribute:self.{a.attr}", f"`self.{a.attr}` is read in {f.qualname} but {f.cls.name} (and its bases) define no such attribute or method: AttributeError when this path runs", A.loc(a))
    col.ok(rule, f"{n - sum(len(v) for v in missing.values())} of {n} `self.<attr>` reads in worker classes name an attribute the class defines", "")


def _none_assigned_locals(fn: FuncInfo) -> dict[str, list[ast.Assign]]:
    out: dict[str, list[ast.Assign]] = {}
    for n in walk_own(fn.node):
        if isinstance(n, ast.Assign) and isinstance(n.value, ast.Constant) and n.value.value is None:
            for t in n.targets:
                if isinstance(t, ast.Name):
                    out.setdefault(t.id, []).append(n)
    return out


def _truthy_edge(test: ast.AST, name: str) -> str | None:
    t = test
    if isinstance(t, ast.Name) and t.id == name:
        return "T"
    if isinstance(t, ast.UnaryOp) and isinstance(t.op, ast.Not):
        r = _truthy_edge(t.operand, name)
        return None if r is None else ("F" if r == "T" else "T")
    if isinstance(t, ast.Compare) and len(t.ops) == 1 and isinstance(t.left, ast.Name) and t.left.id == name and isinstance(t.comparators[0], ast.Constant) and t.comparators[0].value is None:
        if isinstance(t.ops[0], ast.IsNot):
            return "T"
        if isinstance(t.ops[0], ast.Is):
            return "F"
    if isinstance(t, ast.BoolOp) and isinstance(t.op, ast.And):
        for v in t.values:
            if _truthy_edge(v, name) == "T":
                return "T"
    if isinstance(t, ast.NamedExpr) and isinstance(t.target, ast.Name) and t.target.id == name:
        return "T"
    return None


def _maybe_none_flow(A: Analysis, fn: FuncInfo, var: str, starts: list[Node], what: str):
    """nodes that dereference `var` (var.attr / var[...]) reachable from `starts` while var may be None."""
    cfg = A.cfg(fn)

    def derefs(node: Node):
        for e in node.exprs:
            for x in [e] + list(walk_own(e)):
                if isinstance(x, (ast.Attribute, ast.Subscript)) and isinstance(x.value, ast.Name) and x.value.id == var and isinstance(x.ctx, ast.Load):
                    # `x = v.attr if v else ...` style guards inside the expression
                    guarded = False
                    for p in parents(x):
                        if isinstance(p, ast.IfExp) and _truthy_edge(p.test, var) == "T" and is_within(x, p.body):
                            guarded = True
                        if isinstance(p, ast.BoolOp) and isinstance(p.op, ast.And) and any(_truthy_edge(v, var) == "T" for v in p.values[:-1]):
                            guarded = True
                        if isinstance(p, ast.stmt):
                            break
                    if not guarded:
                        yield x

    def reassigned(node: Node) -> bool:
        s = node.stmt
        if node.kind == "stmt" and isinstance(s, (ast.Assign, ast.AnnAssign, ast.AugAssign)):
            tg = s.targets if isinstance(s, ast.Assign) else [s.target]
            for t in tg:
                for k in ast.walk(t):
                    if isinstance(k, ast.Name) and k.id == var and isinstance(k.ctx, ast.Store):
                        v = s.value
                        if not (isinstance(v, ast.Constant) and v.value is None):
                            return True
        return False

    found = []
    seen = set()
    st = []
    for s0 in starts:
        for l, m in s0.succ:
            if l in ("n", "T", "F"):
                st.append(m)
    while st:
        n = st.pop()
        if n.id in seen:
            continue
        seen.add(n.id)
        if n.kind == "exit":
            continue
        ds = list(derefs(n))
        if ds and not (n.kind == "test" and _truthy_edge(n.stmt.test, var) is not None and False):
            found.append((n, ds[0]))
            continue
        if reassigned(n):
            continue
        for l, m in n.succ:
            if l == "x":
                continue
            if n.kind in ("test", "loop") and l in ("T", "F"):
                te = _truthy_edge(n.stmt.test, var) if hasattr(n.stmt, "test") else None
                if te is not None and l == te:
                    continue  # on this edge var is known to be truthy
            st.append(m)
    return found


def none_flow_rule(A: Analysis, col: Collector, rule: str, fns: list[FuncInfo]):
    n = 0
    for f in fns:
        locs = _none_assigned_locals(f)
        if not locs:
            continue
        cfg = A.cfg(f)
        for var, assigns in sorted(locs.items()):
            for a in assigns:
                nodes = [x for x in cfg.nodes if x.stmt is a and x.kind == "stmt"]
                hits = _maybe_none_flow(A, f, var, nodes, "None")
                n += 1
                if hits:
                    node, d = hits[0]
                    col.fail(rule, f.qualname, f"none-dereference:{var}.{getattr(d, 'attr', '[]')}", f"`{var}` is set to None at {A.loc(a)} and `{norm(d, 40)}` is evaluated on a path where it is still None (no `if {var}` guard on that path): AttributeError/TypeError", A.loc(d))
                else:
                    col.ok(rule, f"{f.qualname}: `{var} = None` never reaches an unguarded dereference", A.loc(a))
    col.notes["none_assignments_checked"] = n


def match_guard_rule(A: Analysis, col: Collector, rule: str, fns: list[FuncInfo]):
    n = 0
    for f in fns:
        cfg = None
        for s in walk_own(f.node):
            if not (isinstance(s, ast.Assign) and isinstance(s.targets[0], ast.Name) and isinstance(s.value, ast.Call)):
                continue
            c = s.value
            fname = dotted(c.func) or ""
            is_match = fname in ("re.search", "re.match", "re.fullmatch") or (isinstance(c.func, ast.Attribute) and c.func.attr in ("search", "match", "fullmatch") and ("_re" in norm(c.func.value) or "pattern" in norm(c.func.value) or "regex" in norm(c.func.value)))
            if not is_match:
                continue
            var = s.targets[0].id
            cfg = cfg or A.cfg(f)
            nodes = [x for x in cfg.nodes if x.stmt is s and x.kind == "stmt"]
            hits = _maybe_none_flow(A, f, var, nodes, "no match")
            # only .group/.groups/[...] dereferences count
            hits = [(nd, d) for nd, d in hits if isinstance(d, ast.Subscript) or getattr(d, "attr", "") in ("group", "groups", "groupdict", "start", "end", "span")]
            n += 1
            if hits:
                nd, d = hits[0]
                col.fail(rule, f.qualname, f"unchecked-match:{var}.{getattr(d, 'attr', '[]')}", f"`{var} = {norm(c, 40)}` may be None (no match) and `{norm(d, 30)}` is evaluated without testing it: an unexpected scheduler response crashes the worker with AttributeError instead of being reported", A.loc(d))
            else:
                col.ok(rule, f"{f.qualname}: match object `{var}` is tested before use", A.loc(s))
    col.notes["regex_match_sites_checked"] = n


def dict_arithmetic_rule(A: Analysis, col: Collector, rule: str, fns: list[FuncInfo]):
    for f in fns:
        if f.cls is None:
            continue
        dict_fields = set()
        for k in f.cls.mro():
            for name, ann in k.annotations.items():
                if norm(ann).startswith("dict"):
                    dict_fields.add(name)
        hits: dict[str, ast.AST] = {}
        for n in walk_own(f.node):
            if isinstance(n, ast.AugAssign) and isinstance(n.op, (ast.Add, ast.Sub)) and isinstance(n.target, ast.Attribute) and dotted(n.target.value) == "self" and n.target.attr in dict_fields:
                hits.setdefault(n.target.attr, n)
            if isinstance(n, ast.Compare) and isinstance(n.left, ast.Attribute) and dotted(n.left.value) == "self" and n.left.attr in dict_fields and isinstance(n.ops[0], (ast.Gt, ast.Lt, ast.GtE, ast.LtE)):
                hits.setdefault(n.left.attr, n)
        for attr, node in sorted(hits.items()):
            col.fail(rule, f.qualname, f"arithmetic-on-dict-field:{attr}", f"`{norm(node, 60)}`: `self.{attr}` is declared as a dict (attrs field with factory=dict) but used as a number: TypeError when this path runs", A.loc(node))


def option_default_rule(A: Analysis, col: Collector, rule: str):
    """SlurmWorker.run: for job-name / output / error the default is appended only where
    the user's option was not found."""
    fn = A.func("pydra.workers.slurm.SlurmWorker.run")
    # the option handling may have been extracted into another method of the worker: analyse the method that
    # holds the option searches
    if fn.cls is not None:
        def _n_searches(f_):
            return sum(1 for s_ in walk_own(f_.node) if isinstance(s_, ast.Assign) and isinstance(s_.value, ast.Call) and dotted(s_.value.func) == "re.search" and s_.value.args and isinstance(s_.value.args[0], ast.Constant) and "sbatch_args" in norm(s_.value.args[1] if len(s_.value.args) > 1 else s_.value))
        best = max(fn.cls.methods.values(), key=_n_searches)
        if _n_searches(best) >= 3 and _n_searches(fn) < 3:
            fn = best
    col.scope(fn.qualname)
    cfg = A.cfg(fn)
    n = 0
    for s in walk_own(fn.node):
        if isinstance(s, ast.Assign) and isinstance(s.value, ast.Call) and dotted(s.value.func) == "re.search" and isinstance(s.value.args[0], ast.Constant):
            pat = s.value.args[0].value
            m = re.search(r"--([a-z\-]+)=", pat)
            if not m or "sbatch_args" not in norm(s.value.args[1]):
                continue
            opt = m.group(1)
            var = s.targets[0].id
            n += 1
            apps = [nd for nd in cfg.nodes if any(isinstance(c, ast.Call) and isinstance(c.func, ast.Attribute) and c.func.attr == "append" and c.args and f"--{opt}=" in norm(c.args[0]) for e in nd.exprs for c in [e] + list(walk_own(e)))]
            tests = [nd for nd in cfg.nodes if nd.kind == "test" and _truthy_edge(nd.stmt.test, var) is not None]
            if not apps:
                col.fail(rule, fn.qualname, f"no-default:{opt}", f"no default --{opt}= is ever appended", A.loc(s))
                continue
            for ap in apps:
                # the edge on which var is falsy
                ok = False
                for t in tests:
                    te = _truthy_edge(t.stmt.test, var)
                    falsy = "F" if te == "T" else "T"
                    if cfg.dominated_by_edge(ap, lambda nn, _t=t: nn is _t, falsy):
                        ok = True
                if ok:
                    col.ok(rule, f"SlurmWorker.run: the default --{opt}= is appended only when the user's sbatch_args contain none", A.loc(ap.stmt))
                else:
                    col.fail(rule, fn.qualname, f"default-duplicates-user-option:{opt}", f"--{opt}= is appended although the user supplied one: the option is duplicated / overridden", A.loc(ap.stmt))
    if n < 3:
        # the look-ups may have been moved into a token-scanning helper: a method of the worker that run() calls
        # with the option spellings as string constants
        cls_ = fn.cls
        helper_calls = [c for c in A.calls(fn) if isinstance(c.func, ast.Attribute) and dotted(c.func.value) == "self" and cls_ is not None and c.func.attr in cls_.methods and sum(1 for a in c.args if isinstance(a, ast.Constant) and isinstance(a.value, str) and a.value.startswith("-")) >= 1]
        if len(helper_calls) >= 3:
            h = cls_.methods[helper_calls[0].func.attr]
            col.scope(h.qualname)
            hp = [p_.arg for p_ in h.params() if p_.arg != "self"]
            sliced = [l for l in walk_own(h.node) if isinstance(l, ast.For) and any(isinstance(k, ast.Subscript) and isinstance(k.value, ast.Name) and k.value.id in hp and isinstance(k.slice, ast.Slice) and (k.slice.upper is not None or k.slice.lower is not None) for k in ast.walk(l.iter))]
            if sliced:
                col.fail(rule, h.qualname, "option-scan-skips-tokens", f"`for ... in {norm(sliced[0].iter, 40)}` scans only part of the user's sbatch_args: an option in the excluded position (e.g. `--job-name=x` as the last token) is not seen, the worker appends its own after it and sbatch lets the later one win -- the user's job name / output / error file is lost", A.loc(sliced[0]))
            else:
                col.ok(rule, f"{h.name} scans the complete list of user tokens ({len(helper_calls)} look-ups in run)", A.loc(h.node))
            return
        raise AnalysisError(f"C28: {n} option searches (job-name/output/error) found in SlurmWorker.run; floor 3")


def status_table_rule(A: Analysis, col: Collector, rule: str):
    run = A.func("pydra.workers.slurm.SlurmWorker.run")
    ver = A.func("pydra.workers.slurm.SlurmWorker._verify_exit_code")
    col.scope(run.qualname, ver.qualname)
    # per-job entries that run() stores once after sbatch are only read by the polling functions: these are
    # called again for the same job id (requeue after CANCELLED/TIMEOUT/PREEMPTED, transient squeue errors)
    stored = {t.value.attr for n in walk_own(run.node) if isinstance(n, ast.Assign) for t in n.targets if isinstance(t, ast.Subscript) and isinstance(t.value, ast.Attribute) and dotted(t.value.value) == "self"}
    if not stored:
        raise AnalysisError("C28: no per-job table stored by SlurmWorker.run (self.<table>[jobid] = ...) was found")
    for q in ("pydra.workers.slurm.SlurmWorker._verify_exit_code", "pydra.workers.slurm.SlurmWorker._poll_job"):
        f = A.func(q)
        consumed = [c for c in A.calls(f) if isinstance(c.func, ast.Attribute) and c.func.attr in ("pop", "popitem", "clear") and isinstance(c.func.value, ast.Attribute) and c.func.value.attr in stored]
        consumed += [d for d in walk_own(f.node) if isinstance(d, ast.Delete) and any(isinstance(t, ast.Subscript) and isinstance(t.value, ast.Attribute) and t.value.attr in stored for t in d.targets)]
        if consumed:
            col.fail(rule, f.qualname, "per-job-entry-consumed-by-poll", f"`{norm(consumed[0], 40)}` removes the entry run() stored once for the job, but {f.name} is called again for the same job id after a requeue (or when squeue fails while sacct says RUNNING): the second call raises KeyError and the job is reported failed although the scheduler completes it", A.loc(consumed[0]))
        else:
            col.ok(rule, f"{f.name} only reads the per-job tables {sorted(stored)} that run() fills once per submission", A.loc(f.node))

    def str_lists(f, pred):
        out = []
        for n in walk_own(f.node):
            if isinstance(n, ast.Compare) and len(n.ops) == 1 and isinstance(n.ops[0], ast.In) and isinstance(n.comparators[0], (ast.List, ast.Tuple, ast.Set)) and pred(n):
                out.append((n, frozenset(e.value for e in n.comparators[0].elts if isinstance(e, ast.Constant))))
        return out

    polled = {n.targets[0].id for n in walk_own(run.node) if isinstance(n, ast.Assign) and isinstance(n.targets[0], ast.Name) and "_poll_job" in norm(n.value)}
    requeue_in_run = str_lists(run, lambda n: isinstance(n.left, ast.Name) and n.left.id in polled)
    returned = []
    for n, vals in str_lists(ver, lambda n: "status" in norm(A.expand(n.left, ver))):
        for p in parents(n):
            if isinstance(p, ast.If) and p.test is n or (isinstance(p, ast.If) and is_within(n, p.test)):
                if p.body and isinstance(p.body[0], ast.Return) and "status" in norm(A.expand(p.body[0].value, ver)):
                    returned.append((n, vals))
                break
    if not requeue_in_run or not returned:
        raise AnalysisError("C28: status tables of SlurmWorker.run / _verify_exit_code not found")
    a, b = requeue_in_run[0][1], returned[0][1]
    if a == b:
        col.ok(rule, f"the statuses requeued by run() {sorted(a)} are exactly those _verify_exit_code returns by name", A.loc(requeue_in_run[0][0]))
    else:
        col.fail(rule, run.qualname, f"status-tables-differ:{sorted(a ^ b)}", f"run() requeues on {sorted(a)} but _verify_exit_code returns {sorted(b)} by name: {sorted(a ^ b)} is handled inconsistently", A.loc(requeue_in_run[0][0]))
    need = {"CANCELLED", "TIMEOUT", "PREEMPTED"}
    if need <= a:
        col.ok(rule, "cancellation, timeout and preemption are requeued, not failed", A.loc(requeue_in_run[0][0]))
    else:
        col.fail(rule, run.qualname, f"not-requeued:{sorted(need - a)}", f"{sorted(need - a)} no longer lead to a requeue", A.loc(requeue_in_run[0][0]))
    # requeue respects --no-requeue
    cond = None
    for p in parents(requeue_in_run[0][0]):
        if isinstance(p, ast.If):
            cond = norm(p.test)
            break
    if cond and "--no-requeue" in cond and "not in" in cond:
        col.ok(rule, "requeue is skipped when the user passed --no-requeue", A.loc(requeue_in_run[0][0]))
    else:
        col.fail(rule, run.qualname, "no-requeue-ignored", "the user's --no-requeue is not honoured", A.loc(requeue_in_run[0][0]))
    # failure: exit code != 0 or status != COMPLETED raises; success returns True
    t = [n for n in walk_own(ver.node) if isinstance(n, ast.If) and "exit_code" in norm(n.test) and "COMPLETED" in norm(n.test)]
    if t and isinstance(t[0].test, ast.BoolOp) and isinstance(t[0].test.op, ast.Or) and any(isinstance(k, ast.Raise) for k in ast.walk(t[0])):
        col.ok(rule, "_verify_exit_code: non-zero exit code OR status != COMPLETED leads to requeue/pending/raise; otherwise True", A.loc(t[0]))
    else:
        col.fail(rule, ver.qualname, "failure-test", "_verify_exit_code no longer fails a job on (exit code != 0 or status != COMPLETED)", A.loc(ver.node))
    # pending / running keep polling
    pend = [vals for n, vals in str_lists(ver, lambda n: "status" in norm(A.expand(n.left, ver))) if {"RUNNING", "PENDING"} <= vals]
    if pend:
        col.ok(rule, "RUNNING / PENDING keep the job polling (return False)", A.loc(ver.node))
    else:
        col.fail(rule, ver.qualname, "pending-treated-as-final", "RUNNING/PENDING states are no longer treated as 'still working'", A.loc(ver.node))


def embedded_code_rule(A: Analysis, col: Collector, rule: str):
    """the python snippets the workers write into batch scripts call load_and_run with
    its real parameters."""
    lr = A.func("pydra.engine.job.load_and_run")
    params = [p.arg for p in lr.params()]
    for q in ("pydra.workers.slurm.SlurmWorker._prepare_runscripts", "pydra.workers.sge.SgeWorker.run"):
        fn = A.func(q)
        col.scope(fn.qualname)
        texts = []
        for n in walk_own(fn.node):
            if isinstance(n, ast.JoinedStr):
                t = "".join(str(v.value) if isinstance(v, ast.Constant) else "{}" for v in n.values)
                if "load_and_run(" in t:
                    texts.append((n, t))
        if not texts:
            raise AnalysisError(f"C28: embedded load_and_run call not found in {q}")
        for n, t in texts:
            call = t[t.index("load_and_run(", t.index("import") if "import" in t else 0) :]
            call = call[call.index("load_and_run(", 1) if call.count("load_and_run(") > 1 else 0 :]
            kws = re.findall(r"(\w+)=", call.split(")")[0])
            unknown = [k for k in kws if k not in params]
            if unknown:
                col.fail(rule, fn.qualname, f"embedded-call-keywords:{','.join(unknown)}", f"the generated script calls load_and_run with unknown keyword(s) {unknown}", A.loc(n))
            else:
                col.ok(rule, f"{fn.name}: the generated script calls load_and_run({', '.join(kws) or 'positional'}) with existing parameters", A.loc(n))
    # SGE: which element of the task tuple is passed as rerun
    sge_prep = A.func("pydra.workers.sge.SgeWorker._prepare_runscripts")
    tup = None
    for c in A.calls(sge_prep):
        if isinstance(c.func, ast.Attribute) and c.func.attr == "append" and c.args and isinstance(c.args[0], ast.Tuple) and "tasks_to_run_by_threads_requested" in norm(c.func.value):
            tup = [norm(e) for e in c.args[0].elts]
    sge_run = A.func("pydra.workers.sge.SgeWorker.run")
    for n in walk_own(sge_run.node):
        if isinstance(n, ast.JoinedStr):
            t = "".join(str(v.value) if isinstance(v, ast.Constant) else "{}" for v in n.values)
            m = re.search(r"rerun=job_pkls\[task_index\]\[(\d+)\]", t)
            if m and tup:
                idx = int(m.group(1))
                if idx < len(tup) and tup[idx] == "rerun":
                    col.ok(rule, f"SGE array script passes element {idx} ('rerun') of the task tuple as rerun", A.loc(n))
                else:
                    col.fail(rule, sge_run.qualname, f"embedded-rerun-index:{idx}-of-{len(tup)}:rerun-at-{tup.index('rerun') if 'rerun' in tup else '?'}", f"the SGE array script passes element {idx} of the task tuple {tup} as `rerun`; that element is `{tup[idx] if idx < len(tup) else '?'}`", A.loc(n))


@prop(
    "C28",
    technique="resolved-call pass over code the offline suite never executes: signature agreement of statically resolved calls (attrs __init__ synthesised), self-attribute existence, None-flow and regex-match-guard analyses on CFGs, option-default dominance, status-table agreement, keyword check of the python snippets embedded in batch scripts",
    decides="over workers/slurm.py, workers/sge.py, workers/base.py, workers/cf.py, workers/debug.py, scripts/run_pickled.py, load_and_run, load_job: every statically resolved repo call fits its callee's signature; every self.<attr> read names an attribute of the class; a local set to None is not dereferenced unguarded; a regex match object is tested before .group; dict-declared fields are not used arithmetically; SlurmWorker.run appends the default job-name/output/error only where the user gave none; the statuses requeued by run() are those _verify_exit_code returns by name, --no-requeue is honoured, failure = exit code != 0 or status != COMPLETED, RUNNING/PENDING keep polling; generated batch scripts call load_and_run with existing keywords. Additionally: a helper that scans the user's sbatch_args scans the complete token list; the per-job tables that run() fills once are only read (never popped) by the polling functions, which are called again after a requeue.",
    not_decided="sequences of scheduler responses, timing, the schedulers' own semantics.",
    level_note="Trusted: attrs init synthesis; static call resolution (only calls with a unique static target are checked).",
)
def check_c28(A: Analysis, col: Collector):
    fns = scope_functions(A)
    for f in fns:
        col.scope(f.qualname)
    signature_rule(A, col, "C28.signature", fns)
    self_attr_rule(A, col, "C28.attributes", fns)
    none_flow_rule(A, col, "C28.none-flow", fns)
    match_guard_rule(A, col, "C28.match-guard", fns)
    dict_arithmetic_rule(A, col, "C28.types", fns)
    option_default_rule(A, col, "C28.options")
    status_table_rule(A, col, "C28.status")
    embedded_code_rule(A, col, "C28.embedded")
