"""C01 (split expansion: rejection of unequal inner splits, operator table, one job
per state), C04 (enumeration agreement for nested containers), C05 (early rejection of
ill-formed split/combine)."""

from __future__ import annotations

import ast

from ..engine import Analysis
from ..model import AnalysisError, FuncInfo, dotted, norm, walk_own, parents, kwarg, is_within, shape, alpha
from ..cfg import Node, explore
from ..report import Collector
from . import prop

STATE = "pydra.engine.state.State"
NODEEXEC = "pydra.engine.submitter.NodeExecution"


def _calls(n: Node):
    for e in n.exprs:
        for c in [e] + list(walk_own(e)):
            if isinstance(c, ast.Call):
                yield c


def _op_table(A: Analysis, col: Collector, rule: str):
    m = A.repo.module("pydra.engine.state")
    d = m.defs.get("op")
    if not isinstance(d, ast.Assign) or not isinstance(d.value, ast.Dict):
        raise AnalysisError("pydra.engine.state.op table not found")
    table = {}
    for k, v in zip(d.value.keys, d.value.values):
        if isinstance(k, ast.Constant):
            r = A.repo.resolve_expr_static(m, v)
            table[k.value] = r if isinstance(r, str) else norm(v)
    want = {".": ("zip",), "*": ("itertools.product",)}
    for tok, ok_names in want.items():
        got = table.get(tok)
        if got in ok_names or (got is None and False):
            col.ok(rule, f"operator table: {tok!r} -> {got} ({'positional pairing' if tok == '.' else 'Cartesian product, left operand slowest'})", A.loc(d))
        else:
            col.fail(rule, "pydra.engine.state.op", f"operator:{tok}->{got}", f"splitter operator {tok!r} is implemented by `{got}`; the documented semantics need {ok_names[0]}", A.loc(d))
    if set(table) != set(want):
        col.fail(rule, "pydra.engine.state.op", "operator-set:" + "+".join(sorted(map(str, table))), f"the operator table defines {sorted(table)}, the RPN uses '.' and '*'", A.loc(d))
    return d


def inner_split_shape_check(A: Analysis, col: Collector, rule: str):
    fn = A.func(f"{STATE}.splits")
    col.scope(fn.qualname)
    cfg = A.cfg(fn)
    # application sites of the operator selected by the token
    apps = []
    for n in cfg.nodes:
        for c in _calls(n):
            if isinstance(c.func, ast.Subscript) and norm(c.func.value) == "op" and isinstance(c.func.slice, ast.Name):
                apps.append((n, c, c.func.slice.id))
    A.anchor("op[token](...) application in State.splits", apps)
    for node, call, tokvar in apps:
        dot_tests = [t for t in cfg.nodes if t.kind == "test" and isinstance(t.stmt, ast.If) and norm(t.stmt.test) in (f"{tokvar} == '.'", f"'.' == {tokvar}")]
        if not dot_tests:
            # the shape check may live in a helper that is called with the token on every path to the application
            helper_ok = None
            for hn in cfg.nodes:
                for hc in _calls(hn):
                    if not any(isinstance(a_, ast.Name) and a_.id == tokvar for a_ in hc.args):
                        continue
                    for h in [t_ for t_ in A.rs.resolve_call(hc, fn).repo_targets if isinstance(t_, FuncInfo)]:
                        hp = [p_.arg for p_ in h.params()]
                        ti = next(i for i, a_ in enumerate(hc.args) if isinstance(a_, ast.Name) and a_.id == tokvar)
                        if ti >= len(hp):
                            continue
                        tp_ = hp[ti]
                        for i_ in walk_own(h.node):
                            if isinstance(i_, ast.If) and norm(i_.test) in (f"{tp_} == '.'", f"'.' == {tp_}"):
                                inner = [k for k in ast.walk(i_) if isinstance(k, ast.If) and k is not i_ and isinstance(k.test, ast.Compare) and len(k.test.ops) == 1 and isinstance(k.test.ops[0], ast.NotEq) and isinstance(k.test.left, ast.Name) and isinstance(k.test.comparators[0], ast.Name) and k.test.left.id in hp and k.test.comparators[0].id in hp and k.body and isinstance(k.body[-1], ast.Raise)]
                                if inner and cfg.dominated_by(node, lambda m, _hn=hn: m is _hn):
                                    helper_ok = (h, hc)
            if helper_ok is not None:
                col.scope(helper_ok[0].qualname)
                col.ok(rule, f"the operand shapes are compared (raising on a mismatch) under `token == '.'` in {helper_ok[0].name}, whose call dominates the operator application", A.loc(helper_ok[1]))
                continue
            col.fail(rule, fn.qualname, "no-inner-operator-branch", f"no branch on `{tokvar} == '.'` precedes the operator application: inner splits of different lengths are truncated by zip", A.loc(call))
            continue
        for dt in dot_tests:
            # shape comparison nested under the '.' branch whose true branch raises
            shape_tests = []
            for t in cfg.nodes:
                if t.kind == "test" and isinstance(t.stmt, ast.If) and is_within(t.stmt, dt.stmt) and t.stmt is not dt.stmt:
                    cmpn = t.stmt.test
                    if isinstance(cmpn, ast.Compare) and len(cmpn.ops) == 1 and isinstance(cmpn.ops[0], ast.NotEq) and isinstance(cmpn.left, ast.Name) and isinstance(cmpn.comparators[0], ast.Name) and any(isinstance(k, ast.Raise) for k in t.stmt.body):
                        # T branch must raise
                        esc = explore(cfg, [(m, None) for l, m in t.succ if l == "T"], A.rm.tokens_fn(fn), stop=lambda n: n is node)
                        reaches_app = node.id in cfg.reachable_from([m for l, m in t.succ if l == "T"], labels={"n", "T", "F"})
                        if not reaches_app:
                            shape_tests.append(t)
            if not shape_tests:
                col.fail(rule, fn.qualname, "inner-split-shapes-not-compared", "under the '.' operator the operand shapes are not compared with a raising branch: zip silently truncates to the shorter operand", A.loc(dt.stmt))
                continue
            # every path from the '.' branch to the application passes the F edge of a shape test
            starts = [m for l, m in dt.succ if l == "T"]
            seen = set()
            st = list(starts)
            leak = False
            while st:
                n = st.pop()
                if n.id in seen:
                    continue
                seen.add(n.id)
                if n is node:
                    leak = True
                    break
                for l, m in n.succ:
                    if l == "x":
                        continue
                    if n in shape_tests and l == "F":
                        continue
                    st.append(m)
            if leak:
                col.fail(rule, fn.qualname, "operator-applied-without-shape-check", "a path from the '.' branch reaches `op[token](...)` without passing the equal-shape branch of the shape comparison", A.loc(call))
            else:
                col.ok(rule, "State.splits: under '.', `op[token](L, R)` is reached only through the equal-shape branch of `shape_L != shape_R` (the other branch raises)", A.loc(call))
                # the values compared belong to the operands applied: each compared name is
                # bound together (same tuple assignment) with one of the applied operands
                groups = []
                for n in walk_own(fn.node):
                    if isinstance(n, ast.Assign) and isinstance(n.targets[0], ast.Tuple):
                        groups.append({e.id for e in n.targets[0].elts if isinstance(e, ast.Name)})
                cmp_names = [shape_tests[0].stmt.test.left.id, shape_tests[0].stmt.test.comparators[0].id]
                arg_names = [a.id for a in call.args if isinstance(a, ast.Name)]
                def together(x, y):
                    return any(x in g and y in g for g in groups)
                if len(arg_names) == 2 and ((together(cmp_names[0], arg_names[0]) and together(cmp_names[1], arg_names[1])) or (together(cmp_names[0], arg_names[1]) and together(cmp_names[1], arg_names[0]))):
                    col.ok(rule, f"the shapes compared ({cmp_names[0]}, {cmp_names[1]}) are bound together with the operands applied ({arg_names[0]}, {arg_names[1]})", A.loc(call))
                else:
                    col.fail(rule, fn.qualname, "shape-check-on-other-operands", f"the values compared ({cmp_names}) are not the shapes of the operands applied ({arg_names})", A.loc(call))


def jobs_after_prepare(A: Analysis, col: Collector, rule: str):
    fn = A.func(f"{NODEEXEC}.start")
    col.scope(fn.qualname)
    cfg = A.cfg(fn)
    job_nodes = [n for n in cfg.nodes if any("pydra.engine.job.Job" in A.callee_names(c, fn) for c in _calls(n))]
    if len(job_nodes) < 2:
        raise AnalysisError(f"NodeExecution.start: {len(job_nodes)} Job( construction sites; floor 2")
    prep = [n for n in cfg.nodes if any(isinstance(c.func, ast.Attribute) and c.func.attr == "prepare_states" for c in _calls(n))]
    prep_ids = {n.id for n in prep}
    state_tests = [n for n in cfg.nodes if n.kind == "test" and norm(n.stmt.test) in ("self.state", "self.node.state", "self.state is not None")]
    for jn in job_nodes:
        in_state_branch = state_tests and cfg.dominated_by_edge(jn, lambda n: n in state_tests, "T")
        if in_state_branch:
            if cfg.dominated_by(jn, lambda m: m.id in prep_ids):
                col.ok(rule, "split node: state.prepare_states() (validation + expansion) dominates the construction of the node's jobs", A.loc(jn.stmt))
            else:
                col.fail(rule, fn.qualname, "jobs-built-before-prepare_states", "jobs of a split node are constructed on a path that has not run state.prepare_states()", A.loc(jn.stmt))
            # one job per state, index passed on
            loop = next((p for p in parents(jn.stmt) if isinstance(p, ast.For)), None)
            if loop is not None and isinstance(loop.iter, ast.Call) and dotted(loop.iter.func) == "enumerate" and "_split_task" in norm(loop.iter.args[0]):
                call = next(c for c in _calls(jn) if "pydra.engine.job.Job" in A.callee_names(c, fn))
                idx = norm(loop.target.elts[0]) if isinstance(loop.target, ast.Tuple) else "?"
                if norm(kwarg(call, "state_index")) == idx and any(isinstance(t, ast.Subscript) and norm(t.slice) == idx for t in jn.stmt.targets):
                    col.ok(rule, "one Job per element of enumerate(self._split_task()), keyed and labelled by its index", A.loc(jn.stmt))
                else:
                    col.fail(rule, fn.qualname, "job-index-mismatch", "the job built for a state is not keyed/labelled by that state's index", A.loc(jn.stmt))
            else:
                col.fail(rule, fn.qualname, "jobs-not-enumerated-over-split-tasks", "the node's jobs are not created by enumerating self._split_task()", A.loc(jn.stmt))
        else:
            col.ok(rule, "unsplit node: a single Job with state_index None", A.loc(jn.stmt))
    # _split_task: one evolved task per (inputs_ind, states_val) pair
    st = A.func(f"{NODEEXEC}._split_task")
    loops = [n for n in walk_own(st.node) if isinstance(n, ast.For) and isinstance(n.iter, ast.Call) and dotted(n.iter.func) == "zip"]
    A.anchor("zip loop in _split_task", loops)
    lp = loops[0]
    it = [norm(a) for a in lp.iter.args]
    if any(a.endswith("state.states_val") for a in it) and any(a.endswith("state.inputs_ind") for a in it):
        col.ok(rule, "_split_task iterates the complete states_val / inputs_ind lists", A.loc(lp))
    else:
        col.fail(rule, st.qualname, "split-task-iteration:" + ",".join(it), f"_split_task iterates {it}", A.loc(lp))
    ev = [c for c in A.calls(st) if "attrs.evolve" in A.callee_names(c, st) and is_within(c, lp)]
    if ev and norm(ev[0].args[0]).endswith("_task") and any(k.arg is None for k in ev[0].keywords):
        col.ok(rule, "each state's task is attrs.evolve(<node task>, **resolved): only split/lazy fields change", A.loc(ev[0]))
    else:
        col.fail(rule, st.qualname, "split-task-not-evolved-from-node-task", "per-state tasks are not built by evolving the node's task with the resolved values only", A.loc(lp))
    # the element of a split field is delivered whenever the state's value table has the key: the decision
    # is a membership test / KeyError, never a test on the element itself (None, 0, '' and [] are elements)
    vals_var = None
    if isinstance(lp.target, ast.Tuple):
        for e, a in zip(lp.target.elts, lp.iter.args):
            if norm(a).endswith("state.states_val") and isinstance(e, ast.Name):
                vals_var = e.id
    if vals_var is None:
        raise AnalysisError("C01: the per-state value table of _split_task's zip loop was not recognised")
    reads = [n for n in ast.walk(lp) if (isinstance(n, ast.Subscript) and isinstance(n.value, ast.Name) and n.value.id == vals_var and isinstance(n.ctx, ast.Load)) or (isinstance(n, ast.Call) and isinstance(n.func, ast.Attribute) and n.func.attr in ("get", "pop") and isinstance(n.func.value, ast.Name) and n.func.value.id == vals_var)]
    A.anchor("read of the per-state value table in _split_task", reads)
    for r in reads:
        stmt = next(p_ for p_ in parents(r) if isinstance(p_, ast.stmt))
        elem_names = {t.id for t in getattr(stmt, "targets", []) if isinstance(t, ast.Name)} if isinstance(stmt, ast.Assign) else set()
        tested = [i for i in ast.walk(lp) if isinstance(i, ast.If) and any(isinstance(k, ast.Name) and k.id in elem_names for k in ast.walk(i.test))]
        tested += [i for i in ast.walk(lp) if isinstance(i, (ast.If, ast.IfExp)) and any(k is r for k in ast.walk(i.test))]
        is_get = isinstance(r, ast.Call)
        if tested:
            col.fail(rule, st.qualname, "element-delivery-decided-by-its-value", f"`{norm(tested[0].test, 50)}` decides from the element read by `{norm(r)}` whether it is delivered to the job: an element that is None (or otherwise falsy) is not delivered, and the job keeps the whole list that is split over", A.loc(tested[0]))
        elif is_get and not (isinstance(stmt, ast.Assign) and isinstance(stmt.targets[0], ast.Subscript)):
            col.fail(rule, st.qualname, "element-read-with-default", f"`{norm(r)}` cannot tell a missing key from an element that equals the default", A.loc(r))
        else:
            col.ok(rule, f"`{norm(stmt, 50)}`: the element is delivered whenever the key is present (KeyError / membership decides)", A.loc(r))
    # the value of a split field comes from vals[state_key]
    # f"{self.node.name}.{<loop variable over the node's input names>}" -- recognised by shape, not by the variable's name
    in_loops = [l for l in walk_own(st.node) if isinstance(l, ast.For) and isinstance(l.target, ast.Name) and "input_names" in norm(l.iter)]
    in_vars = {l.target.id for l in in_loops}
    keys = [n for n in walk_own(st.node) if isinstance(n, ast.Assign) and isinstance(n.value, ast.JoinedStr) and any(isinstance(k, ast.Name) and k.id in in_vars for k in ast.walk(n.value))]
    if keys and any(norm(keys[0].value) == f"f'{{self.node.name}}.{{{v_}}}'" for v_ in in_vars):
        col.ok(rule, "state key of an input is '<node name>.<input name>'", A.loc(keys[0]))
    else:
        col.fail(rule, st.qualname, "state-key-format", "the key used to look a split value up is not '<node>.<input>'", A.loc(st.node))


def implicit_split_workflow(A: Analysis, col: Collector, rule: str):
    fn = A.func("pydra.engine.submitter.Submitter.__call__")
    col.scope(fn.qualname)
    cfg = A.cfg(fn)
    tests = [n for n in cfg.nodes if n.kind == "test" and norm(n.stmt.test) == "task._splitter"]
    A.anchor("`if task._splitter` in Submitter.__call__", tests)
    t = tests[0]
    body = t.stmt.body
    rebinds = [s for s in ast.walk(ast.Module(body=body, type_ignores=[])) if isinstance(s, ast.Assign) and any(isinstance(x, ast.Name) and x.id == "task" for x in s.targets)]
    uses_wf = any(isinstance(d, ast.FunctionDef) and any("workflow.define" in norm(dd) for dd in d.decorator_list) for d in body)
    adds = any(isinstance(c, ast.Call) and norm(c.func) == "workflow.add" for d in body for c in ast.walk(d))
    if rebinds and uses_wf and adds:
        col.ok(rule, "a split task is wrapped in an implicit workflow whose single node is the task (no Job of a split task is built outside NodeExecution.start)", A.loc(t.stmt))
    else:
        col.fail(rule, fn.qualname, "split-task-not-wrapped", "Submitter.__call__ no longer wraps a split task into the implicit 'Split' workflow: the task would run once with the whole lists", A.loc(t.stmt))
    # State built from the task's own splitter / combiner / container_ndim
    sc = [c for c in A.calls(fn) if f"{STATE}" in A.callee_names(c, fn)]
    for c in sc:
        want = {"splitter": "task._splitter", "combiner": "task._combiner", "container_ndim": "task._container_ndim"}
        bad = [k for k, v in want.items() if v not in norm(kwarg(c, k))]
        if bad:
            col.fail(rule, fn.qualname, "outer-state-args:" + "+".join(bad), f"the outer State is not built from the task's {bad}", A.loc(c))
        else:
            col.ok(rule, "the outer State (output typing) is built from the task's splitter, combiner and container_ndim", A.loc(c))


@prop(
    "C01",
    technique="dominance (edge-labelled) over the CFG of State.splits for the inner-split shape check; operator-table extraction; dominance of job construction by state preparation",
    decides="one clause plus its wiring: inner splits over fields of different lengths are rejected before any job runs -- (a) the operator table maps '.' to zip and '*' to itertools.product, and in State.splits the operator application under '.' is reachable only through the equal-shape branch of a comparison of the two operands' shapes whose other branch raises; (b) State.prepare_states (which reaches splits) dominates the construction of a split node's jobs, one job per enumerated state with matching index, each task evolved from the node task with only the resolved fields changed; Submitter.__call__ wraps a split task into the implicit workflow. Additionally: in _split_task the element of a split field is delivered on key membership / KeyError, never on a test of the element's value.",
    not_decided="that the enumeration is the outer/inner product in the stated order for nested splitters, that each job receives the matching element, ordering of outputs, empty splits -- index arithmetic over runtime lists.",
    level_note="Trusted: CPython zip/itertools.product semantics.",
)
def check_c01(A: Analysis, col: Collector):
    _op_table(A, col, "C01.op-table")
    inner_split_shape_check(A, col, "C01.inner-shape")
    jobs_after_prepare(A, col, "C01.jobs")
    implicit_split_workflow(A, col, "C01.wrap")


# --------------------------------------------------------------------------- #
# C04
# --------------------------------------------------------------------------- #


def depth_step_rule(A: Analysis, col: Collector, rule: str):
    """recursive descents over nested containers move their depth counter by exactly one per level: either
    on entry (`d -= 1`) or in the argument of the recursive call (`d - 1` / `d + 1`), never both, never
    neither.  The job count (input_shape) and the element extraction (flatten) agree only then."""
    n_fn = 0
    for f in [f for f in A.repo.functions.values() if f.module.name == "pydra.engine.state" and f.cls is None]:
        rec = [c for c in A.calls(f) if isinstance(c.func, ast.Name) and c.func.id == f.name]
        params = [p_.arg for p_ in f.params()]
        # a descent into the elements of the container: the recursive call's first argument is the target of a
        # loop over the function's first parameter
        elem_vars = {l.target.id for l in walk_own(f.node) if isinstance(l, ast.For) and isinstance(l.target, ast.Name) and params and isinstance(l.iter, ast.Name) and l.iter.id == params[0]}
        rec = [c for c in rec if c.args and isinstance(c.args[0], ast.Name) and c.args[0].id in elem_vars]
        if not rec:
            continue
        for i, pname in enumerate(params):
            entry = [n for n in f.node.body if isinstance(n, ast.AugAssign) and isinstance(n.target, ast.Name) and n.target.id == pname and isinstance(n.op, (ast.Sub, ast.Add)) and isinstance(n.value, ast.Constant) and n.value.value == 1]
            per_call = []
            for c in rec:
                a = c.args[i] if i < len(c.args) else kwarg(c, pname)
                stepped = isinstance(a, ast.BinOp) and isinstance(a.op, (ast.Sub, ast.Add)) and isinstance(a.left, ast.Name) and a.left.id == pname and isinstance(a.right, ast.Constant) and a.right.value == 1
                passed = isinstance(a, ast.Name) and a.id == pname
                per_call.append((c, 1 if stepped else 0, stepped or passed))
            compared = any(isinstance(k, ast.Compare) and isinstance(k.left, ast.Name) and k.left.id == pname and isinstance(k.ops[0], (ast.Gt, ast.GtE, ast.Lt, ast.LtE)) for k in walk_own(f.node))
            if not entry and not any(st_ for _, st_, _ in per_call) and not (compared and all(fw for _, _, fw in per_call)):
                continue  # not a depth counter
            n_fn += 1
            col.scope(f.qualname)
            for c, st_, forwarded in per_call:
                steps = len(entry) + st_
                if steps == 1 and forwarded:
                    col.ok(rule, f"{f.name}: `{pname}` moves by one per level of nesting ({'on entry' if entry else 'in the recursive call'})", A.loc(c))
                else:
                    col.fail(rule, f.qualname, f"depth-counter-steps-per-level:{pname}:{steps}", f"{f.name} moves its depth counter `{pname}` {steps} time(s) per level (`{norm(entry[0]) if entry else 'no step on entry'}` and `{norm(c, 50)}`): with a container dimension of 3 or more the shape loses inner dimensions while the extraction still flattens to the full depth, so the trailing elements never get a job", A.loc(c))
    if n_fn < 2:
        raise AnalysisError(f"C04: {n_fn} recursive descents with a depth counter found in pydra.engine.state; floor 2 (input_shape, flatten)")


def container_ndim_propagation_rule(A: Analysis, col: Collector, rule: str):
    """a state takes over the complete input and container-dimension tables of every upstream state: the
    indices it generates for inherited fields are evaluated with these dimensions"""
    ps = A.func(f"{STATE}.prepare_states")
    col.scope(ps.qualname)
    loops = [l for l in walk_own(ps.node) if isinstance(l, ast.For) and any(isinstance(a, ast.Attribute) and a.attr == "other_states" for a in ast.walk(l.iter))]
    A.anchor("loop over self.other_states in State.prepare_states", loops)
    n_up = 0
    for l in loops:
        svars = {e.id for e in ast.walk(l.target) if isinstance(e, ast.Name)}
        for c in [c for c in ast.walk(l) if isinstance(c, ast.Call) and isinstance(c.func, ast.Attribute) and c.func.attr == "update" and isinstance(c.func.value, ast.Attribute) and norm(c.func.value.value) == "self"]:
            n_up += 1
            a = c.args[0] if c.args else None
            whole = isinstance(a, ast.Attribute) and isinstance(a.value, ast.Name) and a.value.id in svars
            if whole:
                col.ok(rule, f"self.{c.func.value.attr} takes over the upstream state's complete `{a.attr}`", A.loc(c))
            else:
                col.fail(rule, ps.qualname, f"upstream-table-partially-merged:{c.func.value.attr}", f"`{norm(c, 70)}` merges only part of the upstream state's table into self.{c.func.value.attr}: entries the upstream state itself inherited (e.g. the container dimension of a field split two nodes upstream) are lost, and the indices generated for them are evaluated with dimension 1", A.loc(c))
    if n_up < 2:
        raise AnalysisError(f"C04: {n_up} upstream-table merges in State.prepare_states; floor 2 (inputs, container_ndim)")


@prop(
    "C04",
    technique="enumeration-agreement rule (def-use): the per-field index bound and the element extraction must be derived from the same enumeration of the nested container",
    decides="the number of jobs a split field contributes (index bound in State._processing_terms / _single_op_splits) derives from the length of the same flattening that extracts the element for each job (flatten(value, max_depth=container_ndim) in map_splits / State._get_element); a bound derived from prod(input_shape(...)) counts elements correctly only for rectangular nestings because input_shape shortens the shape on its mismatch branch.",
    not_decided="depth-first order of the flattening, interaction with outer/inner splitters, container_ndim deeper than the nesting; decided additionally: the recursive descents (input_shape, flatten) move their depth counter exactly once per level, and a state takes over the complete container-dimension table of its upstream states.",
    level_note="Trusted: def-use analysis (flow-insensitive) inside the three functions.",
)
def check_c04(A: Analysis, col: Collector):
    depth_step_rule(A, col, "C04.depth")
    container_ndim_propagation_rule(A, col, "C04.propagate")
    sites = []
    for q in (f"{STATE}._processing_terms", f"{STATE}._single_op_splits"):
        fn = A.func(q)
        col.scope(fn.qualname)
        for n in walk_own(fn.node):
            if isinstance(n, ast.Assign) and isinstance(n.value, ast.Call) and dotted(n.value.func) == "range" and isinstance(n.targets[0], ast.Name):
                sites.append((fn, n))
    if len(sites) < 2:
        raise AnalysisError(f"C04: {len(sites)} index-bound sites; floor 2")
    # extraction sites
    ext = []
    for q in ("pydra.engine.state.map_splits", f"{STATE}._get_element"):
        fn = A.func(q)
        col.scope(fn.qualname)
        for c in A.calls(fn):
            if any(x.endswith("state.flatten") for x in A.callee_names(c, fn)):
                ext.append((fn, c))
    A.anchor("flatten-based extraction", ext)
    for fn, c in ext:
        md = kwarg(c, "max_depth")
        if md is not None and "container_ndim" in norm(md):
            col.ok("C04.extract", f"{fn.qualname}: element extraction is list(flatten(value, max_depth=container_ndim))[index]", A.loc(c))
        else:
            col.fail("C04.extract", fn.qualname, f"extraction-depth:{norm(md, 30)}", "element extraction does not flatten to the field's container_ndim", A.loc(c))
    per_fn: dict[str, int] = {}
    for fn, n in sites:
        roots0 = A.flow.derives(n.value, fn)
        if any(x.endswith("state.input_shape") for x in roots0.calls):
            per_fn[fn.qualname] = per_fn.get(fn.qualname, 0) + 1
    for fn, n in sites:
        roots = A.flow.derives(n.value, fn)
        via_flatten = any(x.endswith("state.flatten") for x in roots.calls)
        via_shape = any(x.endswith("state.input_shape") for x in roots.calls)
        if via_flatten and not via_shape:
            col.ok("C04.bound", f"{fn.qualname}: the index bound is the length of the flattening used for extraction", A.loc(n))
        elif via_shape:
            col.fail(
                "C04.bound",
                fn.qualname,
                f"index-bound-from-input_shape:x{per_fn.get(fn.qualname, 1)}",
                f"`{norm(n, 60)}`: the number of jobs is prod(input_shape(value, container_ndim)) while each job's element is taken from flatten(value, max_depth=container_ndim); input_shape drops the inner dimensions when the nested lists differ in length, so for ragged input the bound is smaller than the flattening and trailing elements are never visited",
                A.loc(n),
            )
        else:
            col.fail("C04.bound", fn.qualname, "index-bound-unrelated:" + "+".join(sorted(x.rsplit(".", 1)[-1] for x in roots.calls)), f"`{norm(n, 60)}`: the index bound derives neither from the flattening nor from input_shape", A.loc(n))
    # input_shape's mismatch branch (documents why prod(shape) is not the element count)
    ish = A.func("pydra.engine.state.input_shape")
    trunc = [n for n in walk_own(ish.node) if isinstance(n, ast.If) and isinstance(n.test, ast.Compare) and isinstance(n.test.ops[0], ast.NotEq) and "shape" in norm(n.test)]
    col.notes["input_shape_mismatch_branches"] = [A.loc(t) for t in trunc]


# --------------------------------------------------------------------------- #
# C05
# --------------------------------------------------------------------------- #


def _raises_before(A: Analysis, col: Collector, rule: str, fn: FuncInfo, target_pred, what: str, min_raises: int, raise_filter=None):
    """every validation `raise` in fn is on a path that cannot be bypassed to reach the
    target: i.e. each raising test node dominates-or-excludes the target.  Implemented
    as: no `raise` statement is reachable *from* the target (checks after the act), and
    at least `min_raises` raises can reach... precede it."""
    cfg = A.cfg(fn)
    targets = [n for n in cfg.nodes if target_pred(n)]
    A.anchor(f"{what} in {fn.qualname}", targets)
    raises = [n for n in cfg.nodes if n.kind == "raise" and (raise_filter is None or raise_filter(n))]
    before = 0
    for r in raises:
        late = False
        for t in targets:
            reach = cfg.reachable_from([m for l, m in t.succ if l != "x"])
            if r.id in reach and t.id not in cfg.reachable_from([r]):
                late = True
        if late:
            col.fail(rule, fn.qualname, f"validation-after-act:{norm(r.stmt.exc.func if isinstance(r.stmt.exc, ast.Call) else r.stmt.exc, 20)}:{_msg_head(r)}", f"a validation error (`{norm(r.stmt, 60)}`) is raised only after {what}", A.loc(r.stmt))
        else:
            before += 1
            col.ok(rule, f"{fn.qualname}: `{norm(r.stmt, 50)}` precedes {what}", A.loc(r.stmt))
    if before < min_raises:
        col.fail(rule, fn.qualname, f"validations-missing:{before}<{min_raises}", f"only {before} validation raises precede {what} (expected at least {min_raises})", A.loc(fn.node))


def _msg_head(r: Node) -> str:
    e = r.stmt.exc
    if isinstance(e, ast.Call) and e.args:
        a = e.args[0]
        if isinstance(a, ast.JoinedStr):
            s = "".join(str(v.value) for v in a.values if isinstance(v, ast.Constant))
        elif isinstance(a, ast.Constant):
            s = str(a.value)
        else:
            s = norm(a, 30)
        return "-".join(s.split()[:4])
    return ""


SPLIT_CHECKS = {
    "duplicated": lambda t: "Counter" in t or "duplicated" in t,
    "missing-values": lambda t: "split_names - input_names" in t or "missing_inputs" in t,
    "unrecognised-values": lambda t: "input_names - split_names" in t or "unrecognised_inputs" in t,
    "container_ndim-field": lambda t: "not in split_names" in t,
}


@prop(
    "C05",
    technique="dominance / reachability ordering of validation raises relative to the state-changing act (attrs.evolve, Job construction, prepare_states_ind) on CFGs; presence table of the documented checks",
    decides="the rejection-ordering clause: (a) in Task.split the five documented checks (existing splitter, duplicated fields, missing values, unrecognised values, container_ndim for a field not split) and the non-sequence TypeError all precede the attrs.evolve that produces the split task, and Task.combine rejects unknown fields and an existing combiner before copying; (b) Submitter.__call__ raises for combiner-without-splitter and checks rules before Job construction/submit; (c) State.prepare_states runs splitter_validation and combiner_validation before prepare_states_ind; (d) Node._set_state raises for combiner fields not in the splitter when it builds the State, through a filter that name qualification does not make unsatisfiable; (f) _ordering appends the operator once on the one-element unwrapping path; (g) Task.split sets every init=False split/combine field on the evolved copy; (h) splitter/combiner read from a task are deep-copied before qualification; (e) both expanders construct the workflow (hence every node state) before the first get_runnable_tasks.",
    not_decided="equivalence of splitter spellings / re-bracketings (RPN algebra over runtime values).",
    level_note="Trusted: CFG construction; the presence table SPLIT_CHECKS recognises each check by the variables its test compares.",
)
def check_c05(A: Analysis, col: Collector):
    jobs_after_prepare(A, col, "C05.jobs")
    sp = A.func("pydra.compose.base.task.Task.split")
    col.scope(sp.qualname)
    is_evolve = lambda n: any("attrs.evolve" in A.callee_names(c, sp) for c in _calls(n))
    _raises_before(A, col, "C05.split", sp, is_evolve, "attrs.evolve (creation of the split task)", 6)
    # presence of each documented check
    tests = [norm(n.test) for n in walk_own(sp.node) if isinstance(n, ast.If)]
    for name, pred in SPLIT_CHECKS.items():
        hit = [t for t in tests if pred(t)]
        if hit:
            col.ok("C05.split", f"Task.split checks `{name}` (`{hit[0][:60]}`)", A.loc(sp.node))
        else:
            col.fail("C05.split", sp.qualname, f"check-missing:{name}", f"Task.split no longer rejects `{name}`", A.loc(sp.node))
    # the guard against splitting / combining twice rejects unless `overwrite`: its test is exactly
    # `<stored request> and not <overwrite parameter>`; any further conjunct narrows the rejection
    for fq, attr in (("pydra.compose.base.task.Task.split", "_splitter"), ("pydra.compose.base.task.Task.combine", "_combiner")):
        f = A.func(fq)
        guards = [n for n in walk_own(f.node) if isinstance(n, ast.If) and n.body and isinstance(n.body[-1], ast.Raise) and any(isinstance(a, ast.Attribute) and a.attr == attr and isinstance(a.value, ast.Name) and a.value.id == "self" for a in ast.walk(n.test))]
        A.anchor(f"guard on self.{attr} in {f.name}", guards)
        params = {p_.arg for p_ in f.params()}
        for g in guards:
            ops = g.test.values if isinstance(g.test, ast.BoolOp) and isinstance(g.test.op, ast.And) else [g.test]
            stored = [o for o in ops if isinstance(o, ast.Attribute) and o.attr == attr]
            negflag = [o for o in ops if isinstance(o, ast.UnaryOp) and isinstance(o.op, ast.Not) and isinstance(o.operand, ast.Name) and o.operand.id in params]
            extra = [o for o in ops if o not in stored and o not in negflag]
            if stored and negflag and not extra:
                col.ok("C05.split", f"{f.name}: a second {attr.strip('_')} is rejected on exactly `{norm(g.test)}`", A.loc(g))
            else:
                col.fail("C05.split", f.qualname, f"twice-guard-narrowed:{attr}:" + "&".join(shape(o, 40) for o in extra), f"the guard against setting a {attr.strip('_')} twice is `{norm(g.test, 80)}`: the extra condition(s) {[norm(o, 40) for o in extra]} let some repeated requests through without overwrite=True (the earlier values are silently replaced), and whether the request is rejected depends on how it is spelled", A.loc(g))
    # a check that reads an exhausted iterator sees nothing and never fires: no single-use iterator
    # (generator call / generator expression / map, filter, zip ...) bound to a local is read twice
    import ast as _ast

    pos = _ast.parse("def f(y):\n    g = (x for x in y)\n    a = set(g)\n    return a, list(g)\n").body[0]
    if len(A.iter_reuse_in(pos, lambda c: False)) != 1:
        raise AnalysisError("C05: the single-use-iterator rule no longer matches its built-in positive example")
    val_fns = [sp, A.func("pydra.compose.base.task.Task.combine"), A.func("pydra.engine.node.Node._set_state"), A.func("pydra.engine.submitter.Submitter.__call__")] + [f for f in A.repo.functions.values() if f.module.name == "pydra.engine.state"]
    for f in val_fns:
        col.scope(f.qualname)
        for nm, v, loads in A.iter_reuse(f):
            col.fail("C05.exhausted", f.qualname, f"single-use-iterator-read-{len(loads)}-times:{shape(v, 60)}", f"`{norm(v, 60)}` is a single-use iterator bound to a local that is read {len(loads)} times in {f.name}: the second reader (`{norm(getattr(loads[1], '_parent', loads[1]), 60)}`) sees it exhausted, so a validation built on it can never fire (e.g. the duplicated-field check after the names were collected into a set)", A.loc(loads[1]))
    col.ok("C05.exhausted", f"{len(val_fns)} split/combine/state functions: no single-use iterator is bound to a local and read twice (built-in positive example matched)", "")
    cb = A.func("pydra.compose.base.task.Task.combine")
    col.scope(cb.qualname)
    is_copy = lambda n: any(A.callee_names(c, cb) & {"copy.copy", "copy.deepcopy", "attrs.evolve"} for c in _calls(n))
    _raises_before(A, col, "C05.combine", cb, is_copy, "copy (creation of the combined task)", 2)
    sc = A.func("pydra.engine.submitter.Submitter.__call__")
    col.scope(sc.qualname)
    cfg = A.cfg(sc)
    job_nodes = [n for n in cfg.nodes if any("pydra.engine.job.Job" in A.callee_names(c, sc) for c in _calls(n))]
    A.anchor("Job( in Submitter.__call__", job_nodes)
    comb_tests = [n for n in cfg.nodes if n.kind == "test" and norm(n.stmt.test) == "task._combiner"]
    ok = False
    for t in comb_tests:
        esc = explore(cfg, [(m, None) for l, m in t.succ if l == "T"], A.rm.tokens_fn(sc), stop=lambda n: n in job_nodes)
        reach_job = any(j.id in cfg.reachable_from([m for l, m in t.succ if l == "T"], labels={"n", "T", "F"}) for j in job_nodes)
        # it must be on the not-split branch
        split_tests = [n for n in cfg.nodes if n.kind == "test" and norm(n.stmt.test) == "task._splitter"]
        on_else = split_tests and cfg.dominated_by_edge(t, lambda n: n in split_tests, "F")
        if not reach_job and on_else:
            ok = True
    if ok:
        col.ok("C05.submit", "Submitter.__call__: combiner without splitter raises before any Job is constructed", A.loc(sc.node))
    else:
        col.fail("C05.submit", sc.qualname, "combiner-without-splitter-not-rejected", "Submitter.__call__ no longer rejects a task that is combined but not split before creating the job", A.loc(sc.node))
    chk = [n for n in cfg.nodes if any(isinstance(c.func, ast.Attribute) and c.func.attr == "_check_rules" for c in _calls(n))]
    ids = {n.id for n in chk}
    for j in job_nodes:
        if chk and cfg.dominated_by(j, lambda m: m.id in ids):
            col.ok("C05.submit", "task._check_rules() dominates Job construction in Submitter.__call__", A.loc(j.stmt))
        else:
            col.fail("C05.submit", sc.qualname, "job-before-check_rules", "the job is constructed before task._check_rules()", A.loc(j.stmt))
    ps = A.func(f"{STATE}.prepare_states")
    col.scope(ps.qualname)
    cfgp = A.cfg(ps)
    ind = [n for n in cfgp.nodes if any(isinstance(c.func, ast.Attribute) and c.func.attr == "prepare_states_ind" for c in _calls(n))]
    A.anchor("prepare_states_ind call", ind)
    for name in ("splitter_validation", "combiner_validation"):
        v = {n.id for n in cfgp.nodes if any(isinstance(c.func, ast.Attribute) and c.func.attr == name for c in _calls(n))}
        if v and all(cfgp.dominated_by(i, lambda m: m.id in v) for i in ind):
            col.ok("C05.state", f"State.prepare_states: {name}() dominates prepare_states_ind()", A.loc(ind[0].stmt))
        else:
            col.fail("C05.state", ps.qualname, f"{name}-not-before-expansion", f"{name}() does not dominate the index expansion", A.loc(ind[0].stmt))
    for q, floor in ((f"{STATE}.splitter_validation", 1), (f"{STATE}.combiner_validation", 2)):
        f = A.func(q)
        nr = sum(1 for n in walk_own(f.node) if isinstance(n, ast.Raise))
        if nr >= floor:
            col.ok("C05.state", f"{q} raises PydraStateError in {nr} case(s)", A.loc(f.node))
        else:
            col.fail("C05.state", q, f"validation-raises:{nr}<{floor}", f"{q} has {nr} raise statements, expected at least {floor}", A.loc(f.node))
    ns = A.func("pydra.engine.node.Node._set_state")
    col.scope(ns.qualname)
    found = False
    for n in walk_own(ns.node):
        if isinstance(n, ast.If) and "not_split" in norm(n.test) and any(isinstance(k, ast.Raise) for k in n.body):
            # inside the branch that builds the State, under `if combiner`
            ctx = [norm(p.test) for p in parents(n) if isinstance(p, ast.If)]
            if any("combiner" in c for c in ctx) and any("splitter or combiner" in c or "other_states" in c for c in ctx):
                found = True
                col.ok("C05.node", "Node._set_state raises for combiner fields that are not in the splitter, on the path that builds the State (workflow construction time)", A.loc(n))
    if not found:
        col.fail("C05.node", ns.qualname, "combiner-not-in-splitter-unchecked", "Node._set_state no longer rejects combiner fields that are not split", A.loc(ns.node))
    # ... and the test can fire: the names it looks at come out of add_name_combiner, which qualifies every
    # name with "<node>.", so a conjunct requiring a name WITHOUT a "." makes the whole filter unsatisfiable
    qualified = set()
    for n in walk_own(ns.node):
        if isinstance(n, ast.Assign) and isinstance(n.value, ast.Call) and any(q.endswith("add_name_combiner") for q in A.callee_names(n.value, ns)):
            qualified |= {t.id for t in n.targets if isinstance(t, ast.Name)}
    for comp in [n for n in walk_own(ns.node) if isinstance(n, (ast.ListComp, ast.GeneratorExp, ast.SetComp))]:
        for gen in comp.generators:
            if isinstance(gen.iter, ast.Name) and gen.iter.id in qualified and isinstance(gen.target, ast.Name):
                ev = gen.target.id
                dead = [c for cond in gen.ifs for c in ([cond] + (cond.values if isinstance(cond, ast.BoolOp) and isinstance(cond.op, ast.And) else [])) if isinstance(c, ast.Compare) and len(c.ops) == 1 and isinstance(c.ops[0], ast.NotIn) and isinstance(c.left, ast.Constant) and c.left.value == "." and isinstance(c.comparators[0], ast.Name) and c.comparators[0].id == ev]
                if dead:
                    col.fail("C05.node", ns.qualname, "combiner-check-unsatisfiable", f"the filter `{norm(gen.ifs[0], 80)}` requires a combiner name without a '.', but `{gen.iter.id}` comes out of add_name_combiner, which qualifies every name with the node name: the check can never fire, and a combiner field that is not split is rejected only when the node is started, after the upstream jobs have run", A.loc(comp))
                else:
                    col.ok("C05.node", f"the not-split filter over `{gen.iter.id}` (qualified names) has no conjunct that qualification makes unsatisfiable", A.loc(comp))
    # one-element list/tuple unwrapping in _ordering: the nested call adds the operator, so the path through
    # it must not reach the trailing append of the sign as well
    od = A.func("pydra.engine.state._ordering")
    col.scope(od.qualname)
    ocfg = A.cfg(od)
    sign_param = None
    finals = []
    for n in ocfg.nodes:
        if n.kind == "stmt" and isinstance(n.stmt, ast.Expr) and isinstance(n.stmt.value, ast.Call) and isinstance(n.stmt.value.func, ast.Attribute) and n.stmt.value.func.attr == "append" and n.stmt.value.args and isinstance(n.stmt.value.args[0], ast.Name) and n.stmt.value.args[0].id in {p_.arg for p_ in od.params()}:
            # append(<param>) directly in the function body (not nested in the type dispatch)
            if n.stmt in od.node.body or any(n.stmt in getattr(b, "body", []) for b in od.node.body if isinstance(b, ast.If) and b in od.node.body and b is od.node.body[-1]):
                finals.append(n)
                sign_param = n.stmt.value.args[0].id
    A.anchor("trailing append(current_sign) in _ordering", finals)
    rec = [n for n in ocfg.nodes if n.stmt is not None and n.kind in ("stmt", "return") and any(isinstance(c.func, ast.Name) and c.func.id == od.name and any(isinstance(a_, ast.Name) and a_.id == sign_param for a_ in list(c.args) + [k.value for k in c.keywords]) for c in _calls(n))]
    A.anchor("self-call of _ordering forwarding the sign (one-element unwrapping)", rec)
    final_ids = {f.id for f in finals}
    for r in rec:
        reach = ocfg.reachable_from([m for l, m in r.succ if l in ("n", "T", "F")], labels={"n", "T", "F"})
        if reach & final_ids:
            col.fail("C05.unwrap", od.qualname, "sign-appended-twice-after-unwrapping", f"after `{norm(r.stmt, 70)}` (which appends the operator itself) control falls through to `{norm(finals[0].stmt)}`: a one-element list/tuple that is not the first operand emits its operator twice, so ['a', ['b']] is not equivalent to ['a', 'b'] (malformed RPN)", A.loc(r.stmt))
        else:
            col.ok("C05.unwrap", "_ordering: the one-element unwrapping returns the nested call; the operator is appended once", A.loc(r.stmt))
    # split() builds the new task with attrs.evolve, which resets every init=False field: the split/combine
    # state fields must be set on the evolved copy
    tcls = A.cls("pydra.compose.base.task.Task")
    state_fields = [nm for nm, asg in tcls.class_assigns.items() if isinstance(asg.value, ast.Call) and norm(asg.value.func).endswith("field") and (kw := kwarg(asg.value, "init")) is not None and isinstance(kw, ast.Constant) and kw.value is False and nm in ("_splitter", "_combiner", "_container_ndim")]
    if len(state_fields) < 3:
        raise AnalysisError(f"C05: init=False split/combine fields of Task: {state_fields}")
    for n in walk_own(sp.node):
        if isinstance(n, ast.Assign) and isinstance(n.value, ast.Call) and "attrs.evolve" in A.callee_names(n.value, sp) and isinstance(n.targets[0], ast.Name):
            var = n.targets[0].id
            setf = {t.attr for a_ in walk_own(sp.node) if isinstance(a_, ast.Assign) for t in a_.targets if isinstance(t, ast.Attribute) and isinstance(t.value, ast.Name) and t.value.id == var}
            for fld in state_fields:
                if fld in setf:
                    col.ok("C05.carry", f"Task.split sets {fld} on the evolved copy", A.loc(n))
                else:
                    col.fail("C05.carry", sp.qualname, f"evolved-copy-loses:{fld}", f"Task.split builds the new task with attrs.evolve, which resets the init=False field {fld}, and does not set it on the copy: a {fld.strip('_')} requested before split() is silently dropped (neither honoured nor rejected)", A.loc(n))
    # the splitter / combiner read from a task are deep-copied before they are handed to name
    # qualification and to State, which rewrite nested lists/tuples in place: without the copy the
    # task's own splitter is rewritten, and a second use of the same task (re-running it, adding it
    # to another workflow) sees a different splitter than the first
    for q in ("pydra.engine.node.Node._set_state", "pydra.engine.submitter.Submitter.__call__"):
        f = A.func(q)
        for a in walk_own(f.node):
            if isinstance(a, ast.Attribute) and a.attr in ("_splitter", "_combiner") and isinstance(a.ctx, ast.Load):
                par = getattr(a, "_parent", None)
                in_test = False
                for p_ in parents(a):
                    if isinstance(p_, ast.If) and is_within(a, p_.test):
                        in_test = True
                    if isinstance(p_, (ast.JoinedStr, ast.Raise)):
                        in_test = True
                    if isinstance(p_, ast.stmt):
                        break
                copied = isinstance(par, ast.Call) and (dotted(par.func) or "").endswith("deepcopy")
                if in_test:
                    continue
                if copied:
                    col.ok("C05.alias", f"{f.name}: `{norm(a)}` is deep-copied before it is qualified / handed to State", A.loc(a))
                else:
                    col.fail("C05.alias", f.qualname, f"task-{a.attr.strip('_')}-aliased", f"`{norm(a)}` is used without deepcopy: name qualification (_add_name) and State rewrite nested splitter lists in place, so the task's own {a.attr.strip('_')} is modified and a later use of the same task runs different jobs than an equivalent fresh spelling", A.loc(a))
    post = A.cls("pydra.engine.node.Node").find_method("__attrs_post_init__")
    if post is not None and any(isinstance(c.func, ast.Attribute) and c.func.attr == "_set_state" for c in A.calls(post)):
        col.ok("C05.node", "Node.__attrs_post_init__ runs _set_state (at workflow construction)", A.loc(post.node))
    else:
        col.fail("C05.node", "pydra.engine.node.Node", "set_state-not-at-construction", "Node no longer runs _set_state when it is created", A.loc(ns.node))
    sub = A.cls("pydra.engine.submitter.Submitter")
    for name in ("expand_workflow", "expand_workflow_async"):
        f = sub.find_method(name)
        cfgf = A.cfg(f)
        # a call of a private method of the submitter that itself constructs the workflow counts as the construction
        constructing = {m.name for m in sub.methods.values() if m.name.startswith("_") and any(isinstance(c.func, ast.Attribute) and c.func.attr == "construct" for c in A.calls(m))}
        cons = {n.id for n in cfgf.nodes if any(isinstance(c.func, ast.Attribute) and (c.func.attr == "construct" or (c.func.attr in constructing and dotted(c.func.value) == "self")) for c in _calls(n))}
        gets = [n for n in cfgf.nodes if any(isinstance(c.func, ast.Attribute) and c.func.attr == "get_runnable_tasks" for c in _calls(n))]
        if cons and gets and all(cfgf.dominated_by(g, lambda m: m.id in cons) for g in gets):
            col.ok("C05.expand", f"{name}: <task>.construct() dominates every get_runnable_tasks()", A.loc(f.node))
        else:
            col.fail("C05.expand", f.qualname, "runnable-before-construct", f"{name} asks for runnable tasks before the workflow (and its node states) is constructed", A.loc(f.node))
