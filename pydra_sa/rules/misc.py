"""Thin structural clauses: C20 (converter wiring + exclusion table), C29
(getstate/setstate agreement), C30 (construction memo soundness), C32 (dictionary
round-trip key agreement), C33/C34 (file collection / staging def-use), C37
(topological-order obligations)."""

from __future__ import annotations

import ast

from ..engine import Analysis
from ..model import AnalysisError, FuncInfo, ClassInfo, dotted, norm, walk_own, parents, kwarg, is_within, shape, alpha
from ..sigcheck import func_signature, attrs_fields
from ..report import Collector
from . import prop


# --------------------------------------------------------------------------- #
# C20
# --------------------------------------------------------------------------- #


@prop(
    "C20",
    technique="wiring rule on the attrs.field(...) calls that create task inputs/outputs (converter + on_setattr), return-path rule on make_converter, exclusion-table extraction from TypeParser",
    decides="(a) every attrs.field created for a task input in build_task_class has converter=make_converter(...) and on_setattr=attrs.setters.convert (assignment-time conversion/rejection), every output field has converter=make_converter(...); every return path of make_converter ends in the TypeParser instance (directly or as the last element of attrs.converters.pipe); (b) NOT_COERCIBLE_DEFAULT contains (str, Sequence) and (Sequence, str), has a (str, T) entry for every coercible (S, T) whose source S is an abstract type str is an instance of, is the default of TypeParser.__init__'s not_coercible parameter, and no in-repo TypeParser(...) call for field conversion overrides not_coercible or passes coercible=None.",
    not_decided="the coercion recursion over nested types and unions, idempotence of coercion in general (runtime reflection over typing objects); decided structurally: compound coercers return only coerce_obj(<every element through expand_and_coerce>, type), and a str never reaches the sequence coercer with type(obj).",
    level_note="Trusted: attrs runs converters on __init__ and, with on_setattr=setters.convert, on assignment.",
)
def check_c20(A: Analysis, col: Collector):
    bt = A.func("pydra.compose.base.builder.build_task_class")
    col.scope(bt.qualname)
    fields = [c for c in A.calls(bt) if "attrs.field" in A.callee_names(c, bt)]
    A.anchor("attrs.field(...) in build_task_class", fields)
    def _through_local(v, fn):
        """a keyword value given through a local bound exactly once is that binding's value"""
        if isinstance(v, ast.Name):
            defs = [d for k, d in A.rs.local_defs(fn).get(v.id, []) if k == "assign"]
            if len(defs) == 1 and isinstance(defs[0], ast.AST):
                return defs[0]
        return v

    def _setattr_converts(v, fn, depth=0) -> tuple[bool, str]:
        """does this on_setattr value store the converted value on assignment?"""
        v = _through_local(v, fn)
        if v is None:
            return False, "no on_setattr"
        if norm(v) in ("attrs.setters.convert", "setters.convert"):
            return True, ""
        if isinstance(v, ast.IfExp):
            for br in (v.body, v.orelse):
                ok_, why_ = _setattr_converts(br, fn, depth)
                if not ok_:
                    return False, why_
            return True, ""
        if isinstance(v, (ast.List, ast.Tuple)) or (isinstance(v, ast.Call) and norm(v.func).endswith("setters.pipe")):
            elts = v.elts if isinstance(v, (ast.List, ast.Tuple)) else v.args
            if any(_setattr_converts(e, fn, depth)[0] for e in elts):
                return True, ""
            return False, f"`{norm(v, 40)}` does not contain attrs.setters.convert"
        if isinstance(v, ast.Name) and depth < 2:
            g = fn.module.functions.get(v.id) if hasattr(fn.module, "functions") else None
            if g is None:
                g = A.repo.functions.get(f"{fn.module.name}.{v.id}")
            if g is not None:
                conv_calls = [c_ for c_ in A.calls(g) if norm(c_.func) in ("attrs.setters.convert", "setters.convert")]
                if not conv_calls:
                    return False, f"{g.name} never calls attrs.setters.convert"
                # the converted value must be what is returned (directly, or handed on to the next setter)
                conv_vars = set()
                for st in walk_own(g.node):
                    if isinstance(st, ast.Assign) and st.value in conv_calls:
                        conv_vars |= {t.id for t in st.targets if isinstance(t, ast.Name)}
                for r in walk_own(g.node):
                    if isinstance(r, ast.Return):
                        names = {k.id for k in ast.walk(r.value)} if False else {k.id for k in ast.walk(r.value) if isinstance(k, ast.Name)} if r.value is not None else set()
                        direct = r.value is not None and any(k in conv_calls for k in ast.walk(r.value))
                        if not direct and not (names & conv_vars):
                            return False, f"{g.name} discards the result of attrs.setters.convert (`{norm(r, 60)}` returns the value as it was assigned): the unconverted value is stored"
                return True, ""
        return False, f"on_setattr=`{norm(v, 40)}` is not attrs.setters.convert"

    for c in fields:
        conv = _through_local(kwarg(c, "converter"), bt)
        on = kwarg(c, "on_setattr")
        if isinstance(conv, ast.Call) and any(q.endswith("make_converter") for q in A.callee_names(conv, bt)):
            col.ok("C20.wiring", "task input field: converter=make_converter(arg, ...)", A.loc(c))
        else:
            col.fail("C20.wiring", bt.qualname, f"input-converter:{norm(conv, 30)}", f"a task input attrs.field is created with converter=`{norm(conv, 40)}` instead of make_converter(...): values are stored without type checking/coercion", A.loc(c))
        on_ok, on_why = _setattr_converts(on, bt)
        if on_ok:
            col.ok("C20.wiring", f"task input field: on_setattr=`{norm(on, 50)}` stores the converted value (assignment-time conversion / rejection)", A.loc(c))
        else:
            col.fail("C20.wiring", bt.qualname, f"on_setattr:{shape(on, 30) if on is not None else None}", f"task input fields are no longer converted on assignment ({on_why}): an uncoercible value assigned after construction is rejected only when the task runs (or never), a coercible one is stored with the wrong type", A.loc(c))
        val = _through_local(kwarg(c, "validator"), bt)
        if isinstance(val, ast.Call) and any(q.endswith("make_validator") for q in A.callee_names(val, bt)):
            col.ok("C20.wiring", "task input field: validator=make_validator(arg, ...) (allowed_values)", A.loc(c))
        else:
            col.fail("C20.wiring", bt.qualname, f"input-validator:{norm(val, 30)}", "task input fields are created without make_validator", A.loc(c))
    bo = A.func("pydra.compose.base.builder.build_outputs_class")
    ofields = [c for c in A.calls(bo) if "attrs.field" in A.callee_names(c, bo)]
    A.anchor("attrs.field(...) in build_outputs_class", ofields)
    for c in ofields:
        conv = kwarg(c, "converter")
        if isinstance(conv, ast.Call) and any(q.endswith("make_converter") for q in A.callee_names(conv, bo)):
            col.ok("C20.wiring", "task output field: converter=make_converter(o, ...)", A.loc(c))
        else:
            col.fail("C20.wiring", bo.qualname, f"output-converter:{norm(conv, 30)}", "output fields are created without make_converter", A.loc(c))
    mc = A.func("pydra.compose.base.builder.make_converter")
    col.scope(mc.qualname)
    tp_vars = set()
    for n in walk_own(mc.node):
        if isinstance(n, ast.Assign) and isinstance(n.value, ast.Call):
            f = n.value.func
            base = f.value if isinstance(f, ast.Subscript) else f
            if (dotted(base) or "").endswith("TypeParser") and isinstance(n.targets[0], ast.Name):
                tp_vars.add(n.targets[0].id)
                # superclass_auto_cast etc. are fine; not_coercible must not be overridden
                if kwarg(n.value, "not_coercible") is not None or (kwarg(n.value, "coercible") is not None and norm(kwarg(n.value, "coercible")) == "None"):
                    col.fail("C20.exclusions", mc.qualname, "field-converter-overrides-coercion-tables", "make_converter builds the TypeParser with its own not_coercible / coercible=None: the str<->Sequence exclusion no longer applies to task fields", A.loc(n))
    if not tp_vars:
        col.fail("C20.wiring", mc.qualname, "no-TypeParser-in-make_converter", "make_converter no longer builds a TypeParser for the field type", A.loc(mc.node))
    rets = [n for n in walk_own(mc.node) if isinstance(n, ast.Return)]
    for r in rets:
        roots = A.flow.derives(r.value, mc)
        ends_in_tp = False
        if isinstance(r.value, ast.Name):
            defs = [p for k, p in A.rs.local_defs(mc).get(r.value.id, []) if k == "assign"]
            ends_in_tp = bool(defs)
            for d in defs:
                if isinstance(d, ast.Name) and d.id in tp_vars:
                    continue
                if isinstance(d, ast.Call) and (dotted(d.func) or "").endswith("pipe") and d.args and isinstance(d.args[0], ast.Starred):
                    # the list being piped ends with the type checker
                    lst = norm(d.args[0].value)
                    appended = [c for c in A.calls(mc) if isinstance(c.func, ast.Attribute) and c.func.attr == "append" and norm(c.func.value) == lst]
                    last = max(appended, key=lambda c: c.lineno) if appended else None
                    if last is not None and last.args and isinstance(last.args[0], ast.Name) and last.args[0].id in tp_vars and last.lineno < d.lineno:
                        continue
                ends_in_tp = False
        if ends_in_tp:
            col.ok("C20.wiring", "make_converter returns the TypeParser itself or a pipe whose last stage is the TypeParser", A.loc(r))
        else:
            col.fail("C20.wiring", mc.qualname, "converter-does-not-end-in-type-check", "a return path of make_converter yields a converter whose last stage is not the TypeParser for the field type", A.loc(r))
    tp = A.cls("pydra.utils.typing.TypeParser")
    col.scope(tp.qualname)
    nc = tp.class_assigns.get("NOT_COERCIBLE_DEFAULT")
    if nc is None:
        raise AnalysisError("TypeParser.NOT_COERCIBLE_DEFAULT not found")
    pairs = set()
    if isinstance(nc.value, ast.Tuple):
        for e in nc.value.elts:
            if isinstance(e, ast.Tuple) and len(e.elts) == 2:
                pairs.add((norm(e.elts[0]).rsplit(".", 1)[-1], norm(e.elts[1]).rsplit(".", 1)[-1]))
    for want in (("str", "Sequence"), ("Sequence", "str")):
        if want in pairs:
            col.ok("C20.exclusions", f"NOT_COERCIBLE_DEFAULT contains {want}: strings are never split into sequences nor sequences joined into strings", A.loc(nc))
        else:
            col.fail("C20.exclusions", tp.qualname, f"exclusion-missing:{want[0]}->{want[1]}", f"NOT_COERCIBLE_DEFAULT no longer excludes {want[0]} -> {want[1]}", A.loc(nc))
    # table agreement: every coercible (S, T) whose source S is an abstract type that str is an instance of
    # needs a (str, T) exclusion, otherwise a string is taken apart into T
    STR_SUPERS = {"Sequence", "Iterable", "Collection", "Container", "Reversible"}
    EXEMPT_TARGETS = {"ndarray": "numpy.ndarray(<str>) raises TypeError (the constructor takes a shape): rejected, not split"}
    cd = tp.class_assigns.get("COERCIBLE_DEFAULT")
    if cd is None:
        raise AnalysisError("TypeParser.COERCIBLE_DEFAULT not found")
    cpairs = []
    srcs = [cd.value] + [n.value for n in ast.walk(tp.node) if isinstance(n, ast.AugAssign) and isinstance(n.target, ast.Name) and n.target.id == "COERCIBLE_DEFAULT"]
    for src in srcs:
        for e in ast.walk(src):
            if isinstance(e, ast.Tuple) and len(e.elts) == 2 and all(isinstance(x, (ast.Name, ast.Attribute)) for x in e.elts):
                cpairs.append((norm(e.elts[0]).rsplit(".", 1)[-1], norm(e.elts[1]).rsplit(".", 1)[-1], e))
    if len(cpairs) < 12:
        raise AnalysisError(f"C20: {len(cpairs)} literal pairs in COERCIBLE_DEFAULT; floor 12")
    n_tab = 0
    for s_, t_, e in cpairs:
        if s_ in STR_SUPERS and t_ != "str":
            n_tab += 1
            if t_ in EXEMPT_TARGETS:
                col.ok("C20.exclusions", f"coercible ({s_}, {t_}): {EXEMPT_TARGETS[t_]}", A.loc(e))
            elif ("str", t_) in pairs:
                col.ok("C20.exclusions", f"coercible ({s_}, {t_}) is matched by the exclusion (str, {t_})", A.loc(e))
            else:
                col.fail("C20.exclusions", tp.qualname, f"str-split-into:{t_}", f"COERCIBLE_DEFAULT allows {s_} -> {t_} and str is a {s_}, but NOT_COERCIBLE_DEFAULT has no (str, {t_}): a string given to a {t_}-typed field is accepted and split into its characters", A.loc(e))
    if n_tab < 2:
        raise AnalysisError("C20: coercible pairs with an abstract sequence source not found")
    init = tp.find_method("__init__")
    a = init.node.args
    names = [x.arg for x in a.args]
    dflt = dict(zip(names[len(names) - len(a.defaults) :], a.defaults))
    if norm(dflt.get("not_coercible")) == "NOT_COERCIBLE_DEFAULT" and norm(dflt.get("coercible")) == "COERCIBLE_DEFAULT":
        col.ok("C20.exclusions", "TypeParser.__init__ defaults: coercible=COERCIBLE_DEFAULT, not_coercible=NOT_COERCIBLE_DEFAULT", A.loc(init.node))
    else:
        col.fail("C20.exclusions", init.qualname, "typeparser-defaults", "TypeParser.__init__ no longer defaults to the class-level coercion tables", A.loc(init.node))
    # compound coercers rebuild the container from individually coerced elements: every return is
    # coerce_obj(<comprehension applying expand_and_coerce to every element>, <type>)
    co = tp.find_method("coerce")
    if co is None:
        raise AnalysisError("TypeParser.coerce not found")
    col.scope(co.qualname)
    n_comp = 0
    for g in co.nested.values():
        comps = [k for k in walk_own(g.node) if isinstance(k, (ast.ListComp, ast.DictComp, ast.GeneratorExp, ast.SetComp)) and any(isinstance(c, ast.Call) and isinstance(c.func, ast.Name) and c.func.id == "expand_and_coerce" for c in ast.walk(k))]
        if not comps or g.name in ("expand_and_coerce", "coerce_union", "coerce_multi_input"):
            continue
        n_comp += 1
        bad = []
        for r in walk_own(g.node):
            if isinstance(r, ast.Return):
                v = r.value
                first = v.args[0] if isinstance(v, ast.Call) and v.args else None
                if isinstance(first, ast.Name):
                    # a local holding the comprehension (its only definition)
                    defs = [a_.value for a_ in walk_own(g.node) if isinstance(a_, ast.Assign) and any(isinstance(t_, ast.Name) and t_.id == first.id for t_ in a_.targets)]
                    first = defs[0] if len(defs) == 1 else None
                good = isinstance(v, ast.Call) and isinstance(v.func, ast.Name) and v.func.id == "coerce_obj" and len(v.args) == 2 and isinstance(first, (ast.ListComp, ast.DictComp, ast.GeneratorExp)) and not any(gen.ifs for gen in first.generators) and any(isinstance(c, ast.Call) and isinstance(c.func, ast.Name) and c.func.id == "expand_and_coerce" for c in ast.walk(first))
                if not good:
                    bad.append(r)
        if bad:
            col.fail("C20.elements", g.qualname, "compound-coercion-returns-uncoerced", f"`{norm(bad[0], 60)}` in {g.name}: a compound value is returned without being rebuilt from individually coerced elements by coerce_obj: elements that only compare equal to their coerced form (True == 1, 1.0 == 1) are stored with the wrong type / the container keeps its original type", A.loc(bad[0]))
        else:
            col.ok("C20.elements", f"{g.name}: every return is coerce_obj(<every element through expand_and_coerce>, type)", A.loc(g.node))
    if n_comp < 3:
        raise AnalysisError(f"C20: {n_comp} compound coercers found in TypeParser.coerce; floor 3 (mapping, tuple, sequence)")
    # a value that already is an instance of the (abstract) origin is re-built as type(obj)(<list of coerced
    # elements>); for a str that is str(list) -- the repr of the list of its characters. The branch that hands
    # type(obj) to the sequence coercer must be preceded by a returning guard for strings.
    # the expander is the nested function that computes `type(obj)` and dispatches to the compound coercers
    cands = [g for g in co.nested.values() if any(isinstance(n, ast.Assign) and isinstance(n.value, ast.Call) and isinstance(n.value.func, ast.Name) and n.value.func.id == "type" for n in walk_own(g.node))]
    if len(cands) != 1:
        raise AnalysisError(f"C20: expected one nested function of TypeParser.coerce binding `type(obj)`, found {len(cands)}")
    ex = cands[0]
    tassign = next(n for n in walk_own(ex.node) if isinstance(n, ast.Assign) and isinstance(n.value, ast.Call) and isinstance(n.value.func, ast.Name) and n.value.func.id == "type")
    tvar = tassign.targets[0].id
    ovar = norm(tassign.value.args[0])
    body = ex.node.body
    seq_branches = [(i, st) for i, st in enumerate(body) if isinstance(st, ast.If) and "Iterable" in norm(st.test) and any(isinstance(n, ast.Call) and n.args and isinstance(n.args[0], ast.Name) and n.args[0].id == tvar for n in ast.walk(st))]
    A.anchor("branch of expand_and_coerce handing type(obj) to the sequence coercer", seq_branches)
    for i, st in seq_branches:
        guard = None
        for j in range(i):
            g_ = body[j]
            if not isinstance(g_, ast.If):
                continue
            t = g_.test
            mentions = any(isinstance(c, ast.Call) and isinstance(c.func, ast.Name) and c.func.id in ("isinstance", "issubclass") and len(c.args) == 2 and norm(c.args[0]) in (ovar, tvar) and any(isinstance(k, ast.Name) and k.id == "str" for k in ast.walk(c.args[1])) for c in ast.walk(t))
            ends = isinstance(g_.body[-1], (ast.Return, ast.Raise))
            passes = any(isinstance(n, ast.Call) and isinstance(n.func, ast.Name) and n.func.id in co.nested and n.args and isinstance(n.args[0], ast.Name) and n.args[0].id == tvar for st_ in g_.body for n in ast.walk(st_))
            if mentions and ends and not passes:
                guard = g_
        if guard is not None:
            col.ok("C20.elements", f"{ex.name}: strings are returned/rejected by `if {norm(guard.test, 50)}` before `{tvar} = type({ovar})` reaches the sequence coercer", A.loc(guard))
        else:
            col.fail("C20.elements", ex.qualname, "str-rebuilt-from-character-list", f"a string that is an instance of an abstract Sequence/Iterable/Collection origin reaches `{norm(st.body[-1], 60)}` with {tvar} = type({ovar}) = str: it is re-built as str(<list of its characters>), i.e. stored as the repr of that list, and changes again on every further coercion", A.loc(st))
    # the exclusion is consulted before the inclusion list in the coercibility check
    n_sites = 0
    for f in A.repo.all_functions():
        for c in A.calls(f):
            fn_ = c.func.value if isinstance(c.func, ast.Subscript) else c.func
            if (dotted(fn_) or "").endswith("TypeParser") and not f.qualname.startswith("pydra.utils.typing.TypeParser"):
                n_sites += 1
                if kwarg(c, "not_coercible") is not None or norm(kwarg(c, "coercible")) == "None":
                    col.fail("C20.exclusions", f.qualname, "typeparser-call-overrides-tables", f"`{norm(c, 60)}` overrides the coercion tables", A.loc(c))
                else:
                    col.ok("C20.exclusions", f"{f.qualname}: `{norm(c, 50)}` keeps the default coercion tables", A.loc(c))
    if n_sites < 3:
        raise AnalysisError(f"C20: {n_sites} TypeParser(...) call sites outside the class; floor 3")


# --------------------------------------------------------------------------- #
# C29
# --------------------------------------------------------------------------- #


def _state_ops(A: Analysis, f: FuncInfo) -> dict:
    """what a __getstate__/__setstate__ does to named keys."""
    ops = {"deleted": set(), "nulled": set(), "encoded": set(), "decoded": set(), "restored": set(), "super": False, "bulk": None, "loops": []}
    for n in walk_own(f.node):
        if isinstance(n, ast.Delete):
            for t in n.targets:
                if isinstance(t, ast.Subscript):
                    if isinstance(t.slice, ast.Constant):
                        ops["deleted"].add(t.slice.value)
                    else:
                        ops["loops"].append(("deleted", t.slice))
        if isinstance(n, ast.Assign):
            for t in n.targets:
                if isinstance(t, ast.Subscript) and isinstance(t.value, ast.Name):
                    key = t.slice.value if isinstance(t.slice, ast.Constant) else None
                    v = n.value
                    if isinstance(v, ast.Constant) and v.value is None and key:
                        ops["nulled"].add(key)
                    elif isinstance(v, ast.Call) and (dotted(v.func) or "").endswith("dumps"):
                        if key:
                            ops["encoded"].add(key)
                        else:
                            ops["loops"].append(("encoded", t.slice))
                    elif isinstance(v, ast.Call) and (dotted(v.func) or "").endswith("loads"):
                        if key:
                            ops["decoded"].add(key)
                        else:
                            ops["loops"].append(("decoded", t.slice))
                    elif key:
                        ops["restored"].add(key)
                if isinstance(t, ast.Attribute) and dotted(t.value) == "self":
                    ops["restored"].add(t.attr)
        if isinstance(n, ast.Call):
            d = dotted(n.func) or ""
            if isinstance(n.func, ast.Attribute) and n.func.attr in ("__getstate__", "__setstate__") and isinstance(n.func.value, ast.Call) and dotted(n.func.value.func) == "super":
                ops["super"] = True
            # dict(state, key=value) / {**state, "key": value}: the key travels with the state that is restored in bulk
            if d == "dict" and n.args and n.keywords:
                for kw_ in n.keywords:
                    if kw_.arg:
                        ops["restored"].add(kw_.arg)
            if d == "self.__dict__.update" or d.endswith("__dict__.update"):
                ops["bulk"] = "__dict__.update"
            if d == "setattr" and len(n.args) == 3 and norm(n.args[0]) == "self":
                if isinstance(n.args[1], ast.Constant):
                    ops["restored"].add(n.args[1].value)
                else:
                    ops["bulk"] = ops["bulk"] or "setattr-loop"
                    ops["loops"].append(("setattr", n.args[1]))
            if isinstance(n.func, ast.Attribute) and n.func.attr == "__setattr__" and len(n.args) == 2 and isinstance(n.args[0], ast.Constant):
                ops["restored"].add(n.args[0].value)
        if isinstance(n, ast.Return) and isinstance(n.value, ast.Dict):
            ops["returns_keys"] = {k.value for k in n.value.keys if isinstance(k, ast.Constant)}
    return ops


def _loop_collection(f: FuncInfo, slice_node: ast.AST) -> str | None:
    """the iterable a loop variable used as a key ranges over."""
    if not isinstance(slice_node, ast.Name):
        return None
    for n in walk_own(f.node):
        if isinstance(n, ast.For) and isinstance(n.target, ast.Name) and n.target.id == slice_node.id:
            return norm(n.iter)
    return None


@prop(
    "C29",
    technique="getstate/setstate agreement: per class defining the pair, the keys deleted / nulled / encoded in __getstate__ are compared with the keys re-established / decoded in __setstate__ (or by the documented owner), super() chains are checked",
    decides="for the classes defining __getstate__/__setstate__ (Job, Submitter, Result, Node.Inputs, Worker, ConcurrentFuturesWorker, SlurmWorker, SgeWorker): every key deleted or set to None when pickling is re-established when unpickling (Submitter.__setstate__ restores worker.loop, the documented owner of Worker.loop); every key encoded with cloudpickle.dumps is decoded with loads for the same key set; the remaining keys are restored in bulk (__dict__.update / setattr loop); subclasses call super() in both directions; Job keeps _checksum, ConcurrentFuturesWorker.run ships the job as cloudpickle bytes and the worker process runs job.run(rerun=rerun). Additionally: every literal key used on the state mapping in a __getstate__/__setstate__ names an attribute of the class; the thread-backed helper held by Audit (resource_monitor) is released under the guard it was acquired under, so the job stays picklable when save() runs.",
    not_decided="that arbitrary user tasks pickle; equality of outputs after the round trip.",
    level_note="Trusted: pickle calls __getstate__/__setstate__ as documented; attrs.asdict(recurse=False) returns every field.",
)
def check_c29(A: Analysis, col: Collector):
    pairs = []
    for c in A.repo.classes.values():
        g, s = c.methods.get("__getstate__"), c.methods.get("__setstate__")
        if g is not None or s is not None:
            pairs.append((c, g, s))
    if len(pairs) < 8:
        raise AnalysisError(f"C29: {len(pairs)} classes define __getstate__/__setstate__; floor 8")
    for c, g, s in sorted(pairs, key=lambda p: p[0].qualname):
        col.scope(c.qualname)
        if g is None or s is None:
            col.fail("C29.pair", c.qualname, f"half-pair:{'get' if g else 'set'}state-only", f"{c.name} defines only one of __getstate__/__setstate__", A.loc(c.node))
            continue
        go, so = _state_ops(A, g), _state_ops(A, s)
        has_super_base = any(isinstance(b, ClassInfo) and (b.find_method("__getstate__") is not None) for b in c.bases)
        if has_super_base:
            if go["super"] and so["super"]:
                col.ok("C29.pair", f"{c.name}: both directions chain to super()", A.loc(g.node))
            else:
                col.fail("C29.pair", c.qualname, f"super-chain:get={go['super']}:set={so['super']}", f"{c.name} overrides the pickling pair of its base without calling super() in {'__getstate__' if not go['super'] else '__setstate__'}: the base's state handling (loop reset, field restoration) is skipped", A.loc(g.node))
        # deleted / nulled keys must come back
        removed = set(go["deleted"]) | set(go["nulled"])
        for kind, sl in go["loops"]:
            if kind == "deleted":
                coll = _loop_collection(g, sl)
                back = [(_k, _s) for _k, _s in so["loops"] if _k == "setattr" and _loop_collection(s, _s) == coll]
                if back:
                    col.ok("C29.keys", f"{c.name}: keys `for … in {coll}` deleted when pickling are re-created when unpickling (same collection)", A.loc(g.node))
                else:
                    col.fail("C29.keys", c.qualname, f"bulk-deleted-not-restored:{coll}", f"{c.name}.__getstate__ deletes the keys in {coll} but __setstate__ does not re-create them", A.loc(s.node))
        for k in sorted(removed):
            owner_restores = False
            if k == "loop":
                # documented owner: Submitter.__setstate__ restores self.loop and self.worker.loop
                sub = A.func("pydra.engine.submitter.Submitter.__setstate__")
                txt = " ".join(norm(n) for n in walk_own(sub.node) if isinstance(n, ast.Assign))
                if c.name == "Submitter":
                    owner_restores = "self.loop = get_open_loop()" in txt
                else:
                    owner_restores = "self.worker.loop = self.loop" in txt and ("loop" in so["restored"])
            if k in so["restored"] and (k != "loop" or owner_restores or c.name == "Submitter"):
                col.ok("C29.keys", f"{c.name}: `{k}` dropped/nulled when pickling is re-established in __setstate__" + (" (and by Submitter.__setstate__)" if k == "loop" else ""), A.loc(s.node))
            elif owner_restores:
                col.ok("C29.keys", f"{c.name}: `{k}` is restored by its owner Submitter.__setstate__", A.loc(s.node))
            else:
                col.fail("C29.keys", c.qualname, f"dropped-not-restored:{k}", f"{c.name}.__getstate__ drops `{k}` but __setstate__ does not re-establish it: the unpickled object lacks the attribute", A.loc(s.node))
        # encoded <-> decoded
        enc, dec = set(go["encoded"]), set(so["decoded"])
        enc_loops = [_loop_collection(g, sl) for k_, sl in go["loops"] if k_ == "encoded"]
        dec_loops = [_loop_collection(s, sl) for k_, sl in so["loops"] if k_ == "decoded"]
        if enc or dec or enc_loops or dec_loops:
            if enc == dec and sorted(map(str, enc_loops)) == sorted(map(str, dec_loops)):
                col.ok("C29.keys", f"{c.name}: cloudpickle-encoded keys {sorted(enc) or enc_loops} are decoded for the same key set", A.loc(s.node))
            else:
                col.fail("C29.keys", c.qualname, f"encode-decode-mismatch:{sorted(enc) or enc_loops}:{sorted(dec) or dec_loops}", f"{c.name} encodes {sorted(enc) or enc_loops} but decodes {sorted(dec) or dec_loops}", A.loc(s.node))
        # remaining keys restored in bulk
        if so["bulk"] or so["super"] or so.get("returns_keys") is not None or (go.get("returns_keys") is not None and go["returns_keys"] <= so["restored"]):
            col.ok("C29.keys", f"{c.name}: remaining state is restored ({so['bulk'] or ('super()' if so['super'] else 'explicit keys')})", A.loc(s.node))
        else:
            col.fail("C29.keys", c.qualname, "state-not-restored", f"{c.name}.__setstate__ does not restore the remaining state (no __dict__.update / setattr loop / super())", A.loc(s.node))
    # every literal key used on the state mapping names an attribute of the class (a misspelt key reads
    # None / raises only at run time, in the other process)
    n_keys = 0
    for c, g, s_ in pairs:
        for m in (g, s_):
            if m is None:
                continue
            state_names = {p_.arg for p_ in m.params() if p_.arg != "self"}
            for n in walk_own(m.node):
                if isinstance(n, ast.Assign) and isinstance(n.targets[0], ast.Name) and any(isinstance(k, ast.Name) and (k.id in state_names or k.id == "self") for k in ast.walk(n.value)) and any(isinstance(k, ast.Attribute) and k.attr in ("__dict__", "copy") or (isinstance(k, ast.Call) and norm(k.func) in ("dict", "attrs.asdict", "super().__getstate__")) for k in ast.walk(n.value)):
                    state_names.add(n.targets[0].id)
            for n in walk_own(m.node):
                key = None
                if isinstance(n, ast.Subscript) and isinstance(n.value, ast.Name) and n.value.id in state_names and isinstance(n.slice, ast.Constant) and isinstance(n.slice.value, str):
                    key = n.slice.value
                elif isinstance(n, ast.Call) and isinstance(n.func, ast.Attribute) and n.func.attr in ("get", "pop", "setdefault") and isinstance(n.func.value, ast.Name) and n.func.value.id in state_names and n.args and isinstance(n.args[0], ast.Constant) and isinstance(n.args[0].value, str):
                    key = n.args[0].value
                if key is None:
                    continue
                n_keys += 1
                if A.rs.class_has_attr(c, key):
                    col.ok("C29.keys", f"{c.name}.{m.name}: state key '{key}' names an attribute of the class", A.loc(n))
                else:
                    col.fail("C29.keys", m.qualname, f"unknown-state-key:{key}", f"`{norm(n, 50)}` uses the state key '{key}', which is not an attribute of {c.name} (fields / attributes assigned in its methods): the value read is None / the key is never consumed, so the unpickled object is configured differently from the original", A.loc(n))
    if n_keys < 4:
        raise AnalysisError(f"C29: {n_keys} literal state keys found in the pickling pairs; floor 4")
    # an unpicklable helper object held on a pickled object is released under the guard it was acquired
    # under: Audit.resource_monitor (a thread with an open file) is created under audit_check(RESOURCE) and
    # the job -- with its Audit -- is pickled by save() right after finalize_audit
    aud = A.cls("pydra.engine.audit.Audit")
    col.scope(aud.qualname)

    def _guards(node):
        return sorted({norm(p_.test) for p_ in parents(node) if isinstance(p_, ast.If) and any(node is k for k in ast.walk(ast.Module(body=p_.body, type_ignores=[])))})

    acquired = {}
    released = {}
    for m in aud.methods.values():
        for n in walk_own(m.node):
            if isinstance(n, ast.Assign) and len(n.targets) == 1 and isinstance(n.targets[0], ast.Attribute) and norm(n.targets[0].value) == "self":
                attr = n.targets[0].attr
                if isinstance(n.value, ast.Call) and m.name != "__init__":
                    tg = [t for t in A.rs.resolve_call(n.value, m).repo_targets if isinstance(t, ClassInfo)]
                    if any(any(isinstance(b, ast.AST) and "Thread" in norm(b) for b in t.node.bases) for t in tg):
                        acquired.setdefault(attr, []).append((m, n))
                elif isinstance(n.value, ast.Constant) and n.value.value is None and m.name != "__init__":
                    released.setdefault(attr, []).append((m, n))
    if not acquired:
        raise AnalysisError("C29: no thread-backed helper acquired by Audit was found (anchor moved)")
    for attr, acqs in acquired.items():
        gacq = set(g_ for m, n in acqs for g_ in _guards(n))
        rels = released.get(attr, [])
        if not rels:
            col.fail("C29.release", aud.qualname, f"unpicklable-helper-never-released:{attr}", f"Audit.{attr} (a thread with an open file) is never reset to None: pickling the job after the run fails", A.loc(acqs[0][1]))
        for m, n in rels:
            extra = [g_ for g_ in _guards(n) if g_ not in gacq]
            if extra:
                col.fail("C29.release", m.qualname, f"release-guard-narrower:{attr}", f"`self.{attr} = None` in {m.name} is additionally guarded by {extra}, while the object is created under {sorted(gacq)}: with the narrower guard false the thread object stays on the job's Audit and `save(..., job=self)` cannot pickle the job (the computed result is reported as failed)", A.loc(n))
            else:
                col.ok("C29.release", f"Audit.{attr} is released in {m.name} under the guard it was acquired under ({sorted(gacq)})", A.loc(n))
    # Job keeps its memoised checksum
    jg = A.func("pydra.engine.job.Job.__getstate__")
    jo = _state_ops(A, jg)
    if "_checksum" in jo["deleted"] | jo["nulled"]:
        col.fail("C29.identity", jg.qualname, "checksum-dropped", "Job.__getstate__ drops the memoised checksum: the worker process recomputes the identity from possibly modified inputs", A.loc(jg.node))
    else:
        col.ok("C29.identity", "Job.__getstate__ keeps the memoised _checksum", A.loc(jg.node))
    # cf worker: ships cloudpickle bytes, runs job.run(rerun=rerun)
    run = A.func("pydra.workers.cf.ConcurrentFuturesWorker.run")
    un = A.func("pydra.workers.cf.ConcurrentFuturesWorker.uncloudpickle_and_run")
    col.scope(run.qualname, un.qualname)
    d = [c for c in A.calls(run) if "cloudpickle.dumps" in A.callee_names(c, run)]
    ex = [c for c in A.calls(run) if isinstance(c.func, ast.Attribute) and c.func.attr == "run_in_executor"]
    if d and ex and len(ex[0].args) >= 4 and norm(ex[0].args[1]).endswith("uncloudpickle_and_run") and norm(ex[0].args[-1]) == "rerun":
        col.ok("C29.worker", "ConcurrentFuturesWorker.run ships cloudpickle.dumps(job) and rerun to uncloudpickle_and_run in the pool", A.loc(ex[0]))
    else:
        col.fail("C29.worker", run.qualname, "cf-run-shipping", "ConcurrentFuturesWorker.run no longer ships (cloudpickled job, rerun) to uncloudpickle_and_run", A.loc(run.node))
    l = [c for c in A.calls(un) if "cloudpickle.loads" in A.callee_names(c, un)]
    r = [c for c in A.calls(un) if isinstance(c.func, ast.Attribute) and c.func.attr == "run" and norm(kwarg(c, "rerun")) == "rerun"]
    if l and r:
        col.ok("C29.worker", "the worker process unpickles the job and returns job.run(rerun=rerun)", A.loc(un.node))
    else:
        col.fail("C29.worker", un.qualname, "cf-worker-side", "uncloudpickle_and_run no longer runs the unpickled job with the given rerun", A.loc(un.node))


# --------------------------------------------------------------------------- #
# C30
# --------------------------------------------------------------------------- #


@prop(
    "C30",
    technique="memo-soundness rule: every memo on the workflow-construction path must be keyed by, or invalidated on, all inputs its value depends on; copy-before-mutation rule on the superset-hit path",
    decides="(a) WorkflowTask.construct does not return an unkeyed memo while the task's fields stay assignable (on_setattr=convert): the memo is absent, keyed by the task's hash, or invalidated on assignment; (b) Workflow._constructed_cache is keyed by (hash of the task type, set of non-lazy input names, hash of the non-lazy values) computed from the task passed in, the exact-hit test checks both the key set and the value hash, and on the superset-hit path the cached workflow is deep-copied before any setattr on it. Additionally: workflow constructors defined inside functions (the implicit Split workflow) read nothing from the enclosing scope (closed-over values are not part of the cache key); the per-task memo rule is a dataflow rule (a returned value deriving from an attribute stored on the instance).",
    not_decided="idempotence of _create_graph's state updates on the shared exact-hit object (no failing history was found; not armed); equality of graphs.",
    level_note="Trusted: hash_function is a function of the value (C07/C08).",
)
def check_c30(A: Analysis, col: Collector):
    wc = A.func("pydra.compose.workflow.WorkflowTask.construct")
    col.scope(wc.qualname)
    memo_returns = []
    for n in walk_own(wc.node):
        if isinstance(n, ast.If) and isinstance(n.test, ast.Compare) and isinstance(n.test.left, ast.Attribute) and dotted(n.test.left.value) == "self" and isinstance(n.test.ops[0], ast.IsNot) and n.body and isinstance(n.body[0], ast.Return) and norm(n.body[0].value) == norm(n.test.left):
            memo_returns.append(n)
    keyed = False
    for n in walk_own(wc.node):
        if isinstance(n, ast.If) and any(("_hash" in norm(n.test) or "checksum" in norm(n.test) or "hash_function" in norm(n.test)) and "==" in norm(n.test) for _ in [0]):
            keyed = True
    cls = A.cls("pydra.compose.workflow.WorkflowTask")
    invalidates = cls.find_method("__setattr__") is not None or cls.find_method("__attrs_post_init__") is not None and False
    # any other return of a value read back from the instance (getattr / attribute) that is
    # not the fresh result of Workflow.construct on this path
    if not memo_returns:
        for n in walk_own(wc.node):
            if isinstance(n, ast.Return) and n.value is not None:
                v = n.value
                from_self = (isinstance(v, ast.Attribute) and dotted(v.value) == "self") or (isinstance(v, ast.Call) and dotted(v.func) == "getattr" and v.args and norm(v.args[0]) == "self")
                guarded = any(isinstance(p, ast.If) for p in parents(n) if is_within(p, wc.node))
                if from_self and guarded:
                    memo_returns.append(next(p for p in parents(n) if isinstance(p, ast.If)))
    # dataflow form: a returned value that (also) derives from an attribute stored on the instance
    if not memo_returns:
        for n in walk_own(wc.node):
            if isinstance(n, ast.Return) and n.value is not None:
                roots = A.flow.derives(n.value, wc)
                inst_attrs = sorted(a_ for a_ in roots.attrs if a_.startswith("self.") or a_.startswith("_"))
                stored = {t.attr for a_ in walk_own(wc.node) if isinstance(a_, ast.Assign) for t in a_.targets if isinstance(t, ast.Attribute) and dotted(t.value) == "self"}
                if any(a_.split(".")[-1] in stored for a_ in roots.attrs):
                    memo_returns.append(n)
        # an attribute of the instance that the function both stores and reads back (plain or through getattr)
        stored_ = {t.attr for a_ in walk_own(wc.node) if isinstance(a_, ast.Assign) for t in a_.targets if isinstance(t, ast.Attribute) and dotted(t.value) == "self"}
        read_ = {a_.attr for a_ in walk_own(wc.node) if isinstance(a_, ast.Attribute) and isinstance(a_.ctx, ast.Load) and dotted(a_.value) == "self"} | {c_.args[1].value for c_ in A.calls(wc) if dotted(c_.func) == "getattr" and len(c_.args) >= 2 and norm(c_.args[0]) == "self" and isinstance(c_.args[1], ast.Constant)}
        if not memo_returns and (stored_ & read_):
            rets_ = [n for n in walk_own(wc.node) if isinstance(n, ast.Return) and n.value is not None and any(isinstance(p_, ast.If) for p_ in parents(n))]
            if rets_:
                memo_returns.append(rets_[0])
    if not memo_returns:
        col.ok("C30.task-memo", "WorkflowTask.construct returns no unkeyed per-instance memo (construction caching is left to Workflow.construct's keyed cache)", A.loc(wc.node))
    elif keyed or invalidates:
        col.ok("C30.task-memo", "WorkflowTask.construct's memo is keyed by the task's hash / invalidated on assignment", A.loc(wc.node))
    else:
        col.fail("C30.task-memo", wc.qualname, "unkeyed-memo", f"`{norm(memo_returns[0], 70)}`: the constructed workflow is memoised on the task instance without a key derived from the input values, while the task's inputs stay assignable and mutable (identity comparisons do not see in-place changes): after `task.x = new` / `task.x.append(...)` the next run re-uses the graph built for the old value and stores its result under the new checksum", A.loc(memo_returns[0]))
    # a workflow constructor defined inside a function must not read variables of the enclosing scope:
    # constructed workflows are cached under the hash of the constructor's *inputs* (and source), so a
    # closed-over value is not part of the key and a later, different value gets the earlier graph
    n_ctor = 0
    for f in A.repo.all_functions():
        for g in f.nested.values():
            if not any("workflow.define" in norm(d) for d in g.node.decorator_list):
                continue
            n_ctor += 1
            col.scope(g.qualname)
            gparams = {p_.arg for p_ in g.params()}
            glocals = {n.id for n in ast.walk(g.node) if isinstance(n, ast.Name) and isinstance(n.ctx, ast.Store)} | {n.name for n in ast.walk(g.node) if isinstance(n, (ast.FunctionDef, ast.ClassDef)) and n is not g.node}
            outer = {p_.arg for p_ in f.params()} | {n.id for n in walk_own(f.node) if isinstance(n, ast.Name) and isinstance(n.ctx, ast.Store)}
            body_nodes = [k for st in g.node.body for k in ast.walk(st)]
            free = sorted({n.id for n in body_nodes if isinstance(n, ast.Name) and isinstance(n.ctx, ast.Load) and n.id not in gparams and n.id not in glocals and n.id in outer})
            if free:
                col.fail("C30.closure", g.qualname, "constructor-closes-over:" + "+".join(free), f"the workflow constructor {g.name} (defined inside {f.name}) reads {free} from the enclosing scope: these values are not inputs of the workflow and therefore not part of the construction-cache key, so a later submission with other values is served the workflow constructed for the first ones", A.loc(g.node))
            else:
                col.ok("C30.closure", f"{g.qualname}: everything the constructor uses is a parameter (an input of the workflow)", A.loc(g.node))
    if n_ctor < 1:
        raise AnalysisError("C30: no nested workflow constructor found (the implicit Split workflow of Submitter.__call__ moved)")
    wf = A.func("pydra.engine.workflow.Workflow.construct")
    col.scope(wf.qualname)
    src = {norm(n.targets[0]): n.value for n in walk_own(wf.node) if isinstance(n, ast.Assign) and isinstance(n.targets[0], ast.Name)}
    task_param = wf.params()[1].arg if len(wf.params()) > 1 else "task"
    stores = [n for n in walk_own(wf.node) if isinstance(n, ast.Assign) and isinstance(n.targets[0], ast.Subscript) and "_constructed_cache" in norm(n.targets[0])]
    keys = []
    if stores:
        t = stores[0].targets[0]
        while isinstance(t, ast.Subscript):
            keys.insert(0, norm(t.slice))
            t = t.value
    if len(keys) != 3 or not all(k in src for k in keys):
        col.fail("C30.cache-key", wf.qualname, f"store-key:{len(keys)}-components", "constructed workflows are not stored under a three-component key [type hash][non-lazy names][value hash]", A.loc(wf.node))
    else:
        k_type, k_names, k_vals = keys
        col.ok("C30.cache-key", f"a constructed workflow is stored under [{k_type}][{k_names}][{k_vals}]", A.loc(stores[0]))
        vals_var = None
        d = src[k_names]
        if isinstance(d, ast.Call) and dotted(d.func) == "frozenset" and d.args and isinstance(d.args[0], ast.Name):
            vals_var = d.args[0].id
            col.ok("C30.cache-key", f"key component {k_names} = frozenset of the non-lazy input names", A.loc(d))
        else:
            col.fail("C30.cache-key", wf.qualname, "key-component:names", f"the name component of the construction-cache key is `{norm(d, 50)}`, not the frozenset of the non-lazy input names", A.loc(wf.node))
        d = src[k_vals]
        if isinstance(d, ast.Call) and any(q.endswith("hash_function") for q in A.callee_names(d, wf)) and d.args and vals_var and norm(d.args[0]) == vals_var:
            col.ok("C30.cache-key", f"key component {k_vals} = hash_function(<non-lazy values>)", A.loc(d))
        else:
            col.fail("C30.cache-key", wf.qualname, "key-component:values", f"the value component of the construction-cache key is `{norm(d, 50)}`, not the hash of the non-lazy input values", A.loc(wf.node))
        d = src[k_type]
        if isinstance(d, ast.Call) and any(q.endswith("hash_function") for q in A.callee_names(d, wf)) and d.args and norm(d.args[0]) == f"type({task_param})":
            col.ok("C30.cache-key", f"key component {k_type} = hash_function(type(task))", A.loc(d))
        else:
            col.fail("C30.cache-key", wf.qualname, "key-component:type", f"the type component of the construction-cache key is `{norm(d, 50)}`, not the hash of the task's type", A.loc(wf.node))
        nl = src.get(vals_var) if vals_var else None
        if nl is not None and f"attrs_values({task_param})" in norm(nl) and "is_lazy" in norm(nl):
            col.ok("C30.cache-key", "the non-lazy values cover every non-lazy attribute value of the task passed in", A.loc(nl))
        else:
            col.fail("C30.cache-key", wf.qualname, "non_lazy_vals-coverage", "the hashed values no longer range over attrs_values(task)", A.loc(wf.node))
        # exact hit: both key set and value hash
        hit_ok = False
        for n in walk_own(wf.node):
            if isinstance(n, ast.If) and isinstance(n.test, ast.BoolOp) and isinstance(n.test.op, ast.And) and len(n.test.values) == 2:
                a, b = n.test.values
                if isinstance(a, ast.Compare) and isinstance(a.ops[0], ast.In) and norm(a.left) == k_names and isinstance(b, ast.Compare) and isinstance(b.ops[0], ast.In) and norm(b.left) == k_vals and norm(b.comparators[0]) == f"{norm(a.comparators[0])}[{k_names}]":
                    if n.body and isinstance(n.body[0], ast.Return):
                        hit_ok = True
                        col.ok("C30.cache-key", "exact hit requires the same non-lazy key set and the same value hash", A.loc(n))
        if not hit_ok:
            col.fail("C30.cache-key", wf.qualname, "exact-hit-test", "the exact-hit test no longer checks both the key set and the value hash", A.loc(wf.node))
    # superset hit: deepcopy before setattr
    sets = [c for c in A.calls(wf) if dotted(c.func) == "setattr" and c.args and isinstance(c.args[0], ast.Attribute) and c.args[0].attr == "inputs" and isinstance(c.args[0].value, ast.Name)]
    A.anchor("setattr(<wf>.inputs, ...) on the superset-hit path", sets)
    for c in sets:
        var = c.args[0].value.id
        defs = [p for k, p in A.rs.local_defs(wf).get(var, []) if k == "assign"]
        if defs and all(isinstance(d, ast.Call) and "copy.deepcopy" in A.callee_names(d, wf) for d in defs):
            col.ok("C30.superset", "superset hit: the cached workflow is deep-copied before additional inputs are set on it", A.loc(c))
        else:
            col.fail("C30.superset", wf.qualname, "cached-workflow-mutated", "on the superset-hit path inputs are set on the cached workflow itself (no deepcopy): one construction's inputs leak into every later construction that hits the same entry", A.loc(c))
    sub = [n for n in walk_own(wf.node) if isinstance(n, ast.If) and isinstance(n.test, ast.Call) and isinstance(n.test.func, ast.Attribute) and n.test.func.attr == "issubset"]
    if sub:
        col.ok("C30.superset", "superset hit requires the cached key set to be a subset of the requested non-lazy names and the subset's value hash to match", A.loc(sub[0]))
    else:
        col.fail("C30.superset", wf.qualname, "superset-test", "the superset-hit test changed", A.loc(wf.node))


# --------------------------------------------------------------------------- #
# C32
# --------------------------------------------------------------------------- #


@prop(
    "C32",
    technique="key agreement between the writer (unstructure) and the readers (structure + the three define functions): emitted dictionary keys must be parameters of every define",
    decides="the keys unstructure emits ('type', the executor name, 'name', 'inputs', 'outputs', TASK_CLASS_ATTRS) are consumed by structure ('type' popped to select the module, the executor popped as the positional argument) and the remaining keys are parameters of python.define, shell.define and workflow.define; per-field dictionaries are produced by attrs.asdict of the field objects with the name moved to the key; class attributes are read from '_' + name. Additionally: fields are serialised in declaration order (no sorted/set over them); a field given as a dictionary is rebuilt from it alone (no key taken from the function signature may override a serialised one).",
    not_decided="value fidelity (types, defaults, callables surviving serialisation).",
    level_note="Trusted: attrs.asdict emits attribute names that the field classes' attrs __init__ accepts.",
)
def check_c32(A: Analysis, col: Collector):
    un = A.func("pydra.utils.general.unstructure")
    st = A.func("pydra.utils.general.structure")
    col.scope(un.qualname, st.qualname)
    dicts = [n for n in walk_own(un.node) if isinstance(n, ast.Assign) and isinstance(n.value, ast.Dict) and any(isinstance(k, ast.Constant) and k.value == "type" for k in n.value.keys)]
    A.anchor("the emitted dictionary literal (with a 'type' key) in unstructure", dicts)
    keys = []
    for k in dicts[0].value.keys:
        # a key given through a local bound once is that binding (task_class._executor_name)
        keys.append(k.value if isinstance(k, ast.Constant) else norm(A.expand(k, un)))
    # fields are emitted in declaration order: positional semantics depend on it (a python task assigns a
    # returned tuple to its outputs by position; shell positions default to definition order)
    fcomps = [k for k in walk_own(un.node) if isinstance(k, (ast.ListComp, ast.GeneratorExp)) and any(isinstance(c, ast.Call) and norm(c.func).endswith("asdict") for c in ast.walk(k.elt))]
    A.anchor("field-serialising comprehensions in unstructure", fcomps)
    if len(fcomps) < 2:
        raise AnalysisError(f"C32: {len(fcomps)} field-serialising comprehensions in unstructure; floor 2 (inputs, outputs)")

    def _reorders(expr) -> str | None:
        for c in ast.walk(expr):
            if isinstance(c, ast.Call):
                nm = dotted(c.func) or ""
                if nm in ("sorted", "reversed", "set", "frozenset") or (isinstance(c.func, ast.Attribute) and c.func.attr == "sort"):
                    return nm or "sort"
                h = un.nested.get(nm)
                if h is not None and any(isinstance(k, ast.Call) and (dotted(k.func) or "") in ("sorted", "reversed", "set", "frozenset") for k in ast.walk(h.node)):
                    return f"{nm}() -> sorted"
        return None

    for fc in fcomps:
        it = fc.generators[0].iter
        src = it
        if isinstance(it, ast.Name):
            defs = [d.value for d in walk_own(un.node) if isinstance(d, ast.Assign) and isinstance(d.targets[0], ast.Name) and d.targets[0].id == it.id]
            src = defs[0] if len(defs) == 1 else it
        r = _reorders(it) or (_reorders(src) if src is not it else None)
        from_fields = any(isinstance(c, ast.Call) and any(q.endswith("get_fields") for q in A.callee_names(c, un)) for c in ast.walk(src))
        if r:
            col.fail("C32.order", un.qualname, f"fields-emitted-reordered:{r}", f"`{norm(it, 50)}` emits the fields through `{r}` instead of in declaration order: after the round trip a python task's returned tuple is assigned to its outputs in the new order (values land on the wrong output names) and implicit shell positions change", A.loc(fc))
        elif from_fields:
            col.ok("C32.order", f"`{norm(it, 40)}`: fields are emitted in the order get_fields returns them (declaration order)", A.loc(fc))
        else:
            raise AnalysisError("C32: the source of a field-serialising comprehension in unstructure is not get_fields(...)")
    # the reader builds a field given as a dictionary from that dictionary alone: nothing taken from the
    # function signature may override a serialised key
    ef = A.func("pydra.compose.base.helpers.extract_function_inputs_and_outputs")
    col.scope(ef.qualname)
    dict_branches = [i for i in walk_own(ef.node) if isinstance(i, ast.If) and isinstance(i.test, ast.Call) and dotted(i.test.func) == "isinstance" and len(i.test.args) == 2 and norm(i.test.args[1]) == "dict"]
    A.anchor("`isinstance(<field spec>, dict)` branches in extract_function_inputs_and_outputs", dict_branches)
    for br in dict_branches:
        spec = norm(br.test.args[0])
        for c in [k for st_ in br.body for k in ast.walk(st_) if isinstance(k, ast.Call)]:
            stars = [kw_ for kw_ in c.keywords if kw_.arg is None]
            if not stars:
                continue
            v = stars[0].value
            if norm(v) == spec and len(c.keywords) == 1 and not c.args:
                col.ok("C32.values", f"a field given as a dictionary is built from it alone (`{norm(c, 40)}`)", A.loc(c))
            elif isinstance(v, ast.Dict) and None in [k for k in v.keys]:
                idx = max(i for i, k in enumerate(v.keys) if k is None and norm(v.values[i]) == spec) if any(k is None and norm(v.values[i]) == spec for i, k in enumerate(v.keys)) else None
                later = [k.value for i, k in enumerate(v.keys) if k is not None and idx is not None and i > idx and isinstance(k, ast.Constant)]
                if later:
                    col.fail("C32.values", ef.qualname, "serialised-key-overridden:" + "+".join(map(str, later)), f"`{norm(c, 60)}`: the keys {later} written after `**{spec}` replace the values stored in the dictionary (e.g. the serialised default is replaced by the default in the function signature), so the re-created task differs from the original", A.loc(c))
                else:
                    col.ok("C32.values", f"`{norm(c, 50)}`: the dictionary's own keys take precedence", A.loc(c))
            elif len(c.keywords) > 1 and any(kw_.arg for kw_ in c.keywords):
                # f(**spec, default=x) raises on a duplicate key instead of overriding: not a silent change
                col.ok("C32.values", f"`{norm(c, 50)}`: explicit keywords next to **{spec} cannot silently override a serialised key (duplicate keywords raise)", A.loc(c))
    task = A.cls("pydra.compose.base.task.Task")
    tca = task.class_assigns.get("TASK_CLASS_ATTRS")
    class_attrs = [e.value for e in tca.value.elts] if tca is not None and isinstance(tca.value, ast.Tuple) else []
    emitted = [k for k in keys if k not in ("type",) and not k.endswith("_executor_name")] + class_attrs
    col.notes["emitted_keys"] = keys + class_attrs
    if "type" in keys and any(k.endswith("_executor_name") for k in keys):
        col.ok("C32.keys", "unstructure emits 'type' and the executor under task_class._executor_name", A.loc(dicts[0]))
    else:
        col.fail("C32.keys", un.qualname, "type-or-executor-not-emitted", "unstructure no longer emits 'type' / the executor", A.loc(dicts[0]))
    pops = [norm(c.args[0]) for c in A.calls(st) if isinstance(c.func, ast.Attribute) and c.func.attr == "pop" and c.args]
    if "'type'" in pops and any("_executor_name" in p for p in pops):
        col.ok("C32.keys", "structure pops 'type' (module selection) and the executor (positional argument of define)", A.loc(st.node))
    else:
        col.fail("C32.keys", st.qualname, f"structure-pops:{pops}", "structure no longer pops 'type' and the executor before calling define(**dct)", A.loc(st.node))
    for q in ("pydra.compose.python.define", "pydra.compose.shell.builder.define", "pydra.compose.workflow.define"):
        d = A.func(q)
        sig = func_signature(d, bound=False)
        names = {p.name for p in sig.params if not p.pos_only}
        missing = [k for k in emitted if k not in names]
        if missing:
            col.fail("C32.keys", q, "define-lacks-parameter:" + "+".join(missing), f"unstructure emits {missing} but {q} has no such parameter: structure(unstructure(cls)) raises TypeError", A.loc(d.node))
        else:
            col.ok("C32.keys", f"{q} accepts every emitted key {emitted}", A.loc(d.node))
    # per-field dicts: name moved to the key
    keyed = 0
    for k, v in zip(dicts[0].value.keys, dicts[0].value.values):
        if isinstance(k, ast.Constant) and k.value in ("inputs", "outputs") and isinstance(v, ast.DictComp) and isinstance(v.generators[0].target, ast.Name):
            x = v.generators[0].target.id
            if norm(v.key) == f"{x}.pop('name')" and norm(v.value) == x:
                keyed += 1
    if keyed == 2:
        col.ok("C32.fields", "per-field dictionaries are keyed by the field name (popped from the attrs.asdict of the field)", A.loc(dicts[0]))
    else:
        col.fail("C32.fields", un.qualname, "field-dict-keying", "the per-field dictionaries are no longer keyed by the popped field name", A.loc(dicts[0]))
    asd = [c for c in A.calls(un) if "attrs.asdict" in A.callee_names(c, un)]
    if len(asd) >= 2:
        col.ok("C32.fields", "field dictionaries come from attrs.asdict(field, ...) (attribute names of the field classes)", A.loc(asd[0]))
    else:
        col.fail("C32.fields", un.qualname, "fields-not-asdict", "field dictionaries are not produced by attrs.asdict", A.loc(un.node))
    ca_ok = False
    tc = un.params()[0].arg
    for n in walk_own(un.node):
        if isinstance(n, ast.DictComp) and isinstance(n.generators[0].target, ast.Name) and norm(n.generators[0].iter) == f"{tc}.TASK_CLASS_ATTRS":
            x = n.generators[0].target.id
            if norm(n.key) == x and norm(n.value) == f"getattr({tc}, '_' + {x})":
                ca_ok = True
    if ca_ok:
        col.ok("C32.keys", "class attributes are read from '_' + name for every name in TASK_CLASS_ATTRS", A.loc(un.node))
    else:
        col.fail("C32.keys", un.qualname, "class-attrs-source", "TASK_CLASS_ATTRS are no longer read from the '_'-prefixed class attributes", A.loc(un.node))


# --------------------------------------------------------------------------- #
# C33 / C34
# --------------------------------------------------------------------------- #


def _copy_nested_core(A: Analysis, col: Collector, rule: str):
    cn = A.func("pydra.utils.typing.copy_nested_files")
    col.scope(cn.qualname)
    cf = cn.nested.get("copy_fileset")
    if cf is None:
        raise AnalysisError("copy_nested_files.copy_fileset not found")
    calls = [c for c in A.calls(cf) if isinstance(c.func, ast.Attribute) and c.func.attr == "copy" and norm(c.func.value) == "fileset"]
    A.anchor("fileset.copy(...) in copy_fileset", calls)
    c = calls[0]
    if norm(kwarg(c, "avoid_clashes")) == "clashes_to_avoid":
        col.ok(rule, "copy_fileset forwards the shared clashes_to_avoid set as avoid_clashes to FileSet.copy", A.loc(c))
    else:
        col.fail(rule, cf.qualname, f"avoid_clashes:{norm(kwarg(c, 'avoid_clashes'), 20)}", "FileSet.copy is not given the shared clash set: two files with the same name map to the same destination", A.loc(c))
    if norm(kwarg(c, "dest_dir")) == "dest_dir" and any(k.arg is None and norm(k.value) == "kwargs" for k in c.keywords):
        col.ok(rule, "copy_fileset copies into dest_dir and forwards mode/collation (**kwargs)", A.loc(c))
    else:
        col.fail(rule, cf.qualname, "copy-args", "copy_fileset no longer forwards dest_dir / **kwargs (mode, collation) to FileSet.copy", A.loc(c))
    # memo per fileset
    memo_get = any(isinstance(n, ast.Return) and isinstance(n.value, ast.Subscript) and norm(n.value) == "cache[fileset]" for n in walk_own(cf.node))
    memo_set = any(isinstance(n, ast.Assign) and norm(n.targets[0]) == "cache[fileset]" for n in walk_own(cf.node))
    memo_defs = [n for n in walk_own(cn.node) if isinstance(n, (ast.Assign, ast.AnnAssign)) and norm(n.targets[0] if isinstance(n, ast.Assign) else n.target) == "cache"]
    memo_is_param = "cache" in {p_.arg for p_ in cn.params()} or any(kw_.arg == "cache" for c_ in A.calls(cn) for kw_ in c_.keywords if False)
    memo_local = not memo_is_param and bool(memo_defs) and all(isinstance(n.value, ast.Dict) and not n.value.keys or (isinstance(n.value, ast.Call) and dotted(n.value.func) == "dict" and not n.value.args) for n in memo_defs)
    if memo_get and memo_set and not memo_local:
        col.fail(rule, cn.qualname, "fileset-memo-shared-across-calls", "the per-file-set memo of copy_nested_files is not a fresh dict of the call (it can be handed in / shared): a file-set staged for one field with one copy mode is re-used for another field that asked for a different mode (e.g. a link is handed to a field declared copy)", A.loc(memo_defs[0]) if memo_defs else A.loc(cn.node))
    elif memo_get and memo_set:
        col.ok(rule, "a file-set appearing several times is copied once (cache[fileset]); the memo is local to one call (one mode / collation)", A.loc(cf.node))
    else:
        col.fail(rule, cf.qualname, "fileset-memo", "copy_fileset no longer memoises per file-set: an object appearing twice is staged twice", A.loc(cf.node))
    # the shared set is created only when not supplied
    init = [n for n in walk_own(cn.node) if isinstance(n, ast.If) and norm(n.test) == "clashes_to_avoid is None"]
    # the same decision as a conditional expression: x = set() if x is None else x
    init += [n for n in walk_own(cn.node) if isinstance(n, ast.Assign) and norm(n.targets[0]) == "clashes_to_avoid" and isinstance(n.value, ast.IfExp) and norm(n.value.test) in ("clashes_to_avoid is None", "clashes_to_avoid is not None") and "clashes_to_avoid" in (norm(n.value.orelse), norm(n.value.body))]
    if init:
        col.ok(rule, "copy_nested_files creates a clash set only when the caller supplied none", A.loc(init[0]))
    else:
        col.fail(rule, cn.qualname, "clash-set-reset", "copy_nested_files no longer keeps a caller-supplied clash set", A.loc(cn.node))
    # every file-set goes through FileSet.copy (which decides leave / link / copy from the mode AND the
    # collation): copy_fileset returns the memoised copy or the fresh result of fileset.copy(...), never
    # the file-set it was given
    fparam = cf.params()[0].arg
    copy_vars = {t.id for n in walk_own(cf.node) if isinstance(n, ast.Assign) and n.value in calls for t in n.targets if isinstance(t, ast.Name)}
    for r in [n for n in walk_own(cf.node) if isinstance(n, ast.Return)]:
        v = r.value
        ok_ = (isinstance(v, ast.Subscript) and isinstance(v.slice, ast.Name) and v.slice.id == fparam) or (isinstance(v, ast.Name) and v.id in copy_vars) or (v in calls)
        if ok_:
            col.ok(rule, f"copy_fileset: `{norm(r)}` hands back the memoised / freshly staged copy", A.loc(r))
        else:
            col.fail(rule, cf.qualname, f"fileset-returned-unstaged:{shape(v, 30) if v is not None else None}", f"`{norm(r)}` returns a file-set without passing it through FileSet.copy: the copy mode / collation declared for the field is not applied (a multi-file file-set scattered over several directories is handed to the task as it is although copy_collation asks for siblings)", A.loc(r))
    # the traversal rebuilds every container from all of its elements
    ai = A.func("pydra.utils.typing.TypeParser.apply_to_instances")
    col.scope(ai.qualname)
    aparams = [p_.arg for p_ in ai.params()]
    vparam = aparams[3] if len(aparams) > 3 else "value"
    fn_param = aparams[2] if len(aparams) > 2 else "func"
    rets = [n for n in walk_own(ai.node) if isinstance(n, ast.Return) and isinstance(n.value, ast.Name) and n.value.id != vparam]
    result_vars = {r.value.id for r in rets}
    assigns_ = [n for n in walk_own(ai.node) if isinstance(n, ast.Assign) and isinstance(n.targets[0], ast.Name) and n.targets[0].id in result_vars]
    A.anchor("assignments to the rebuilt value in apply_to_instances", assigns_)

    def _recursive_over_all(expr) -> bool:
        comps = [k for k in ast.walk(expr) if isinstance(k, (ast.GeneratorExp, ast.ListComp))]
        for cmp_ in comps:
            gen = cmp_.generators[0]
            over_value = any(isinstance(k, ast.Name) and k.id == vparam for k in ast.walk(gen.iter))
            recursive = any(isinstance(k, ast.Call) and isinstance(k.func, ast.Attribute) and k.func.attr == ai.name for k in ast.walk(cmp_.elt))
            if over_value and recursive and not gen.ifs and len(cmp_.generators) == 1:
                return True
        return False

    n_cont = 0
    for a_ in assigns_:
        v = a_.value
        if isinstance(v, ast.Call) and isinstance(v.func, ast.Name) and v.func.id == fn_param:
            col.ok(rule, "apply_to_instances: an instance of the target type is replaced by func(value)", A.loc(a_))
            continue
        src = v
        if isinstance(v, ast.Call) and v.args and isinstance(v.args[0], ast.Name):
            defs = [d.value for d in walk_own(ai.node) if isinstance(d, ast.Assign) and isinstance(d.targets[0], ast.Name) and d.targets[0].id == v.args[0].id]
            if len(defs) == 1:
                src = defs[0]
        if _recursive_over_all(src) or _recursive_over_all(v):
            n_cont += 1
            col.ok(rule, f"apply_to_instances: `{norm(a_, 60)}` rebuilds the container from the recursive application to every element", A.loc(a_))
        else:
            col.fail(rule, ai.qualname, f"container-not-fully-traversed:{shape(v, 30)}", f"`{norm(a_, 60)}`: a container is handed back without applying the function to every element: files nested behind a non-file first element ((0.5, File), [3, {{'k': File}}]) are silently left where they are", A.loc(a_))
    if n_cont < 2:
        col.fail(rule, ai.qualname, f"container-branches:{n_cont}", f"only {n_cont} of the two container branches (mapping, sequence) of apply_to_instances rebuild their value from every element", A.loc(ai.node))
    app = [k for k in A.calls(cn) if isinstance(k.func, ast.Attribute) and k.func.attr == "apply_to_instances"]
    if app and len(app[0].args) == 3 and norm(app[0].args[1]) == "copy_fileset" and norm(app[0].args[2]) == "value":
        col.ok(rule, "the nested value is rebuilt by TypeParser.apply_to_instances(FileSet, copy_fileset, value) (shape and non-file values preserved)", A.loc(app[0]))
    else:
        col.fail(rule, cn.qualname, "apply_to_instances", "copy_nested_files no longer maps copy_fileset over the nested value with apply_to_instances", A.loc(cn.node))


@prop(
    "C33",
    technique="def-use rule on the clash-avoidance set: created once outside the per-field loop, passed to every copy, forwarded to FileSet.copy",
    decides="copyfile_workflow creates one clashes_to_avoid set before the loop over output fields, passes it to every copy_nested_files call together with the workflow directory and mode=hardlink_or_copy, writes each copied value back to its field, and save() applies it to workflow results before pickling; copy_nested_files forwards the set as avoid_clashes to FileSet.copy and rebuilds the nested value with apply_to_instances. Additionally: apply_to_instances rebuilds each container branch from the recursive application to every element; copy_fileset returns only the memoised / freshly staged copy.",
    not_decided="file content, shape preservation for exotic containers, behaviour of fileformats' FileSet.copy.",
    level_note="Trusted: FileSet.copy(avoid_clashes=set) renames on clash and records the destinations it used.",
)
def check_c33(A: Analysis, col: Collector):
    cw = A.func("pydra.engine.result.copyfile_workflow")
    col.scope(cw.qualname)
    loops = [n for n in walk_own(cw.node) if isinstance(n, ast.For)]
    A.anchor("loop over output fields in copyfile_workflow", loops)
    lp = loops[0]
    calls0 = [c for c in A.calls(cw) if any(q.endswith("copy_nested_files") for q in A.callee_names(c, cw))]
    setvar = None
    for c in calls0:
        v = kwarg(c, "clashes_to_avoid")
        if isinstance(v, ast.Name):
            setvar = v.id
    created = [n for n in walk_own(cw.node) if isinstance(n, (ast.Assign, ast.AnnAssign)) and setvar and norm(n.targets[0] if isinstance(n, ast.Assign) else n.target) == setvar]
    if created and all(not is_within(n, lp) for n in created) and all(n.lineno < lp.lineno for n in created) and norm(created[0].value) == "set()":
        col.ok("C33.clashes", "one clash-avoidance set (= set()) is created before the loop over output fields", A.loc(created[0]))
    else:
        col.fail("C33.clashes", cw.qualname, "clash-set-per-field", "the clash-avoidance set is (re)created inside the per-field loop or not at all: outputs with equal file names overwrite one another in the workflow directory", A.loc(lp))
    calls = [c for c in A.calls(cw) if any(q.endswith("copy_nested_files") for q in A.callee_names(c, cw))]
    A.anchor("copy_nested_files call in copyfile_workflow", calls)
    for c in calls:
        if setvar and norm(kwarg(c, "clashes_to_avoid")) == setvar:
            col.ok("C33.clashes", "every copy_nested_files call receives the shared set", A.loc(c))
        else:
            col.fail("C33.clashes", cw.qualname, "clash-set-not-passed", "copy_nested_files is called without the shared clash set", A.loc(c))
        if "hardlink_or_copy" in norm(kwarg(c, "mode")):
            col.ok("C33.clashes", "workflow outputs are collected with mode=hardlink_or_copy (content preserved, never a symlink)", A.loc(c))
        else:
            col.fail("C33.clashes", cw.qualname, f"collect-mode:{norm(kwarg(c, 'mode'), 30)}", f"workflow outputs are collected with mode={norm(kwarg(c, 'mode'), 30)}", A.loc(c))
        if len(c.args) >= 2 and norm(c.args[1]) == cw.params()[0].arg and is_within(c, lp):
            col.ok("C33.clashes", "files are copied into the workflow's directory for every output field", A.loc(c))
        else:
            col.fail("C33.clashes", cw.qualname, "collect-destination", "files are not copied into wf_path for every field", A.loc(c))
    sets = [c for c in A.calls(cw) if dotted(c.func) == "setattr" and is_within(c, lp)]
    copied_vars = {n.targets[0].id for n in walk_own(cw.node) if isinstance(n, ast.Assign) and isinstance(n.targets[0], ast.Name) and n.value in calls}
    if sets and len(sets[0].args) == 3 and norm(sets[0].args[2]) in copied_vars:
        col.ok("C33.clashes", "the copied value replaces the field value (setattr(outputs, field.name, new_value))", A.loc(sets[0]))
    else:
        col.fail("C33.clashes", cw.qualname, "copied-value-not-stored", "the copied value is not written back to the outputs", A.loc(lp))
    sv = A.func("pydra.engine.result.save")
    cs = [c for c in A.calls(sv) if any(q.endswith("copyfile_workflow") for q in A.callee_names(c, sv))]
    dumps = [c for c in A.calls(sv) if "cloudpickle.dump" in A.callee_names(c, sv)]
    if cs and dumps and cs[0].lineno < min(d.lineno for d in dumps) and any(isinstance(p, ast.If) and "is_workflow" in norm(p.test) for p in parents(cs[0])):
        col.ok("C33.clashes", "save() collects workflow output files before pickling the result", A.loc(cs[0]))
    else:
        col.fail("C33.clashes", sv.qualname, "collect-before-dump", "save() no longer collects workflow outputs before writing the result", A.loc(sv.node))
    _copy_nested_core(A, col, "C33.copy")


@prop(
    "C34",
    technique="def-use rule on the staging call: mode/collation/destination arguments and the per-file-set memo",
    decides="Job.inputs stages every field whose type contains FileSet with copy_nested_files(value, dest_dir=self.cache_dir, mode=fld.copy_mode, collation=fld.copy_collation, supported_modes=...), records the staged value for template resolution only when it differs, and memoises the result (self._inputs); copy_nested_files copies each distinct FileSet once and rebuilds the nested value with apply_to_instances. Additionally: apply_to_instances rebuilds each container branch from the recursive application to every element; copy_fileset returns only the memoised copy or the result of FileSet.copy (never the file-set it was given); a memo handed in as a parameter counts as shared. Additionally (C34.stage): Job.inputs stages every field whose type holds a FileSet and that has a value, with the field's own mode and collation; no other condition may skip staging.",
    not_decided="independence of a copy from its original, link semantics, nested shape for exotic containers (fileformats behaviour).",
    level_note="Trusted: FileSet.copy honours mode and collation.",
)
def check_c34(A: Analysis, col: Collector):
    from .runfn import staging_loop_rule

    staging_loop_rule(A, col, "C34.stage")
    ji = A.cls("pydra.engine.job.Job").find_method("inputs")
    col.scope(ji.qualname)
    cs = [c for c in A.calls(ji) if any(q.endswith("copy_nested_files") for q in A.callee_names(c, ji))]
    A.anchor("copy_nested_files call in Job.inputs", cs)
    c = cs[0]
    loops = [p for p in parents(c) if isinstance(p, ast.For)]
    fv = loops[0].target.id if loops and isinstance(loops[0].target, ast.Name) else "fld"
    val_vars = {n.targets[0].id for n in walk_own(ji.node) if isinstance(n, ast.Assign) and isinstance(n.targets[0], ast.Name) and isinstance(n.value, ast.Subscript) and norm(n.value.value) == "self._inputs"}
    want = {"dest_dir": "self.cache_dir", "mode": f"{fv}.copy_mode", "collation": f"{fv}.copy_collation", "value": sorted(val_vars)[0] if val_vars else "value"}
    for k, v in want.items():
        got = norm(kwarg(c, k))
        if got == v:
            col.ok("C34.staging", f"Job.inputs: copy_nested_files({k}={v})", A.loc(c))
        else:
            col.fail("C34.staging", ji.qualname, f"staging-arg:{k}={got}", f"files are staged with {k}={got or 'missing'} instead of {v}", A.loc(c))
    if loops and "get_fields(self.task)" in norm(loops[0].iter):
        col.ok("C34.staging", "every field of the task is considered for staging", A.loc(loops[0]))
    else:
        col.fail("C34.staging", ji.qualname, "not-all-fields-staged", "staging does not iterate all fields of the task", A.loc(c))
    guard = [p for p in parents(c) if isinstance(p, ast.If)]
    if guard and f"contains_type(FileSet, {fv}.type)" in norm(guard[0].test):
        col.ok("C34.staging", "staging applies to fields whose type contains FileSet", A.loc(guard[0]))
    else:
        col.fail("C34.staging", ji.qualname, "staging-guard", "the staging guard no longer tests TypeParser.contains_type(FileSet, fld.type)", A.loc(c))
    memo = [n for n in walk_own(ji.node) if isinstance(n, ast.If) and norm(n.test) == "self._inputs is not None" and n.body and isinstance(n.body[0], ast.Return)]
    if memo:
        col.ok("C34.staging", "Job.inputs is computed once per job (files are staged once)", A.loc(memo[0]))
    else:
        col.fail("C34.staging", ji.qualname, "inputs-not-memoised", "Job.inputs restages the files on every access", A.loc(ji.node))
    upd = [k for k in A.calls(ji) if any(q.endswith("template_update") for q in A.callee_names(k, ji))]
    staged_maps = {t.value.id for n in walk_own(ji.node) if isinstance(n, ast.Assign) for t in n.targets if isinstance(t, ast.Subscript) and isinstance(t.value, ast.Name) and isinstance(n.value, ast.Name)}
    if upd and isinstance(kwarg(upd[0], "map_copyfiles"), ast.Name) and kwarg(upd[0], "map_copyfiles").id in staged_maps:
        col.ok("C34.staging", "the staged values replace the originals in the job's inputs (map_copyfiles -> template_update -> self._inputs.update)", A.loc(upd[0]))
    else:
        col.fail("C34.staging", ji.qualname, "staged-values-not-used", "the staged copies are not written into the job's inputs", A.loc(ji.node))
    _copy_nested_core(A, col, "C34.copy")


# --------------------------------------------------------------------------- #
# C37
# --------------------------------------------------------------------------- #


@prop(
    "C37",
    technique="checked obligations of an invariant argument for DiGraph's sort: emission guard, removal guard, re-sort-on-mutation (dominance / must-call on CFGs)",
    decides="(1) _sorting appends a node to the sorted part only under `not predecessors[nd.name]` and every other node to the remaining list (no node dropped or duplicated in a pass); (2) sorting removes an emitted node from the working predecessor map of exactly its successors, and only for nodes emitted in that pass or in _node_wip; sorting works on copies of the predecessor lists; (3) every mutator that can invalidate an order (add_nodes, add_edges, remove_nodes) re-sorts or resets _sorted_nodes when it was set, and sorted_nodes sorts lazily when unset; a pass that emits nothing raises (cycle). Additionally: remove_nodes drops a prefix of the sorted list only under a guard comparing exactly that prefix with the removed nodes.",
    not_decided="histories of mutations (the obligations are per-operation), removal bookkeeping of _node_wip across operations.",
    level_note="The invariant argument: (1)+(2) make each pass emit exactly the nodes whose remaining predecessors are all emitted, so the concatenation is a topological order; (3) keeps the cached order consistent with the edge set.",
)
def check_c37(A: Analysis, col: Collector):
    g = "pydra.engine.graph.DiGraph"
    srt = A.func(f"{g}._sorting")
    col.scope(srt.qualname)
    ps = [p.arg for p in srt.params()][1:]  # (unsorted list, working predecessor map)
    loops = [n for n in walk_own(srt.node) if isinstance(n, ast.For) and isinstance(n.target, ast.Name)]
    ok_sorted = ok_rest = False
    emitted_list = rest_list = None
    if loops and len(ps) >= 2 and norm(loops[0].iter) == ps[0]:
        col.ok("C37.emit", "a pass visits every unsorted node once", A.loc(loops[0]))
        v = loops[0].target.id
        guard = f"not {ps[1]}[{v}.name]"
        for st in loops[0].body:
            if isinstance(st, ast.If) and norm(st.test) == guard:
                a_t = [c for b in st.body for c in ast.walk(b) if isinstance(c, ast.Call) and isinstance(c.func, ast.Attribute) and c.func.attr == "append" and c.args and norm(c.args[0]) == v]
                a_f = [c for b in st.orelse for c in ast.walk(b) if isinstance(c, ast.Call) and isinstance(c.func, ast.Attribute) and c.func.attr == "append" and c.args and norm(c.args[0]) == v]
                if a_t:
                    emitted_list = norm(a_t[0].func.value)
                if a_f:
                    rest_list = norm(a_f[0].func.value)
        rets = [n for n in walk_own(srt.node) if isinstance(n, ast.Return) and isinstance(n.value, ast.Tuple) and len(n.value.elts) == 2]
        if rets and emitted_list and norm(rets[0].value.elts[0]) == emitted_list:
            # no other append to the emitted list
            others = [c for c in A.calls(srt) if isinstance(c.func, ast.Attribute) and c.func.attr in ("append", "extend", "insert") and norm(c.func.value) == emitted_list]
            ok_sorted = len(others) == 1
        if rets and rest_list and norm(rets[0].value.elts[1]) == rest_list and rest_list != emitted_list:
            ok_rest = True
    elif len(ps) >= 2 and not loops:
        # comprehension form: emitted = [n for n in <list> if not preds[n.name]]; rest = [n for n in <list> if preds[n.name]]
        comps = [(n.targets[0].id, n.value) for n in walk_own(srt.node) if isinstance(n, ast.Assign) and isinstance(n.targets[0], ast.Name) and isinstance(n.value, ast.ListComp) and len(n.value.generators) == 1 and norm(n.value.generators[0].iter) == ps[0] and isinstance(n.value.elt, ast.Name) and isinstance(n.value.generators[0].target, ast.Name) and n.value.elt.id == n.value.generators[0].target.id]
        rets = [n for n in walk_own(srt.node) if isinstance(n, ast.Return) and isinstance(n.value, ast.Tuple) and len(n.value.elts) == 2]
        for nm, comp in comps:
            v = comp.generators[0].target.id
            ifs = comp.generators[0].ifs
            if len(ifs) == 1 and norm(ifs[0]) == f"not {ps[1]}[{v}.name]":
                emitted_list = nm
            elif len(ifs) == 1 and norm(ifs[0]) == f"{ps[1]}[{v}.name]":
                rest_list = nm
        if emitted_list and rest_list:
            col.ok("C37.emit", "a pass visits every unsorted node once (two complementary comprehensions over the unsorted list)", A.loc(srt.node))
            if rets and norm(rets[0].value.elts[0]) == emitted_list and not any(isinstance(c.func, ast.Attribute) and c.func.attr in ("append", "extend", "insert") and norm(c.func.value) == emitted_list for c in A.calls(srt)):
                ok_sorted = True
            if rets and norm(rets[0].value.elts[1]) == rest_list:
                ok_rest = True
        else:
            col.fail("C37.emit", srt.qualname, "pass-iteration", "a pass does not iterate the whole unsorted list", A.loc(srt.node))
    else:
        col.fail("C37.emit", srt.qualname, "pass-iteration", "a pass does not iterate the whole unsorted list", A.loc(srt.node))
    if ok_sorted:
        col.ok("C37.emit", "_sorting appends a node to the emitted part only under `not <working predecessors>[node.name]`", A.loc(srt.node))
    else:
        col.fail("C37.emit", srt.qualname, "emission-guard", "_sorting emits a node that may still have unsorted predecessors", A.loc(srt.node))
    if ok_rest:
        col.ok("C37.emit", "every node not emitted in a pass is kept in the remaining list (else-branch of the same test)", A.loc(srt.node))
    else:
        col.fail("C37.emit", srt.qualname, "node-dropped-in-pass", "a node that is not emitted is not kept for the next pass", A.loc(srt.node))
    so = A.func(f"{g}.sorting")
    col.scope(so.qualname)
    # the call of _sorting: (emitted, remaining) = self._sorting(remaining, working)
    calls = [n for n in walk_own(so.node) if isinstance(n, ast.Assign) and isinstance(n.targets[0], ast.Tuple) and isinstance(n.value, ast.Call) and isinstance(n.value.func, ast.Attribute) and n.value.func.attr == "_sorting"]
    if not calls or len(calls[0].value.args) != 2:
        raise AnalysisError("DiGraph.sorting: call `(emitted, remaining) = self._sorting(remaining, working)` not found")
    emitted = norm(calls[0].targets[0].elts[0])
    working = norm(calls[0].value.args[1])
    cp = [n for n in walk_own(so.node) if isinstance(n, ast.Assign) and norm(n.targets[0]) == working]
    good_copy = False
    if cp and isinstance(cp[0].value, ast.DictComp):
        dc = cp[0].value
        if norm(dc.generators[0].iter) == "self.predecessors.items()" and isinstance(dc.value, ast.Call) and (dotted(dc.value.func) or "") in ("copy", "list", "copy.copy") :
            good_copy = True
    if good_copy:
        col.ok("C37.remove", "sorting works on a per-key copy of self.predecessors (the graph's own map is not consumed)", A.loc(cp[0]))
    else:
        col.fail("C37.remove", so.qualname, "sorts-on-live-predecessor-map", "sorting mutates self.predecessors itself: later readiness tests see nodes without predecessors", A.loc(so.node))
    rem = [c for c in A.calls(so) if isinstance(c.func, ast.Attribute) and c.func.attr == "remove" and isinstance(c.func.value, ast.Subscript) and norm(c.func.value.value) == working]
    good = 0
    for c in rem:
        fl = [p for p in parents(c) if isinstance(p, ast.For)]
        if len(fl) >= 2 and isinstance(fl[0].target, ast.Name) and isinstance(fl[1].target, ast.Name):
            i_, o_ = fl[0].target.id, fl[1].target.id
            if norm(fl[0].iter) == f"self.successors[{o_}.name]" and norm(fl[1].iter) in (emitted, "self._node_wip") and norm(c.func.value.slice) == f"{i_}.name" and norm(c.args[0]) == o_:
                good += 1
                col.ok("C37.remove", f"an emitted node (from {'the pass result' if norm(fl[1].iter) == emitted else 'self._node_wip'}) is removed from the working predecessors of exactly its successors", A.loc(c))
                continue
        col.fail("C37.remove", so.qualname, f"predecessor-removal:{shape(c, 40)}", f"`{norm(c, 60)}` removes predecessor entries for nodes that were not emitted", A.loc(c))
    if good < 2:
        col.fail("C37.remove", so.qualname, f"removal-sites:{good}", "sorting no longer removes emitted nodes (and _node_wip) from the working predecessor map", A.loc(so.node))
    acc = [n for n in walk_own(so.node) if isinstance(n, ast.AugAssign) and norm(n.target) == "self._sorted_nodes" and norm(n.value) == emitted]
    if acc:
        col.ok("C37.emit", "the sorted list is the concatenation of the passes' emitted parts", A.loc(acc[0]))
    else:
        col.fail("C37.emit", so.qualname, "sorted-list-accumulation", "the emitted parts are no longer appended to _sorted_nodes", A.loc(so.node))
    stall = [n for n in walk_own(so.node) if isinstance(n, ast.If) and norm(n.test) in (f"not {emitted}", f"len({emitted}) == 0") and any(isinstance(k, ast.Raise) for k in n.body)]
    if stall:
        col.ok("C37.emit", "a pass that emits nothing raises (cycle)", A.loc(stall[0]))
    else:
        col.fail("C37.emit", so.qualname, "no-cycle-detection", "a pass that emits no node does not end the sort", A.loc(so.node))
    # (3) mutators re-sort
    for name in ("add_nodes", "add_edges"):
        f = A.func(f"{g}.{name}")
        col.scope(f.qualname)
        guards = [n for n in walk_own(f.node) if isinstance(n, ast.If) and norm(n.test) == "self._sorted_nodes is not None" and any(isinstance(c, ast.Call) and isinstance(c.func, ast.Attribute) and c.func.attr == "sorting" for c in ast.walk(n))]
        # guard-clause form: `if self._sorted_nodes is None: return` followed by the re-sort as last statement
        last = f.node.body[-1]
        early = [n for n in f.node.body if isinstance(n, ast.If) and norm(n.test) == "self._sorted_nodes is None" and len(n.body) == 1 and isinstance(n.body[0], ast.Return) and not n.orelse]
        if not guards and early and isinstance(last, ast.Expr) and isinstance(last.value, ast.Call) and isinstance(last.value.func, ast.Attribute) and last.value.func.attr == "sorting" and f.node.body.index(early[-1]) == len(f.node.body) - 2:
            col.ok("C37.resort", f"{name} re-sorts when a sorted list exists (guard clause + re-sort as last statement)", A.loc(last))
        elif guards and guards[0] is f.node.body[-1]:
            col.ok("C37.resort", f"{name} re-sorts when a sorted list exists (last statement, after the connection maps were updated)", A.loc(guards[0]))
        else:
            col.fail("C37.resort", f.qualname, "no-resort-after-mutation", f"{name} changes nodes/edges without re-sorting an existing sorted list", A.loc(f.node))
        ups = [n for n in walk_own(f.node) if isinstance(n, (ast.Assign, ast.Expr)) and ("self.predecessors[" in norm(n) or "self.successors[" in norm(n))]
        if ups:
            col.ok("C37.resort", f"{name} updates predecessors/successors for the new elements", A.loc(ups[0]))
        else:
            col.fail("C37.resort", f.qualname, "connection-maps-not-updated", f"{name} does not update the predecessor/successor maps", A.loc(f.node))
    rn = A.func(f"{g}.remove_nodes")
    col.scope(rn.qualname)
    if any(isinstance(c.func, ast.Attribute) and c.func.attr == "sorting" for c in A.calls(rn)) or any(isinstance(n, ast.Assign) and norm(n.targets[0]) == "self._sorted_nodes" for n in walk_own(rn.node)):
        col.ok("C37.resort", "remove_nodes updates or re-sorts the sorted list", A.loc(rn.node))
    else:
        col.fail("C37.resort", rn.qualname, "no-resort-after-removal", "remove_nodes leaves removed nodes in the sorted list", A.loc(rn.node))
    # the shortcut that drops a prefix of the sorted list is taken only when exactly that prefix is what is
    # being removed: the slice compared and the slice dropped have the same length expression
    drops = [n for n in walk_own(rn.node) if isinstance(n, ast.Assign) and norm(n.targets[0]) == "self._sorted_nodes" and isinstance(n.value, ast.Subscript) and isinstance(n.value.slice, ast.Slice) and n.value.slice.lower is not None and n.value.slice.upper is None]
    for d in drops:
        dropped_len = norm(d.value.slice.lower)
        g_ = next((p_ for p_ in parents(d) if isinstance(p_, ast.If)), None)
        ok_ = False
        if g_ is not None and isinstance(g_.test, ast.Compare) and len(g_.test.ops) == 1 and isinstance(g_.test.ops[0], ast.Eq):
            sides = [g_.test.left, g_.test.comparators[0]]
            pref = [x for x in sides if isinstance(x, ast.Subscript) and isinstance(x.slice, ast.Slice) and x.slice.lower is None and x.slice.upper is not None and "sorted_nodes" in norm(x.value)]
            whole = [x for x in sides if isinstance(x, ast.Name)]
            if pref and whole and norm(pref[0].slice.upper) == dropped_len and dropped_len == f"len({whole[0].id})":
                ok_ = True
        if ok_:
            col.ok("C37.resort", f"remove_nodes drops the first {dropped_len} entries only when they are exactly the nodes removed (`{norm(g_.test, 60)}`)", A.loc(d))
        else:
            col.fail("C37.resort", rn.qualname, "prefix-drop-guard-mismatch", f"`{norm(d, 60)}` drops {dropped_len} entries from the front of the sorted list under `{norm(g_.test, 50) if g_ is not None else 'no guard'}`, which does not establish that these entries are the removed nodes: a removed node stays in the order and a remaining one is lost", A.loc(d))
    sn = A.cls(g).find_method("sorted_nodes")
    if any(isinstance(n, ast.If) and norm(n.test) == "self._sorted_nodes is None" and any(isinstance(c, ast.Call) and isinstance(c.func, ast.Attribute) and c.func.attr == "sorting" for c in ast.walk(n)) for n in walk_own(sn.node)):
        col.ok("C37.resort", "sorted_nodes sorts lazily when no sorted list exists", A.loc(sn.node))
    else:
        col.fail("C37.resort", sn.qualname, "lazy-sort", "sorted_nodes no longer sorts when _sorted_nodes is None", A.loc(sn.node))
