"""Rule registry: one entry per claimed property."""

from __future__ import annotations

from dataclasses import dataclass, field
import typing as ty


@dataclass
class PropertySpec:
    id: str
    fn: ty.Callable  # (Analysis, Collector) -> None
    technique: str
    decides: str  # the clause(s) decided
    not_decided: str
    level_note: str
    design_ref: str = ""
    mutations: ty.Callable | None = None  # self-validation corpus generator (thorough tier)


REGISTRY: dict[str, PropertySpec] = {}


def prop(id: str, technique: str, decides: str, not_decided: str, level_note: str, design_ref: str = ""):
    def deco(fn):
        REGISTRY[id] = PropertySpec(id, fn, technique, decides, not_decided, level_note, design_ref or f"DESIGN.md section 3, {id}")
        return fn

    return deco


NOT_APPLICABLE: dict[str, str] = {}


def load_all():
    import importlib
    import pkgutil

    for m in pkgutil.iter_modules(__path__):
        importlib.import_module(f"{__name__}.{m.name}")
    return REGISTRY
