"""Scheduling rules: C14 (failure isolation), C15 (readiness + exactly once),
C16 (concurrency bound), C18 (termination)."""

from __future__ import annotations

import ast
import typing as ty

from ..engine import Analysis
from ..model import AnalysisError, FuncInfo, ClassInfo, dotted, norm, walk_own, parents, kwarg, is_within, shape, alpha
from ..cfg import CFG, Node, explore, format_path, token_kind, ANY_E, ANY_B, handler_names
from ..report import Collector
from . import prop

SUBMITTER = "pydra.engine.submitter.Submitter"
NODEEXEC = "pydra.engine.submitter.NodeExecution"
JOB = "pydra.engine.job.Job"


def _calls(n: Node):
    for e in n.exprs:
        for c in [e] + list(walk_own(e)):
            if isinstance(c, ast.Call):
                yield c


def _attrs_loaded(n: Node):
    for e in n.exprs:
        for a in [e] + list(walk_own(e)):
            if isinstance(a, ast.Attribute) and isinstance(a.ctx, ast.Load):
                yield a


# --------------------------------------------------------------------------- #
# C14 (a): escape of the ValueError raised by Job.done
# --------------------------------------------------------------------------- #


class DoneEscape:
    """Tracks one raise site only: the ValueError that Job.done raises for an errored
    result.  `escapes(fn)` = that ValueError can leave fn."""

    def __init__(self, A: Analysis):
        self.A = A
        job = A.cls(JOB)
        self.job = job
        self.done = job.find_method("done")
        if self.done is None or not self.done.is_property_getter:
            raise AnalysisError("Job.done property not found")
        if "ValueError" not in A.rm.summary(self.done):
            raise AnalysisError("Job.done no longer raises ValueError for errored results (anchor of C14(a) lost)")
        self._esc: dict[str, bool] = {}
        self._busy: set[str] = set()
        self.origins: dict[str, list[tuple[Node, ast.AST]]] = {}

    def origin_reads(self, fn: FuncInfo, node: Node) -> list[ast.Attribute]:
        """`.done` reads on Job-typed expressions evaluated at this CFG node."""
        out = []
        for a in _attrs_loaded(node):
            if a.attr == "done":
                t = self.A.rs.type_of(a.value, fn)
                if any(c.is_subclass_of(self.job) for c in t.inst) and self._consistent(fn, a.value):
                    out.append(a)
        return out

    def _consistent(self, fn: FuncInfo, recv: ast.AST) -> bool:
        """Engler-style contradiction check on the inferred type: if the same variable is
        used with attributes Job does not define, the annotation it was inferred from is
        wrong (today: `predecessors: list[Job]` in NodeExecution.get_runnable_tasks holds
        NodeExecution objects -- `p.unrunnable`), and the read is not a Job.done read."""
        if not isinstance(recv, ast.Name):
            return True
        for n in walk_own(fn.node):
            if isinstance(n, ast.Attribute) and isinstance(n.value, ast.Name) and n.value.id == recv.id:
                if not self.A.rs.class_has_attr(self.job, n.attr):
                    return False
        return True

    def propagating(self, fn: FuncInfo, node: Node) -> list[str]:
        """repo functions / properties used at this node through which the error escapes."""
        out = []
        A = self.A
        for c in _calls(node):
            for t in A.resolve(c, fn).repo_targets:
                if isinstance(t, FuncInfo) and self.escapes(t):
                    out.append(t.qualname)
        for a in _attrs_loaded(node):
            if a.attr == "done" and self.origin_reads(fn, node):
                continue
            base = A.rs.type_of(a.value, fn)
            for c in base.inst:
                m = c.find_method(a.attr)
                if m is not None and m.is_property_getter and m is not self.done and self.escapes(m):
                    out.append(m.qualname)
        return out

    def tokens(self, fn: FuncInfo):
        def f(node: Node) -> set[str]:
            if node.kind == "raise":
                return set()  # only the tracked error
            if self.origin_reads(fn, node) or self.propagating(fn, node):
                return {"ValueError"}
            return set()

        return f

    def escapes(self, fn: FuncInfo) -> bool:
        if fn.qualname in self._esc:
            return self._esc[fn.qualname]
        if fn.qualname in self._busy:
            return False
        if fn is self.done:
            return True
        self._busy.add(fn.qualname)
        try:
            # cheap pre-filter: the function must mention .done or call repo code
            cfg = self.A.cfg(fn)
            toks = self.tokens(fn)
            starts = [(n, None) for n in cfg.nodes if n.kind not in ("exit", "entry") and toks(n)]
            res = False
            if starts:
                for n, _ in starts:
                    esc = explore(cfg, [(n, None)], lambda m, _n=n: toks(m) if m is _n else set())
                    if any(e.exit_kind == "raise" and e.token == "ValueError" for e in esc):
                        res = True
                        break
        finally:
            self._busy.discard(fn.qualname)
        self._esc[fn.qualname] = res
        return res


def done_escape_rule(A: Analysis, col: Collector, rule: str):
    de = DoneEscape(A)
    sub_mod = A.repo.module("pydra.engine.submitter")
    fns = [f for f in A.repo.all_functions() if f.module is sub_mod]
    n_sites = 0
    sched_entry = {f"{SUBMITTER}.expand_workflow", f"{SUBMITTER}.expand_workflow_async"}
    # which functions let the error reach a scheduling loop
    reaches_sched = {f.qualname for f in fns if de.escapes(f)}
    for fn in fns:
        cfg = A.cfg(fn)
        col.scope(fn.qualname)
        for node in cfg.nodes:
            reads = de.origin_reads(fn, node)
            if not reads:
                continue
            n_sites += 1
            esc = explore(cfg, [(node, None)], lambda m, _n=node: {"ValueError"} if m is _n else set())
            out = [e for e in esc if e.exit_kind == "raise" and e.token == "ValueError"]
            # which collection is being scanned (semantic signature)
            coll = "?"
            for p in parents(reads[0]):
                if isinstance(p, (ast.For, ast.comprehension)):
                    coll = norm(p.iter, 60)
                    break
            coll_sig = "+".join(sorted({a.attr for a in ast.walk(ast.parse(coll, mode="eval")) if isinstance(a, ast.Attribute)})) if coll != "?" else "?"
            if not out:
                col.ok(rule, f"{fn.qualname}: `{norm(reads[0])}` (scan of {coll}) is evaluated where ValueError is handled", A.loc(reads[0]))
                continue
            # aborting anyway?  every continuation from this node ends in a raise
            cont = explore(cfg, [(node, None)], A.rm.tokens_fn(fn), start_edges="normal")
            if cont and all(e.exit_kind == "raise" for e in cont):
                col.ok(rule, f"{fn.qualname}: `{norm(reads[0])}` is evaluated inside a diagnostics block that raises on every path (aborting anyway)", A.loc(reads[0]))
                continue
            col.fail(
                rule,
                fn.qualname,
                f"Job.done-unguarded:scan[{coll_sig}]",
                f"`{norm(reads[0])}` (scan of {coll}) is evaluated outside any handler for the ValueError that Job.done raises for an errored result; the error escapes {fn.name} and aborts the scheduling loop, so jobs independent of the failed one are never started",
                A.loc(reads[0]),
                witness=format_path(out[0].path),
            )
    col.notes["done_evaluation_sites"] = n_sites
    col.notes["functions_letting_done_error_escape"] = sorted(reaches_sched)
    if n_sites < 2:
        raise AnalysisError(f"C14: only {n_sites} evaluations of Job.done found in the submitter module; floor 2 (queued scan, running scan)")


# --------------------------------------------------------------------------- #
# C14 (b): no job is dropped when it leaves queued / running
# --------------------------------------------------------------------------- #

STATUS_SETS = ("successful", "errored", "running", "queued", "unrunnable", "blocked")


def _scan_sig(lp: ast.For) -> str:
    return "+".join(sorted({a.attr for a in ast.walk(lp.iter) if isinstance(a, ast.Attribute)})) or "?"


def stale_flag_rule(A: Analysis, col: Collector, rule: str, fns: list[FuncInfo]):
    """per-iteration flags: a local assigned constant booleans that is read inside a loop
    must be (re)assigned on every path of the same iteration before it is read, otherwise
    the verdict on one element leaks into the following elements of the scan."""
    for fn in fns:
        loops = [n for n in walk_own(fn.node) if isinstance(n, (ast.For, ast.AsyncFor))]
        if not loops:
            continue
        cfg = A.cfg(fn)
        flags = {}
        for n in walk_own(fn.node):
            if isinstance(n, ast.Assign) and isinstance(n.value, ast.Constant) and isinstance(n.value.value, bool):
                for t in n.targets:
                    if isinstance(t, ast.Name):
                        flags.setdefault(t.id, []).append(n)
        for lp in loops:
            heads = [n for n in cfg.nodes if n.kind == "loop" and n.stmt is lp]
            for flag in sorted(flags):
                # only flags that are written inside this loop are per-iteration flags
                writers = {n.id for n in cfg.nodes if n.kind == "stmt" and isinstance(n.stmt, ast.Assign) and is_within(n.stmt, lp) and any(isinstance(t, ast.Name) and t.id == flag for t in n.stmt.targets)}
                if not writers:
                    continue
                # accumulators (set once to True inside the loop, initialised False before it, read after it) are not flags of an iteration
                readers = [n for n in cfg.nodes if n.stmt is not None and is_within(n.stmt, lp) and n.kind in ("test", "stmt", "return") and any(isinstance(x, ast.Name) and x.id == flag and isinstance(x.ctx, ast.Load) for e in n.exprs for x in [e] + list(walk_own(e)))]
                for r in readers:
                    seen, st, stale = set(), [r], False
                    while st:
                        n = st.pop()
                        if n.id in seen:
                            continue
                        seen.add(n.id)
                        if n is not r and n.id in writers:
                            continue
                        if n in heads:
                            stale = True
                            break
                        st.extend(p for _, p in n.pred)
                    if stale:
                        col.fail(rule, fn.qualname, f"flag-carried-across-iterations:scan-of-{_scan_sig(lp)}", f"the flag `{flag}` read in `{norm(r.stmt.test if r.kind == 'test' else r.stmt, 50)}` is not re-assigned on every path of the iteration: once set for one element it stays set for the following elements of the scan, which are then classified like the first", A.loc(r.stmt))
                    else:
                        col.ok(rule, f"{fn.name}: flag `{flag}` is assigned on every path of an iteration before `{norm(r.stmt.test if r.kind == 'test' else r.stmt, 40)}` reads it", A.loc(r.stmt))


def pop_lands_rule(A: Analysis, col: Collector, rule: str):
    fn = A.func(f"{NODEEXEC}.update_status")
    col.scope(fn.qualname)
    pops = []
    for c in A.calls(fn):
        if isinstance(c.func, ast.Attribute) and c.func.attr == "pop" and isinstance(c.func.value, ast.Attribute) and c.func.value.attr in ("queued", "running") and dotted(c.func.value.value) == "self":
            pops.append(c)
    if len(pops) < 5:
        raise AnalysisError(f"C14: {len(pops)} pops from queued/running in update_status; floor 5")
    for c in pops:
        src = c.func.value.attr
        stmt = None
        for p in parents(c):
            if isinstance(p, ast.stmt):
                stmt = p
                break
        dest = None
        if isinstance(stmt, ast.Assign):
            for t in stmt.targets:
                if isinstance(t, ast.Subscript) and isinstance(t.value, ast.Attribute) and t.value.attr in STATUS_SETS and dotted(t.value.value) == "self":
                    dest = t.value.attr
        if dest is None:
            col.fail(rule, fn.qualname, f"job-dropped-from:{src}", f"`{norm(c)}` removes a job from `{src}` without recording it in successful/errored/running: the job is lost and its node never completes", A.loc(c))
        elif dest == src:
            col.fail(rule, fn.qualname, f"job-moved:{src}->{dest}", f"`{norm(stmt, 80)}` moves a job from `{src}` back to `{src}`", A.loc(c))
        else:
            # the branch condition must match the destination
            cond = ""
            for p in parents(c):
                if isinstance(p, ast.If) and any(is_within(stmt, s) for s in p.body):
                    cond = norm(p.test)
                    break
            good = True
            if dest == "successful" and not ("done" in cond):
                good = False
            if dest == "errored" and not ("errored" in cond):
                good = False
            if dest == "running" and not ("run_start_time" in cond):
                good = False
            if good:
                col.ok(rule, f"update_status: `{src}` -> `{dest}` under `{cond}`", A.loc(c))
            else:
                col.fail(rule, fn.qualname, f"wrong-destination:{src}->{dest}:{cond.replace(' ', '')[:40]}", f"a job leaving `{src}` is recorded in `{dest}` under condition `{cond}`", A.loc(c))
    stale_flag_rule(A, col, rule, [f for f in A.repo.all_functions() if f.module.name == 'pydra.engine.submitter'])
    # errored takes no part of 'done' of the node: NodeExecution.done == not (queued or blocked or running)
    nd = A.cls(NODEEXEC).find_method("done")
    rets = [n for n in walk_own(nd.node) if isinstance(n, ast.Return) and n.value is not None]
    final = [r for r in rets if isinstance(r.value, ast.UnaryOp)]
    ok = False
    for r in final:
        names = {a.attr for a in ast.walk(r.value) if isinstance(a, ast.Attribute)}
        if {"queued", "blocked", "running"} <= names and "errored" not in names and "successful" not in names:
            ok = True
    if ok:
        col.ok(rule, "NodeExecution.done == not (queued or blocked or running): a node with only finished (successful/errored) jobs is done", A.loc(nd.node))
    else:
        col.fail(rule, nd.qualname, "node-done-definition", "NodeExecution.done is no longer `not (queued or blocked or running)`", A.loc(nd.node))
    calls_update = any(isinstance(c.func, ast.Attribute) and c.func.attr == "update_status" for c in A.calls(nd))
    if calls_update:
        col.ok(rule, "NodeExecution.done refreshes the job statuses first (update_status)", A.loc(nd.node))
    else:
        col.fail(rule, nd.qualname, "node-done-without-refresh", "NodeExecution.done does not call update_status()", A.loc(nd.node))


# --------------------------------------------------------------------------- #
# C14 (c) / C15 (a): readiness and failure tests in NodeExecution.get_runnable_tasks
# --------------------------------------------------------------------------- #


def _is_all_done(test: ast.AST, preds_var: str) -> bool:
    """all(p.done for p in <preds>)  |  not any(not p.done for p in <preds>)"""
    t = test
    neg = False
    if isinstance(t, ast.UnaryOp) and isinstance(t.op, ast.Not):
        t, neg = t.operand, True
    if not (isinstance(t, ast.Call) and isinstance(t.func, ast.Name) and t.func.id in ("all", "any") and len(t.args) == 1):
        return False
    g = t.args[0]
    if not isinstance(g, (ast.GeneratorExp, ast.ListComp)) or len(g.generators) != 1:
        return False
    gen = g.generators[0]
    if norm(gen.iter) != preds_var or gen.ifs:
        return False
    var = norm(gen.target)
    if t.func.id == "all" and not neg:
        return norm(g.elt) == f"{var}.done"
    if t.func.id == "any" and neg:
        return norm(g.elt) == f"not {var}.done"
    return False


def readiness_rule(A: Analysis, col: Collector, rule: str, failure_part: bool, readiness_part: bool):
    fn = A.func(f"{NODEEXEC}.get_runnable_tasks")
    col.scope(fn.qualname)
    cfg = A.cfg(fn)
    col.notes.setdefault("folded_literal_tests", []).extend(cfg.folded)
    # the complete predecessor list
    preds_var = None
    for n in walk_own(fn.node):
        tgt = val = None
        if isinstance(n, ast.AnnAssign) and n.value is not None:
            tgt, val = n.target, n.value
        elif isinstance(n, ast.Assign):
            tgt, val = n.targets[0], n.value
        if tgt is not None and isinstance(tgt, ast.Name) and isinstance(val, ast.Subscript) and isinstance(val.value, ast.Attribute) and val.value.attr == "predecessors":
            if norm(val.slice) in ("self.node.name", "self.name"):
                preds_var = tgt.id
                col.ok(rule, f"predecessor list `{tgt.id}` = `{norm(val)}` (complete list of this node's predecessors)", A.loc(n))
            else:
                col.fail(rule, fn.qualname, f"predecessors-of:{norm(val.slice, 30)}", f"the predecessor list is `{norm(val)}`, not the predecessors of this node", A.loc(n))
                preds_var = tgt.id
    if preds_var is None:
        raise AnalysisError("NodeExecution.get_runnable_tasks: predecessor list not found")
    # any reassignment / slicing of the list later on
    for n in walk_own(fn.node):
        if isinstance(n, (ast.Assign, ast.AugAssign)):
            tg = n.targets if isinstance(n, ast.Assign) else [n.target]
            for t in tg:
                if isinstance(t, ast.Name) and t.id == preds_var and not (isinstance(n, ast.Assign) and isinstance(n.value, ast.Subscript) and isinstance(n.value.value, ast.Attribute) and n.value.value.attr == "predecessors"):
                    col.fail(rule, fn.qualname, "predecessor-list-rewritten", f"the predecessor list is modified (`{norm(n, 60)}`) before the readiness test", A.loc(n))
    # the tests
    fail_tests = []
    ready_tests = []
    refresh_nodes = []
    for n in cfg.nodes:
        if n.kind != "test" or not isinstance(n.stmt, ast.If):
            continue
        t = n.stmt.test
        inner = t.value if isinstance(t, ast.NamedExpr) else t
        if isinstance(inner, (ast.ListComp, ast.GeneratorExp)) and len(inner.generators) == 1 and norm(inner.generators[0].iter) == preds_var and inner.generators[0].ifs:
            cond = norm(inner.generators[0].ifs[0])
            v = norm(inner.generators[0].target)
            if f"{v}.errored" in cond and f"{v}.unrunnable" in cond and " or " in cond:
                fail_tests.append(n)
        if _is_all_done(t, preds_var):
            ready_tests.append(n)
            refresh_nodes.append(n)
        elif isinstance(t, ast.Name):
            # `flag = all(p.done for p in predecessors)` evaluated earlier, tested here
            defs = [(k, pl) for k, pl in A.rs.local_defs(fn).get(t.id, [])]
            if defs and all(k == "assign" and _is_all_done(pl, preds_var) for k, pl in defs):
                ready_tests.append(n)
                for m in cfg.nodes:
                    if m.kind == "stmt" and isinstance(m.stmt, ast.Assign) and any(isinstance(x, ast.Name) and x.id == t.id for x in m.stmt.targets):
                        refresh_nodes.append(m)
    starts = [n for n in cfg.nodes if any(isinstance(c.func, ast.Attribute) and c.func.attr == "start" and dotted(c.func.value) == "self" for c in _calls(n))]
    appends = [n for n in cfg.nodes if any(isinstance(c.func, ast.Attribute) and c.func.attr in ("append", "extend") and any(isinstance(k, ast.Call) and isinstance(k.func, ast.Attribute) and k.func.attr == "pop" and "blocked" in norm(k.func.value) for k in ast.walk(c)) for c in _calls(n))]
    if not starts or not appends:
        raise AnalysisError(f"get_runnable_tasks: start() sites={len(starts)}, runnable.append(blocked.pop) sites={len(appends)}; both must exist")
    if failure_part:
        if not fail_tests:
            col.fail(rule, fn.qualname, "no-upstream-failure-test", "no test `[p for p in predecessors if p.errored or p.unrunnable]` over the complete predecessor list exists: dependants of a failed job are started", A.loc(fn.node))
        for ft in fail_tests:
            # T branch: unrunnable recorded, blocked emptied, nothing started
            tb = [m for l, m in ft.succ if l == "T"]
            reach = cfg.reachable_from(tb, labels={"n", "T", "F"}) if tb else set()
            # nodes exclusively on the T side: those not reachable from the F side
            fb = [m for l, m in ft.succ if l == "F"]
            freach = cfg.reachable_from(fb) if fb else set()
            tonly = [n for n in cfg.nodes if n.id in reach and n.id not in freach]
            sets_unr = any(isinstance(n.stmt, ast.Assign) and any(isinstance(t, ast.Attribute) and t.attr == "unrunnable" for t in n.stmt.targets) for n in tonly)
            empties = any(isinstance(n.stmt, ast.Assign) and any(isinstance(t, ast.Attribute) and t.attr == "blocked" for t in n.stmt.targets) and norm(n.stmt.value) in ("{}", "dict()") for n in tonly)
            starts_on_t = [n for n in tonly if n in starts or n in appends]
            if sets_unr and empties and not starts_on_t:
                col.ok(rule, "upstream failure: the node records `unrunnable`, empties `blocked`, and starts nothing", A.loc(ft.stmt))
            else:
                what = []
                if not sets_unr:
                    what.append("unrunnable-not-recorded")
                if not empties:
                    what.append("blocked-not-emptied")
                if starts_on_t:
                    what.append("starts-jobs")
                col.fail(rule, fn.qualname, "upstream-failure-branch:" + "+".join(what), f"when a predecessor is errored/unrunnable the node {' and '.join(what)}", A.loc(ft.stmt))
        # snapshot consistency: the statuses read by the failure test (`p.errored`, `p.unrunnable`
        # are only brought up to date by update_status, which `.done` triggers) must not be older
        # than those the readiness test sees: no status refresh between the failure test and start()
        for ft in fail_tests:
            fb = [m for l, m in ft.succ if l == "F"]
            after = cfg.reachable_from(fb) if fb else set()
            late = [r for r in refresh_nodes if r.id in after and r is not ft]
            ids = {r.id for r in refresh_nodes}
            if late:
                col.fail(rule, fn.qualname, "failure-test-on-stale-statuses", f"the upstream-failure test reads `errored`/`unrunnable` before `{late[0].text(50)}` refreshes the predecessors' statuses: a predecessor that fails in between is seen as done but not as errored, the dependant is started, resolving its inputs raises and aborts the scheduling loop (independent jobs never run)", A.loc(late[0].stmt))
            elif refresh_nodes and cfg.dominated_by(ft, lambda m: m.id in ids):
                col.ok(rule, "the predecessors' statuses are refreshed (all(p.done ...)) before the upstream-failure test reads them, and not again before start()", A.loc(ft.stmt))
            else:
                col.fail(rule, fn.qualname, "failure-test-without-refresh", "the upstream-failure test is not preceded by a refresh of the predecessors' statuses", A.loc(ft.stmt))
        for s in starts + appends:
            if fail_tests and cfg.dominated_by_edge(s, lambda n: n in fail_tests, "F"):
                col.ok(rule, f"`{s.text(40)}` is dominated by the no-upstream-failure branch", A.loc(s.stmt))
            else:
                col.fail(rule, fn.qualname, f"reachable-despite-upstream-failure:{'start' if s in starts else 'append'}", f"`{s.text(50)}` can execute although a predecessor is errored or unrunnable", A.loc(s.stmt))
    if readiness_part:
        if not ready_tests:
            col.fail(rule, fn.qualname, "no-universal-readiness-test", f"no test `all(p.done for p in {preds_var})` over the complete predecessor list guards job start (e.g. all -> any, or a sliced list)", A.loc(fn.node))
        for s in starts + appends:
            if ready_tests and cfg.dominated_by_edge(s, lambda n: n in ready_tests, "T"):
                col.ok(rule, f"`{s.text(40)}` is dominated by `all(p.done for p in {preds_var})`", A.loc(s.stmt))
            else:
                col.fail(rule, fn.qualname, f"start-before-all-predecessors-done:{'start' if s in starts else 'append'}", f"`{s.text(50)}` can execute before every predecessor is done", A.loc(s.stmt))
    return fn


# --------------------------------------------------------------------------- #
# C14 (d): error aggregation
# --------------------------------------------------------------------------- #


def error_aggregation_rule(A: Analysis, col: Collector, rule: str):
    fn = A.func(f"{SUBMITTER}.expand_workflow_async")
    col.scope(fn.qualname)
    # `<x>.result()` on the loop variable that iterates the futures fetch_finished reported as done (no
    # dependence on the variable's name)
    fetched_ = {e.id for a_ in walk_own(fn.node) if isinstance(a_, ast.Assign) and any(isinstance(c, ast.Call) and isinstance(c.func, ast.Attribute) and c.func.attr == "fetch_finished" for c in ast.walk(a_.value)) for t in a_.targets for e in (t.elts if isinstance(t, ast.Tuple) else [t]) if isinstance(e, ast.Name)}
    done_vars_ = {l.target.id for l in walk_own(fn.node) if isinstance(l, ast.For) and isinstance(l.target, ast.Name) and isinstance(l.iter, ast.Name) and l.iter.id in fetched_}
    res_calls = [c for c in A.calls(fn) if isinstance(c.func, ast.Attribute) and c.func.attr == "result" and not c.args and ((isinstance(c.func.value, ast.Name) and c.func.value.id in done_vars_) or "future" in norm(c.func.value))]
    A.anchor("task_future.result() in expand_workflow_async", res_calls)
    err_vars = set()
    for c in res_calls:
        ok = False
        for p in parents(c):
            if isinstance(p, ast.Try) and any(is_within(c, s) for s in p.body):
                for h in p.handlers:
                    names = handler_names(h)
                    if names is None or "Exception" in names or "BaseException" in names:
                        appends = [k for k in ast.walk(h) if isinstance(k, ast.Call) and isinstance(k.func, ast.Attribute) and k.func.attr == "append" and isinstance(k.func.value, ast.Name)]
                        falls = not any(isinstance(k, ast.Raise) for k in ast.walk(h))
                        if appends and falls:
                            ok = True
                            err_vars |= {k.func.value.id for k in appends}
            if p is fn.node:
                break
        if ok:
            col.ok(rule, "every completed future is result()-ed inside `except Exception` that appends to the error list and continues the loop", A.loc(c))
        else:
            col.fail(rule, fn.qualname, "future-error-not-collected", "the result() of a completed job future is not collected into the error list by a handler that lets the loop continue: the first failure aborts scheduling", A.loc(c))
    # the loop over completed futures covers all of them
    loops = [n for n in walk_own(fn.node) if isinstance(n, ast.For) and any(is_within(c, n) for c in res_calls)]
    for lp in loops:
        if isinstance(lp.iter, ast.Name) and not any(isinstance(k, ast.Break) for k in ast.walk(lp)):
            col.ok(rule, f"the loop `for {norm(lp.target)} in {norm(lp.iter)}` visits every completed future (no break)", A.loc(lp))
        else:
            col.fail(rule, fn.qualname, "completed-futures-not-all-visited", "the loop over completed futures can stop early or iterates a derived collection", A.loc(lp))
    # finally: raise when errors
    raised = False
    for n in walk_own(fn.node):
        if isinstance(n, ast.Try) and n.finalbody:
            for s in n.finalbody:
                if isinstance(s, ast.If) and isinstance(s.test, ast.Name) and s.test.id in err_vars and any(isinstance(k, ast.Raise) for k in ast.walk(s)):
                    ev = s.test.id
                    msg_uses_all = any(isinstance(k, ast.Call) and isinstance(k.func, ast.Attribute) and k.func.attr == "join" and k.args and norm(k.args[0]) == ev for k in ast.walk(s))
                    raised = True
                    if msg_uses_all:
                        col.ok(rule, "finally: `if <errors>: raise RuntimeError(...join(<errors>)...)` names every collected failure", A.loc(s))
                    else:
                        col.fail(rule, fn.qualname, "error-message-not-all-errors", "the final error does not include every collected error", A.loc(s))
    if not raised:
        col.fail(rule, fn.qualname, "errors-not-raised", "collected errors are not raised when the workflow finishes", A.loc(fn.node))
    # the scheduling loop keeps going while spawned futures are pending: otherwise a failure
    # whose future has not been collected yet is missing from the final error
    inflight = None
    for c in A.calls(fn):
        if isinstance(c.func, ast.Attribute) and c.func.attr in ("add", "append") and c.args and isinstance(c.args[0], ast.Name) and isinstance(c.func.value, ast.Name):
            defs = [p for k, p in A.rs.local_defs(fn).get(c.args[0].id, []) if k == "assign"]
            if any(isinstance(d, ast.Call) and A.callee_names(d, fn) & {"asyncio.Task", "asyncio.create_task", "asyncio.ensure_future"} for d in defs):
                inflight = c.func.value.id
    outer = [n for n in walk_own(fn.node) if isinstance(n, ast.While) and any(is_within(c, n) for c in res_calls)]
    if inflight and outer:
        lp = max(outer, key=lambda n: n.end_lineno - n.lineno)
        disj = lp.test.values if isinstance(lp.test, ast.BoolOp) and isinstance(lp.test.op, ast.Or) else [lp.test]
        if any(isinstance(v, ast.Name) and v.id == inflight for v in disj):
            col.ok(rule, f"the scheduling loop continues while spawned futures (`{inflight}`) are pending", A.loc(lp))
        else:
            col.fail(rule, fn.qualname, "loop-ends-with-pending-futures", f"the scheduling loop's condition `{norm(lp.test, 70)}` does not keep the loop alive while spawned futures (`{inflight}`) are pending: it can end as soon as every result is on disk, before the failed futures were collected, and the final error then does not name every failed job", A.loc(lp))
    else:
        # the spawn may have been moved into a helper method of the submitter
        for g in A.callees(fn):
            if g.qualname != fn.qualname and g.module is fn.module and any("asyncio.Task" in A.callee_names(c, g) or (isinstance(c.func, ast.Attribute) and c.func.attr in ("create_task", "ensure_future")) for c in A.calls(g)):
                raise AnalysisError(f"{fn.qualname}: the spawn of job futures is not in the scheduling loop but in helper {g.qualname}; the aggregation rule is intraprocedural and cannot decide this shape")
        col.fail(rule, fn.qualname, "no-inflight-collection", "spawned job futures are not tracked / the scheduling loop was not found", A.loc(fn.node))
    # WorkflowOutputs._from_job: iterate all nodes with errored, raise
    fj = A.func("pydra.compose.workflow.WorkflowOutputs._from_job")
    col.scope(fj.qualname)
    found = False
    for n in walk_own(fj.node):
        if isinstance(n, ast.If):
            t = n.test.value if isinstance(n.test, ast.NamedExpr) else n.test
            if isinstance(t, ast.ListComp) and isinstance(t.generators[0].iter, ast.Attribute) and t.generators[0].iter.attr == "nodes" and t.generators[0].ifs and "errored" in norm(t.generators[0].ifs[0]):
                if any(isinstance(k, ast.Raise) for k in ast.walk(n)):
                    found = True
                    col.ok(rule, "WorkflowOutputs._from_job raises when any node of the execution graph has errored jobs", A.loc(n))
    if not found:
        col.fail(rule, fj.qualname, "workflow-outputs-ignore-errored-nodes", "WorkflowOutputs._from_job no longer fails the workflow when a node has errored jobs", A.loc(fj.node))


@prop(
    "C14",
    technique="exception-escape analysis of one tracked raise site (Job.done's ValueError) over token-aware CFGs and the resolved call graph; status-set typestate of update_status; dominance (edge) checks in get_runnable_tasks; handler/aggregation rule in expand_workflow_async",
    decides="(a) every evaluation of Job.done in the submitter module is inside a handler for the ValueError it raises for errored results (or inside a block that aborts anyway), so a failure cannot abort the scheduling loop; (b) every job popped from queued/running is recorded in exactly one of successful/errored/running under the matching condition, and node completion ignores errored jobs; (c) when a predecessor is errored/unrunnable the node records unrunnable, empties blocked and starts nothing, and every start is dominated by the no-failure branch; (d) every completed future's error is collected by a non-raising handler, all are raised at the end, and WorkflowOutputs fails on errored nodes.",
    not_decided="timing of completions; behaviour of concurrent.futures; that the error text is informative.",
    level_note="Trusted: nominal type inference for `job` variables (annotated dict[int, Job] / dict[int, tuple[Job, datetime]] class attributes of NodeExecution).",
)
def check_c14(A: Analysis, col: Collector):
    done_escape_rule(A, col, "C14.done-escape")
    pop_lands_rule(A, col, "C14.status")
    readiness_rule(A, col, "C14.dependants", failure_part=True, readiness_part=False)
    error_aggregation_rule(A, col, "C14.aggregate")


# --------------------------------------------------------------------------- #
# C15
# --------------------------------------------------------------------------- #


def graph_edges_rule(A: Analysis, col: Collector, rule: str):
    fn = A.func("pydra.engine.workflow.Workflow._create_graph")
    col.scope(fn.qualname)
    adds = [c for c in A.calls(fn) if isinstance(c.func, ast.Attribute) and c.func.attr == "add_edges"]
    A.anchor("graph.add_edges in _create_graph", adds)
    nodes_param = fn.params()[1].arg if len(fn.params()) > 1 else "nodes"
    for c in adds:
        loops = [p for p in parents(c) if isinstance(p, ast.For)]
        conds = [p for p in parents(c) if isinstance(p, ast.If)]
        over_fields = any(isinstance(l.iter, ast.Call) and (dotted(l.iter.func) or "").endswith("get_fields") for l in loops)
        node_loops = [l for l in loops if isinstance(l.iter, ast.Name) and l.iter.id == nodes_param and isinstance(l.target, ast.Name)]
        over_nodes = bool(node_loops)
        node_var = node_loops[0].target.id if node_loops else "?"
        gvar = norm(c.func.value)
        lazy_guard = any("LazyOutField" in norm(i.test) and "isinstance" in norm(i.test) for i in conds)
        # the variable tested to be a LazyOutField
        lf_var = None
        for i in conds:
            for k in ast.walk(i.test):
                if isinstance(k, ast.Call) and dotted(k.func) == "isinstance" and len(k.args) == 2 and "LazyOutField" in norm(k.args[1]) and isinstance(k.args[0], ast.Name):
                    lf_var = k.args[0].id
        other = []
        for i in conds:
            conj = i.test.values if isinstance(i.test, ast.BoolOp) and isinstance(i.test.op, ast.And) else [i.test]
            for cj in conj:
                t_ = norm(cj, 80)
                if "LazyOutField" in t_ and "isinstance" in t_:
                    continue
                if t_.endswith(f"not in {gvar}.edges"):
                    continue
                other.append(t_)
        if over_fields and over_nodes and lazy_guard and not other:
            col.ok(rule, "_create_graph adds an edge for every field of every node whose value is a LazyOutField (only guard: edge not yet present)", A.loc(c))
        else:
            what = []
            if not over_fields:
                what.append("not-all-fields")
            if not over_nodes:
                what.append("not-all-nodes")
            if not lazy_guard:
                what.append("no-LazyOutField-test")
            if other:
                what.append("extra-condition")
            col.fail(rule, fn.qualname, "edge-creation:" + "+".join(what), f"edges are not created for every lazy connection ({', '.join(what)}; extra conditions {other})", A.loc(c))
        # the edge is (upstream node, this node)
        edge_arg = A.expand(c.args[0], fn, keep=(lf_var or "", node_var or "")) if c.args else None
        if edge_arg is not None and isinstance(edge_arg, ast.Tuple) and len(edge_arg.elts) == 2 and lf_var and f"{lf_var}._node" in norm(edge_arg.elts[0]) and norm(edge_arg.elts[1]) == node_var:
            col.ok(rule, "edge direction: (node producing the lazy field, consuming node)", A.loc(c))
        else:
            col.fail(rule, fn.qualname, "edge-direction:" + (shape(c.args[0], 40) if c.args else ""), "the edge added for a lazy connection is not (upstream, consumer)", A.loc(c))
    # Submitter.get_runnable_tasks: stops at nodes whose predecessors have not started
    gr = A.func(f"{SUBMITTER}.get_runnable_tasks")
    col.scope(gr.qualname)
    scan_order_rule(A, col, rule, gr)
    src = " ".join(norm(n) for n in walk_own(gr.node) if isinstance(n, ast.For))
    if "sorted_nodes" in src:
        col.ok(rule, "Submitter.get_runnable_tasks scans graph.sorted_nodes (topological order)", A.loc(gr.node))
    else:
        col.fail(rule, gr.qualname, "scan-not-topological", "Submitter.get_runnable_tasks does not scan graph.sorted_nodes", A.loc(gr.node))


def scan_order_rule(A: Analysis, col: Collector, rule: str, gr: FuncInfo):
    """The sorted scan releases a node's successors only in a later round: within the
    loop body (1) the scan stops (`break`) at a node that has a predecessor recorded as
    not started, (2) a node that is not started yet is recorded *before* (3) its
    NodeExecution.get_runnable_tasks() is called -- that call starts the node, so a test
    of `started` made after it can never record the node, and successors whose
    predecessors merely have a (possibly stale, e.g. under rerun) result in the cache are
    released in the same round as the predecessor."""
    cfg = A.cfg(gr)
    loops = [n for n in walk_own(gr.node) if isinstance(n, ast.For) and isinstance(n.target, ast.Name) and isinstance(n.iter, ast.Attribute) and n.iter.attr == "sorted_nodes"]
    A.anchor("scan over graph.sorted_nodes in Submitter.get_runnable_tasks", loops)
    lp = loops[0]
    v = lp.target.id
    collect = [n for n in cfg.nodes if n.stmt is not None and is_within(n.stmt, lp) and any(isinstance(c.func, ast.Attribute) and c.func.attr == "get_runnable_tasks" and norm(c.func.value) == v for c in _calls(n))]
    started_tests = [n for n in cfg.nodes if n.kind == "test" and is_within(n.stmt, lp) and norm(n.stmt.test) == f"not {v}.started"]
    if not collect:
        raise AnalysisError("Submitter.get_runnable_tasks: the call <node>.get_runnable_tasks(graph) inside the scan was not found")
    rec_sets = set()
    for t in started_tests:
        for k in ast.walk(t.stmt):
            if isinstance(k, ast.Call) and isinstance(k.func, ast.Attribute) and k.func.attr == "add" and k.args and norm(k.args[0]) == v and isinstance(k.func.value, ast.Name):
                rec_sets.add(k.func.value.id)
    if not started_tests or not rec_sets:
        col.fail(rule, gr.qualname, "scan-does-not-record-unstarted-nodes", "the sorted scan no longer records nodes that have not been started: successors are released in the same round as their predecessors", A.loc(lp))
        return
    ids = {t.id for t in started_tests}
    for cnode in collect:
        # the test must come first in every iteration: it dominates the collecting call and the
        # collecting call does not reach it again within the same iteration (other than via the loop head)
        if cfg.dominated_by(cnode, lambda m: m.id in ids):
            col.ok(rule, f"scan: `if not {v}.started: <record>` is evaluated before `{v}.get_runnable_tasks(graph)` (which starts the node) in every iteration", A.loc(cnode.stmt))
        else:
            col.fail(rule, gr.qualname, "node-started-before-recorded-as-unstarted", f"`{v}.get_runnable_tasks(graph)` (which starts the node) runs before the `not {v}.started` test that records it: a node started in this scan is never recorded, the scan continues to its successors in the same round, and a successor whose predecessor has a (stale) result in the cache -- e.g. under rerun -- starts before the predecessor has run", A.loc(cnode.stmt))
    # the break on a predecessor that is not started precedes the collection too
    breaks = [n for n in cfg.nodes if n.kind == "test" and is_within(n.stmt, lp) and any(isinstance(b, ast.Break) for b in n.stmt.body) and any(rs in norm(n.stmt.test) for rs in rec_sets)]
    if breaks and all(cfg.dominated_by(cn, lambda m: m.id in {b.id for b in breaks}) for cn in collect):
        # and what is intersected is the complete predecessor list of the node
        pred_expr = f"{norm(lp.iter.value)}.predecessors[{v}.name]"
        pred_src = [n for n in walk_own(lp) if isinstance(n, ast.Assign) and isinstance(n.value, ast.Call) and dotted(n.value.func) == "set" and n.value.args and norm(n.value.args[0]) == pred_expr]
        inline = any(isinstance(k, ast.Call) and dotted(k.func) == "set" and k.args and norm(k.args[0]) == pred_expr for b in breaks for k in ast.walk(b.stmt.test))
        # any(p in <recorded> for p in graph.predecessors[node.name]) -- a scan over the complete list
        inline = inline or any(isinstance(k, ast.Call) and dotted(k.func) == "any" and k.args and isinstance(k.args[0], ast.GeneratorExp) and norm(k.args[0].generators[0].iter) == pred_expr and not k.args[0].generators[0].ifs for b in breaks for k in ast.walk(b.stmt.test))
        if pred_src or inline:
            col.ok(rule, "scan: stops at the first node one of whose (complete) predecessors was recorded as not started", A.loc(breaks[0].stmt))
        else:
            col.fail(rule, gr.qualname, "scan-break-on-partial-predecessors", "the scan's stop test does not use the complete predecessor list graph.predecessors[node.name]", A.loc(breaks[0].stmt))
    else:
        col.fail(rule, gr.qualname, "scan-does-not-stop-at-unstarted-predecessor", "the scan no longer stops at a node whose predecessor has not been started before collecting its jobs", A.loc(lp))


def exactly_once_rule(A: Analysis, col: Collector, rule: str):
    # Job( is constructed only in NodeExecution.start and Submitter.__call__
    sites = []
    for f in A.repo.all_functions():
        for c in A.calls(f):
            if JOB in A.callee_names(c, f):
                sites.append((f, c))
    allowed = {f"{NODEEXEC}.start", f"{SUBMITTER}.__call__"}
    if len(sites) < 3:
        raise AnalysisError(f"C15: {len(sites)} Job( construction sites, floor 3")
    for f, c in sites:
        if f.qualname in allowed:
            col.ok(rule, f"Job(...) constructed in {f.qualname}", A.loc(c))
        else:
            col.fail(rule, f.qualname, "job-constructed-elsewhere", f"a Job is constructed outside NodeExecution.start / Submitter.__call__ (`{norm(c, 50)}`): the node's jobs may exist twice", A.loc(c))
    # start() guarded by not self.started
    gr = A.func(f"{NODEEXEC}.get_runnable_tasks")
    cfg = A.cfg(gr)
    starts = [n for n in cfg.nodes if any(isinstance(c.func, ast.Attribute) and c.func.attr == "start" and dotted(c.func.value) == "self" for c in _calls(n))]
    guards = [n for n in cfg.nodes if n.kind == "test" and norm(n.stmt.test) == "not self.started"]
    for s in starts:
        if guards and cfg.dominated_by_edge(s, lambda n: n in guards, "T"):
            col.ok(rule, "self.start() is guarded by `not self.started`", A.loc(s.stmt))
        else:
            col.fail(rule, gr.qualname, "start-unguarded", "self.start() is not guarded by `not self.started`: the node's jobs are created again on a later scan", A.loc(s.stmt))
    st = A.cls(NODEEXEC).find_method("started")
    rtxt = " ".join(norm(n.value) for n in walk_own(st.node) if isinstance(n, ast.Return) and n.value is not None)
    need = ["successful", "errored", "unrunnable", "queued", "blocked"]
    if all(x in rtxt for x in need):
        col.ok(rule, "NodeExecution.started is true as soon as any status set is non-empty or blocked was created", A.loc(st.node))
    else:
        col.fail(rule, st.qualname, "started-definition:" + "+".join(x for x in need if x not in rtxt), f"NodeExecution.started ignores {[x for x in need if x not in rtxt]}", A.loc(st.node))
    # blocked -> queued is a pop (move), queued updated from runnable
    appends = [c for c in A.calls(gr) if isinstance(c.func, ast.Attribute) and c.func.attr == "append" and "runnable" in norm(c.func.value)]
    for c in appends:
        if any(isinstance(k, ast.Call) and isinstance(k.func, ast.Attribute) and k.func.attr == "pop" and "blocked" in norm(k.func.value) for k in ast.walk(c)):
            col.ok(rule, "a job becomes runnable by `blocked.pop(...)`: it cannot be handed out twice", A.loc(c))
        else:
            col.fail(rule, gr.qualname, "runnable-not-popped-from-blocked", f"`{norm(c, 60)}` makes a job runnable without removing it from `blocked`", A.loc(c))
    # jobs handed out but not started (cut off by tasks[:max_concurrent] or skipped by the spawn
    # bound) must be offered again: the node returns its complete queued set, and newly runnable
    # jobs are entered into it
    rets = [n for n in walk_own(gr.node) if isinstance(n, ast.Return) and n.value is not None]
    for r in rets:
        roots = A.flow.derives(r.value, gr)
        if "self.queued" in roots.attrs:
            col.ok(rule, "NodeExecution.get_runnable_tasks returns the complete queued set: a job that was cut off by the concurrency limit is offered again", A.loc(r))
        else:
            col.fail(rule, gr.qualname, "queued-jobs-not-reoffered", f"NodeExecution.get_runnable_tasks returns `{norm(r.value, 40)}`, not the queued set: a job handed out once but not started (truncated by tasks[:max_concurrent] or skipped by the spawn bound) is never offered again and never runs", A.loc(r))
    upd = [c for c in A.calls(gr) if isinstance(c.func, ast.Attribute) and c.func.attr == "update" and norm(c.func.value) == "self.queued"]
    if upd:
        col.ok(rule, "newly runnable jobs are entered into self.queued", A.loc(upd[0]))
    else:
        col.fail(rule, gr.qualname, "runnable-not-queued", "newly runnable jobs are not entered into self.queued", A.loc(gr.node))
    # async spawn de-duplication
    fn = A.func(f"{SUBMITTER}.expand_workflow_async")
    col.scope(fn.qualname)
    cfg2 = A.cfg(fn)
    spawns = [n for n in cfg2.nodes if any("asyncio.Task" in A.callee_names(c, fn) or "asyncio.create_task" in A.callee_names(c, fn) or "asyncio.ensure_future" in A.callee_names(c, fn) for c in _calls(n))]
    A.anchor("asyncio.Task spawn in expand_workflow_async", spawns)
    for s in spawns:
        tests = [n for n in cfg2.nodes if n.kind == "test" and any(isinstance(k, ast.Compare) and len(k.ops) == 1 and isinstance(k.ops[0], ast.NotIn) and norm(k.left).endswith(".checksum") for k in ast.walk(n.stmt.test))]
        if tests and cfg2.dominated_by_edge(s, lambda n: n in tests, "T"):
            coll = None
            for t in tests:
                for k in ast.walk(t.stmt.test):
                    if isinstance(k, ast.Compare) and isinstance(k.ops[0], ast.NotIn):
                        coll = norm(k.comparators[0])
            # followed by  coll[job.checksum] = job  on every normal path before the next loop iteration
            rec = lambda n: isinstance(n.stmt, ast.Assign) and any(isinstance(t, ast.Subscript) and norm(t.value) == coll and norm(t.slice).endswith(".checksum") for t in n.stmt.targets)
            esc_free = True
            seen_loop = False
            frontier = [m for l, m in s.succ if l == "n"]
            visited = set()
            while frontier:
                n = frontier.pop()
                if n.id in visited:
                    continue
                visited.add(n.id)
                if rec(n):
                    continue
                if n.kind in ("loop", "exit"):
                    esc_free = False
                    break
                frontier.extend(m for l, m in n.succ if l in ("n", "T", "F"))
            if esc_free:
                col.ok(rule, f"the spawn is guarded by `job.checksum not in {coll}` and followed by `{coll}[job.checksum] = job`", A.loc(s.stmt))
            else:
                col.fail(rule, fn.qualname, "spawn-not-recorded", f"after spawning, the job's checksum is not recorded in `{coll}` before the next iteration: the job is spawned again", A.loc(s.stmt))
        else:
            col.fail(rule, fn.qualname, "spawn-without-dedup", "the job spawn is not guarded by a `checksum not in <spawned>` test: a job still listed as queued is spawned again on the next round", A.loc(s.stmt))


@prop(
    "C15",
    technique="dominance (edge-labelled) over CFGs for the readiness and failure tests, who-constructs rule for Job, loop/guard structure of the graph builder, de-duplication typestate at the async spawn site",
    decides="(a) every self.start() and every runnable.append(blocked.pop()) in NodeExecution.get_runnable_tasks is dominated by the true branch of `all(p.done for p in predecessors)` over the complete predecessor list (graph.predecessors[<this node>]) and by the no-upstream-failure branch; (b) _create_graph adds an (upstream, consumer) edge for every field of every node holding a LazyOutField and the submitter scans nodes in sorted order; (c) jobs are constructed only in NodeExecution.start (guarded by `not self.started`) and Submitter.__call__, become runnable by a pop from blocked, and the async spawn is guarded by and followed by the checksum de-duplication.",
    not_decided="lazy fields nested inside containers (not supported by the graph builder -- recorded limitation); real schedules; Job.done's definition of success (C13/C14).",
    level_note="Trusted: literal-test folding (the `if True:` in get_runnable_tasks makes the else-branch dead; flipping the literal re-arms the rules on the other branch).",
)
def check_c15(A: Analysis, col: Collector):
    readiness_rule(A, col, "C15.readiness", failure_part=True, readiness_part=True)
    graph_edges_rule(A, col, "C15.edges")
    exactly_once_rule(A, col, "C15.once")


# --------------------------------------------------------------------------- #
# C16
# --------------------------------------------------------------------------- #


@prop(
    "C16",
    technique="bound rule at the spawn site: dominance of the spawn by a `len(in-flight) < max_concurrent` test (comparator checked), def-use of the in-flight collection",
    decides="at the only site where node jobs are started concurrently (asyncio.Task(worker.run(...)) in expand_workflow_async) the spawn is dominated by the true branch of a comparison `len(F) < K`, F being the collection the new task is added to and from which fetch_finished removes completed ones, K deriving from max_concurrent; `<=` and bounds over other collections are rejected. The synchronous expander runs one job at a time.",
    not_decided="concurrency inside nested workflows (each has its own loop and limit) and inside a worker's own pool.",
    level_note="Trusted: asyncio.wait(FIRST_COMPLETED) returns (done, pending); fetch_finished's first result is the pending set.",
)
def check_c16(A: Analysis, col: Collector):
    fn = A.func(f"{SUBMITTER}.expand_workflow_async")
    col.scope(fn.qualname)
    cfg = A.cfg(fn)
    spawn_names = ("asyncio.Task", "asyncio.create_task", "asyncio.ensure_future")
    spawns = []
    for n in cfg.nodes:
        for c in _calls(n):
            if A.callee_names(c, fn) & set(spawn_names):
                spawns.append((n, c))
    A.anchor("asyncio.Task spawn in expand_workflow_async", spawns)
    for node, call in spawns:
        # the in-flight collection: the set the created task is added to
        var = None
        if isinstance(node.stmt, ast.Assign) and isinstance(node.stmt.targets[0], ast.Name):
            var = node.stmt.targets[0].id
        inflight = None
        for c in A.calls(fn):
            if isinstance(c.func, ast.Attribute) and c.func.attr in ("add", "append") and c.args and isinstance(c.args[0], ast.Name) and c.args[0].id == var:
                inflight = norm(c.func.value)
        if inflight is None:
            col.fail("C16.bound", fn.qualname, "spawned-task-not-tracked", "the spawned asyncio task is not added to an in-flight collection: nothing can bound the number of running jobs", A.loc(call))
            continue
        # completed tasks leave the collection: reassigned from fetch_finished / asyncio.wait
        refreshed = False
        for s in walk_own(fn.node):
            if isinstance(s, ast.Assign) and isinstance(s.targets[0], ast.Tuple) and s.targets[0].elts and norm(s.targets[0].elts[0]) == inflight:
                v = s.value.value if isinstance(s.value, ast.Await) else s.value
                if isinstance(v, ast.Call) and isinstance(v.func, ast.Attribute) and v.func.attr == "fetch_finished" and v.args and norm(v.args[0]) == inflight:
                    refreshed = True
        if refreshed:
            col.ok("C16.bound", f"`{inflight}` holds exactly the unfinished spawned tasks (add at spawn, replaced by the pending set of fetch_finished)", A.loc(call))
        else:
            col.fail("C16.bound", fn.qualname, f"inflight-never-shrinks:{inflight}", f"`{inflight}` is not refreshed from fetch_finished: it does not represent the jobs in flight", A.loc(call))
        # bound test
        ok = False
        bad_cmp = None
        for t in cfg.nodes:
            if t.kind != "test":
                continue
            for k in ast.walk(t.stmt.test):
                if isinstance(k, ast.Compare) and len(k.ops) == 1:
                    l, r, op = k.left, k.comparators[0], k.ops[0]
                    form = None
                    if isinstance(l, ast.Call) and dotted(l.func) == "len" and l.args and norm(l.args[0]) == inflight and "max_concurrent" in norm(r):
                        form = ("lt", op)
                    elif isinstance(r, ast.Call) and dotted(r.func) == "len" and r.args and norm(r.args[0]) == inflight and "max_concurrent" in norm(l):
                        form = ("gt", op)
                    if form is None:
                        continue
                    strict = (form[0] == "lt" and isinstance(op, ast.Lt)) or (form[0] == "gt" and isinstance(op, ast.Gt))
                    if strict and cfg.dominated_by_edge(node, lambda n, _t=t: n is _t, "T"):
                        # the comparison must be a conjunct (not under `or` / `not`)
                        conj = True
                        for p in parents(k):
                            if p is t.stmt:
                                break
                            if isinstance(p, ast.BoolOp) and isinstance(p.op, ast.Or):
                                conj = False
                            if isinstance(p, ast.UnaryOp) and isinstance(p.op, ast.Not):
                                conj = False
                        if conj:
                            ok = True
                    elif not strict:
                        bad_cmp = norm(k)
        if ok:
            col.ok("C16.bound", f"the spawn is dominated by `len({inflight}) < self.max_concurrent`", A.loc(call))
        elif bad_cmp:
            col.fail("C16.bound", fn.qualname, f"bound-comparator:{bad_cmp.replace(' ', '')}", f"the spawn is bounded by `{bad_cmp}`, which admits max_concurrent + 1 jobs in flight", A.loc(call))
        else:
            col.fail("C16.bound", fn.qualname, "spawn-unbounded", f"the spawn of a node job is not dominated by a test `len({inflight}) < max_concurrent`: the limit is applied only to the list of queued jobs (tasks[:max_concurrent]), from which started jobs have already been removed, so more than max_concurrent jobs run at once", A.loc(call))
    # the sync expander runs one job at a time
    sf = A.func(f"{SUBMITTER}.expand_workflow")
    col.scope(sf.qualname)
    runs = [c for c in A.calls(sf) if isinstance(c.func, ast.Attribute) and c.func.attr == "run" and (dotted(c.func.value) or "").endswith("worker")]
    A.anchor("worker.run in expand_workflow", runs)
    if any(A.callee_names(c, sf) & set(spawn_names) for c in A.calls(sf)) or any(isinstance(n, ast.Await) for n in walk_own(sf.node)):
        col.fail("C16.sync", sf.qualname, "sync-expander-spawns", "the synchronous expander starts jobs concurrently", A.loc(sf.node))
    else:
        col.ok("C16.sync", "the synchronous expander calls worker.run(job) to completion one job at a time", A.loc(runs[0]))
    # max_concurrent validation in __init__
    init = A.func(f"{SUBMITTER}.__init__")
    ok = any(isinstance(n, ast.If) and "max_concurrent < 1" in norm(n.test) and any(isinstance(k, ast.Raise) for k in ast.walk(n)) for n in walk_own(init.node))
    if ok:
        col.ok("C16.validate", "Submitter.__init__ rejects max_concurrent < 1 and non-integral floats", A.loc(init.node))
    else:
        col.fail("C16.validate", init.qualname, "max_concurrent-not-validated", "Submitter.__init__ no longer rejects max_concurrent < 1", A.loc(init.node))


# --------------------------------------------------------------------------- #
# C18
# --------------------------------------------------------------------------- #

# loops whose progress argument is not one of the algorithmic classes: audited, keyed
# by function + the names the loop condition tests
AUDITED_LOOPS = {
    ("pydra.engine.submitter.Submitter.expand_workflow", "_ or any((not _.done for _ in _.nodes))"): "runs-to-completion: every listed job is run synchronously to completion or raises (debug worker re-raises task errors); a round without runnable jobs and unfinished nodes can only repeat if results vanish from disk (assumption)",
    ("pydra.engine.workflow.Workflow.under_construction", "_"): "structural descent over the finite call stack (frame = frame.f_back)",
    ("pydra.utils.typing.TypeParser.strip_splits", "cls.is_subclass(_, _) and (not cls.is_subclass(_, str))"): "structural descent over a finite type expression (type_ = item type of type_)",
    ("pydra.engine.job.PydraFileLock.__aenter__", "not _"): "external wait: polls a lock held by another live process (liveness of the holder is filelock's dead-PID check -- assumption)",
    ("pydra.workers.base.read_stream_and_display", "True"): "external wait: reads a subprocess stream until EOF",
    ("pydra.workers.slurm.SlurmWorker.run", "True"): "external wait: polls the scheduler until the job leaves the queue",
    ("pydra.workers.sge.SgeWorker.run", "True"): "external wait: polls the scheduler",
    ("pydra.workers.sge.SgeWorker.run", "self.threads_used > self.max_threads - _ * len(_)"): "external wait: waits for scheduler slots",
    ("pydra.workers.sge.SgeWorker.get_output_by_job_pkl", "_ is None"): "external wait: scheduler bookkeeping",
    ("pydra.workers.sge.SgeWorker._submit_job", "True"): "external wait: polls qstat/qacct",
    ("pydra.utils.profiler.ResourceMonitor.run", "not self._event.is_set()"): "monitor thread: runs until stop() sets the event",
}


def _cond_names(test: ast.AST) -> str:
    """shape of a loop condition with every variable name abstracted: stable under renaming
    of locals and re-formatting, different for a differently built condition."""
    return shape(test, 120)


def classify_loop(A: Analysis, fn: FuncInfo, loop: ast.While) -> tuple[str, str] | None:
    """(class, reason) when the loop's progress is recognised algorithmically."""
    body = loop.body
    test = loop.test
    # (i) shrink-by-pop: `while X:` and an unconditional top-level statement pops X
    if isinstance(test, ast.Name):
        x = test.id
        for s in body:
            if isinstance(s, (ast.If, ast.For, ast.While, ast.Try, ast.With)):
                continue
            for c in ast.walk(s):
                if isinstance(c, ast.Call) and isinstance(c.func, ast.Attribute) and c.func.attr in ("pop", "popleft", "popitem") and norm(c.func.value) == x:
                    # nothing in the body grows X
                    grows = any(isinstance(k, ast.Call) and isinstance(k.func, ast.Attribute) and k.func.attr in ("append", "extend", "insert", "add", "update") and norm(k.func.value) == x for st in body for k in ast.walk(st))
                    rebinds = any(isinstance(k, ast.Assign) and any(norm(t) == x for t in k.targets) for st in body for k in ast.walk(st))
                    if not grows and not rebinds:
                        return ("shrinks", f"every iteration pops from `{x}` unconditionally and nothing adds to it")
        # (iii) stall exit: X is rebound together with a progress value P and `if not P: raise`
        for i, s in enumerate(body):
            if isinstance(s, ast.Assign) and isinstance(s.targets[0], ast.Tuple):
                names = [norm(e) for e in s.targets[0].elts]
                if x in names:
                    for p in names:
                        if p == x:
                            continue
                        for s2 in body[i + 1 :]:
                            if isinstance(s2, ast.If) and norm(s2.test) in (f"not {p}", f"len({p}) == 0") and s2.body and isinstance(s2.body[-1], (ast.Raise, ast.Break, ast.Return)):
                                return ("stall-exit", f"`{x}` is recomputed together with the progress value `{p}`; an iteration without progress (`not {p}`) leaves the loop by {type(s2.body[-1]).__name__.lower()}")
    # (ii) counter + raise
    counters = {norm(s.target) for s in body if isinstance(s, ast.AugAssign) and isinstance(s.op, ast.Add)}
    for s in body:
        if isinstance(s, ast.If) and isinstance(s.test, ast.Compare) and norm(s.test.left) in counters and isinstance(s.test.ops[0], (ast.Gt, ast.GtE)):
            if any(isinstance(k, ast.Raise) for k in s.body if isinstance(k, ast.stmt)) or (s.body and isinstance(s.body[-1], ast.Raise)):
                return ("counter", f"bounded by counter `{norm(s.test.left)}` with a raise at `{norm(s.test)}`")
    # outer scheduling loop: contains a nested loop of class (ii) on the no-progress branch
    for s in body:
        if isinstance(s, ast.If) and isinstance(s.test, ast.BoolOp) and all(isinstance(v, ast.UnaryOp) and isinstance(v.op, ast.Not) for v in s.test.values):
            for inner in ast.walk(s):
                if isinstance(inner, ast.While) and inner is not loop:
                    c = classify_loop(A, fn, inner)
                    if c and c[0] == "counter":
                        tested = {norm(v.operand) for v in s.test.values}
                        return ("stall-exit", f"a round with nothing runnable and nothing in flight (`{norm(s.test)}`) enters a poll that is {c[1]}; otherwise the round awaits a pending future (tested: {sorted(tested)})")
    return None


@prop(
    "C18",
    technique="loop-progress rule: every `while` in the call-graph closure of Submitter.__call__ is classified (shrinks-by-pop / counter+raise / stall exit recognised algorithmically; external waits and structural descents through an audited table keyed by function and tested names); cycle detection obligation in DiGraph.sorting",
    decides="every while-loop reachable from a submission either provably makes progress or has an exit taken when an iteration made no progress; in particular DiGraph.sorting leaves its loop with an error when a pass sorts no node (a cycle), the async scheduling loop has a bounded stall poll that raises, and a job whose future raised is marked errored (it would otherwise stay queued with nothing in flight, and the loop would spin). A new loop on the path, or one of today's loops losing its exit, is a violation.",
    not_decided="loops that wait for an external party (file lock holder, batch scheduler, subprocess EOF) -- listed with the assumption they rest on; recursion depth of graph walks not reachable from the submission path; termination of user task bodies.",
    level_note="Trusted: the audited table AUDITED_LOOPS in rules/sched.py (one reason per row); call-graph closure by class-hierarchy analysis (over-approximate).",
)
def check_c18(A: Analysis, col: Collector):
    roots = [A.func(f"{SUBMITTER}.__call__"), A.func(f"{SUBMITTER}.__init__")]
    cl = A.closure(roots, limit=3000)
    col.notes["closure_functions"] = len(cl)
    loops = []
    for f in cl:
        for n in walk_own(f.node):
            if isinstance(n, ast.While):
                loops.append((f, n))
    if len(loops) < 7:
        raise AnalysisError(f"C18: {len(loops)} while-loops on the submission path; floor 7")
    for f, lp in sorted(loops, key=lambda x: (x[0].qualname, x[1].lineno)):
        col.scope(f.qualname)
        key = (f.qualname, _cond_names(lp.test))
        c = classify_loop(A, f, lp)
        if c is not None:
            col.ok("C18.loop", f"{f.qualname}: `while {norm(lp.test, 50)}` -- {c[0]}: {c[1]}", A.loc(lp))
        elif key in AUDITED_LOOPS:
            # an audited `while True` must still contain an exit
            if isinstance(lp.test, ast.Constant) and lp.test.value is True and not any(isinstance(k, (ast.Break, ast.Return, ast.Raise)) for s in lp.body for k in ast.walk(s)):
                col.fail("C18.loop", f.qualname, f"no-exit:{key[1]}", f"`while True` without any break/return/raise", A.loc(lp))
            else:
                col.ok("C18.loop", f"{f.qualname}: `while {norm(lp.test, 50)}` -- audited: {AUDITED_LOOPS[key]}", A.loc(lp))
                col.assume(f"{f.qualname} loop `while {norm(lp.test, 40)}`: {AUDITED_LOOPS[key]}")
        else:
            col.fail("C18.loop", f.qualname, f"no-progress-argument:{key[1]}", f"`while {norm(lp.test, 60)}` has no recognised progress argument: nothing pops from the tested collection unconditionally, there is no counter with a raise and no exit taken when an iteration makes no progress -- the submission can hang (e.g. a cyclic graph never empties the unsorted list)", A.loc(lp))
    # the async loop's progress argument needs every job handed to the worker to leave `queued` once its
    # future has completed: by its result (found on disk) or, when the future raised -- possibly before any
    # result was written: a failing hook, an unpicklable job or return value -- by being marked errored in
    # the handler. Otherwise get_runnable_tasks keeps offering it, it is not spawned again (it is in the
    # spawned-record), nothing is in flight and the stall poll is never entered: the loop spins forever.
    ea = A.func(f"{SUBMITTER}.expand_workflow_async")
    col.scope(ea.qualname)
    tries = [t for t in walk_own(ea.node) if isinstance(t, ast.Try) and any(isinstance(c, ast.Call) and isinstance(c.func, ast.Attribute) and c.func.attr == "result" and not c.args for st in t.body for c in ast.walk(st))]
    A.anchor("try around <future>.result() in expand_workflow_async", tries)
    for t in tries:
        for h in t.handlers:
            marks = [a_ for st in h.body for a_ in ast.walk(st) if isinstance(a_, ast.Assign) and any(isinstance(tg, ast.Attribute) and tg.attr == "_errored" for tg in a_.targets) and isinstance(a_.value, ast.Constant) and a_.value.value is True]
            reraises = bool(h.body) and isinstance(h.body[-1], ast.Raise)
            if not marks:
                # ... or through a method of the job that sets the flag
                for c_ in [k for st in h.body for k in ast.walk(st) if isinstance(k, ast.Call) and isinstance(k.func, ast.Attribute)]:
                    for t_ in A.rs.resolve_call(c_, ea).repo_targets:
                        if isinstance(t_, FuncInfo) and any(isinstance(a_, ast.Assign) and any(isinstance(tg, ast.Attribute) and tg.attr == "_errored" for tg in a_.targets) and isinstance(a_.value, ast.Constant) and a_.value.value is True for a_ in walk_own(t_.node)):
                            marks.append(c_)
            if marks:
                col.ok("C18.failed-future", "a job whose future raised is marked errored in the handler, so it leaves the queued set even if it left no result behind", A.loc(marks[0]))
            elif reraises:
                col.ok("C18.failed-future", "the handler re-raises: the failure of a future ends the loop", A.loc(h))
            else:
                col.fail("C18.failed-future", ea.qualname, "failed-future-leaves-job-queued", "the handler of a failed future only records the error: a job that failed without leaving a result (pre_run hook, unpicklable input or return value) stays in NodeExecution.queued, is offered again every round but never spawned again, nothing is in flight, the stall poll (`not tasks and not task_futures`) is never entered and the collected errors are only raised in a `finally` that is never reached -- the submission spins forever", A.loc(h))
    # recursive graph walks without visited set: only if reachable from the submission path
    names = {f.qualname for f in cl}
    for q in ("pydra.engine.graph.DiGraph._checking_successors_nodes", "pydra.engine.graph.DiGraph._checking_path"):
        if q in A.repo.functions:
            if q in names:
                col.fail("C18.recursion", q, "unbounded-recursive-walk-on-submission-path", f"{q} recurses over successors without a visited set and is reachable from a submission: a cyclic graph recurses forever", A.loc(A.func(q).node))
            else:
                col.ok("C18.recursion", f"{q} (recursive walk without visited set) is not reachable from the submission path", A.loc(A.func(q).node))
