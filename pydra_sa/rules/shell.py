"""Shell-task rules: C23 (values reach the command intact: taint), C24 (cmdline is a
faithful rendering: sanitizer rule), C25 (template lexer / handler agreement), C26
(output path templates resolve inside the job directory)."""

from __future__ import annotations

import ast
import re

from ..engine import Analysis
from ..model import AnalysisError, FuncInfo, dotted, norm, walk_own, parents, kwarg, is_within, shape, always_raises
from ..report import Collector
from . import prop

SHELL_TASK = "pydra.compose.shell.task.ShellTask"
SPLIT_CMD = "pydra.compose.shell.task.split_cmd"
TEMPL = "pydra.compose.shell.templating"

TOKENISERS = {"shlex.split", SPLIT_CMD}
SANITISERS = {"shlex.quote", "shlex.join"}


def _tainted_names(fn: FuncInfo) -> dict[str, str]:
    """locals of an argv-building helper that hold user-supplied field values, mapped to
    a role that does not depend on the local's name: 'values-dict' (the mapping of all
    field values), 'field-value' (the value of the field being formatted), 'element'
    (one element of a list value)."""
    names: dict[str, str] = {}
    for p in fn.params():
        ann = norm(p.annotation) if p.annotation is not None else ""
        if p.arg in ("values", "split_values") or ann.startswith("dict[") or ann.startswith("ty.Dict[") or ann.startswith("dict"):
            # the mapping of all field values (recognised by its annotation, not only by its name)
            names[p.arg] = "values-dict"
        elif p.arg in ("value", "val"):
            names[p.arg] = "field-value"
    changed = True
    ordered = sorted(walk_own(fn.node), key=lambda n: (getattr(n, "lineno", 0), getattr(n, "col_offset", 0)))
    while changed:
        changed = False
        for n in ordered:
            tgts = []
            if isinstance(n, ast.Assign):
                tgts = [(t, n.value, "assign") for t in n.targets]
            elif isinstance(n, (ast.For, ast.comprehension)):
                tgts = [(n.target, n.iter, "iter")]
            for t, v, how in tgts:
                if isinstance(t, ast.Name) and t.id not in names:
                    used = [x.id for x in ast.walk(v) if isinstance(x, ast.Name) and x.id in names]
                    if not used:
                        continue
                    src = names[used[0]]
                    if how == "iter":
                        role = "element" if src in ("field-value", "element") else "values-dict"
                    elif isinstance(v, ast.Subscript) and src == "values-dict":
                        role = "field-value"
                    elif isinstance(v, ast.Call) and (dotted(v.func) or "") in ("copy", "dict", "copy.copy"):
                        role = src
                    else:
                        role = src
                    names[t.id] = role
                    changed = True
    return names


def _quoted(node: ast.AST) -> bool:
    for p in parents(node):
        if isinstance(p, ast.Call) and (dotted(p.func) or "") in SANITISERS:
            return True
        if isinstance(p, ast.stmt):
            break
    return False


def retokenise_rule(A: Analysis, col: Collector, rule: str):
    fa = A.func(f"{SHELL_TASK}._format_arg")
    col.scope(fa.qualname)
    sinks = [c for c in A.calls(fa) if A.callee_names(c, fa) & TOKENISERS]
    A.anchor("split_cmd(...) in ShellTask._format_arg", sinks)
    # split_cmd itself re-tokenises with shlex
    sc = A.func(SPLIT_CMD)
    lexers = [c for c in A.calls(sc) if "shlex.shlex" in A.callee_names(c, sc)]
    if any("shlex.split" in A.callee_names(c, sc) for c in A.calls(sc)) and not lexers:
        col.ok(rule, "split_cmd tokenises its argument with shlex.split (the sink of the taint rule; shlex.split disables comment characters)", A.loc(sc.node))
    elif lexers:
        # a hand-built lexer keeps shlex's defaults: commenters='#', and without whitespace_split punctuation splits words
        def _sets(attr, pred):
            return any(isinstance(n, ast.Assign) and any(isinstance(t, ast.Attribute) and t.attr == attr for t in n.targets) and pred(n.value) for n in walk_own(sc.node))

        no_comments = _sets("commenters", lambda v: isinstance(v, ast.Constant) and v.value == "")
        ws_split = _sets("whitespace_split", lambda v: isinstance(v, ast.Constant) and v.value is True) or any(kwarg(c, "punctuation_chars") is not None for c in lexers)
        if no_comments and ws_split:
            col.ok(rule, "split_cmd tokenises with a shlex.shlex lexer configured like shlex.split (commenters='', whitespace_split=True)", A.loc(lexers[0]))
        else:
            missing = [m for m, ok_ in (("commenters = ''", no_comments), ("whitespace_split = True", ws_split)) if not ok_]
            col.fail(rule, sc.qualname, "tokeniser-not-configured-like-shlex.split:" + "+".join(m.split(" ")[0] for m in missing), f"split_cmd builds its own `{norm(lexers[0], 40)}` without {missing}: with shlex's defaults a `#` in a field value starts a comment, so the value is cut there and everything after it in the argument string is dropped", A.loc(lexers[0]))
    else:
        raise AnalysisError("C23: split_cmd no longer tokenises with shlex.split or a shlex.shlex lexer (anchor moved)")
    tainted = _tainted_names(fa)
    if "values-dict" not in tainted.values():
        raise AnalysisError("C23: the mapping of field values among the parameters of ShellTask._format_arg was not recognised (anchor moved)")
    # the variables that reach the sink
    sink_vars = set()
    for s in sinks:
        for a in s.args:
            for x in ast.walk(a):
                if isinstance(x, ast.Name):
                    sink_vars.add(x.id)
    # string-building insertion points of tainted values in assignments to sink variables
    flows: dict[str, list[ast.AST]] = {}
    helper_quotes = {}
    for n in walk_own(fa.node):
        if not isinstance(n, ast.Assign):
            continue
        tgt = n.targets[0].id if isinstance(n.targets[0], ast.Name) else None
        if tgt is None:
            continue
        # does this assignment feed the sink (directly or through later joins)?
        for x in ast.walk(n.value):
            kind = root = None
            if isinstance(x, ast.FormattedValue):
                nm = {y.id for y in ast.walk(x.value) if isinstance(y, ast.Name)} & set(tainted)
                if nm and not _quoted(x) and not (isinstance(x.value, ast.Call) and (dotted(x.value.func) or "") in SANITISERS):
                    kind, root = "fstring", sorted(tainted[k] for k in nm)[0]
            elif isinstance(x, ast.Call) and dotted(x.func) == "str" and x.args:
                nm = {y.id for y in ast.walk(x.args[0]) if isinstance(y, ast.Name)} & set(tainted)
                if nm and not _quoted(x):
                    kind, root = "str()", sorted(tainted[k] for k in nm)[0]
            elif isinstance(x, ast.Call) and any(q.endswith("argstr_formatting") for q in A.callee_names(x, fa)):
                nm = {y.id for a in x.args[1:] for y in ast.walk(a) if isinstance(y, ast.Name)} & set(tainted)
                helper = A.func(f"{TEMPL}.argstr_formatting")
                hq = any((dotted(c.func) or "") in SANITISERS for c in A.calls(helper))
                if nm and not hq and not _quoted(x):
                    kind, root = "argstr_formatting", sorted(tainted[k] for k in nm)[0]
            if kind:
                flows.setdefault(f"{kind}:{root}", []).append(x)
    if not flows:
        col.ok(rule, "every field value inserted into a command string in _format_arg is shlex-quoted before the string is tokenised", A.loc(fa.node))
    for sig, nodes in sorted(flows.items()):
        kind, root = sig.split(":")
        col.fail(
            rule,
            fa.qualname,
            f"value->split_cmd:{kind}:{root}:x{len(nodes)}",
            f"{len(nodes)} flow(s): field value `{root}` is inserted into a command string by {kind} (`{norm(nodes[0], 50)}`) without shlex.quote and the string is then re-tokenised by split_cmd/shlex.split: a value containing spaces, quotes or backslashes does not reach the command as supplied",
            A.loc(nodes[0]),
        )
    # a string into which a field value was inserted must not be used as a *template*: str.format would
    # parse the value's braces ({other} is replaced by another field's value, a lone { raises)
    value_strings = set()
    for n in walk_own(fa.node):
        if isinstance(n, ast.Assign) and isinstance(n.targets[0], ast.Name):
            ins = [k for k in ast.walk(n.value) if (isinstance(k, ast.Call) and dotted(k.func) == "str" and k.args and {y.id for y in ast.walk(k.args[0]) if isinstance(y, ast.Name)} & set(tainted)) or (isinstance(k, ast.FormattedValue) and {y.id for y in ast.walk(k.value) if isinstance(y, ast.Name)} & set(tainted))]
            if ins:
                value_strings.add(n.targets[0].id)
    n_templ = 0
    for c in A.calls(fa):
        is_fmt_helper = any(q.endswith("argstr_formatting") for q in A.callee_names(c, fa))
        is_format = isinstance(c.func, ast.Attribute) and c.func.attr in ("format", "format_map")
        if not (is_fmt_helper or is_format):
            continue
        n_templ += 1
        templ = c.args[0] if is_fmt_helper and c.args else (c.func.value if is_format else None)
        if isinstance(templ, ast.Name) and templ.id in value_strings:
            col.fail(rule, fa.qualname, "value-parsed-as-format-template", f"`{norm(c, 60)}`: `{templ.id}` already contains the field's value (inserted with str()/f-string) and is then used as the format template: a value such as '{{other}}' is replaced by the value of field `other`, an unknown name by '', and a lone '{{' raises ValueError", A.loc(c))
        else:
            col.ok(rule, f"`{norm(c, 50)}`: the format template is the developer's argstr, values enter only as format arguments", A.loc(c))
    if n_templ < 2:
        raise AnalysisError("C23: argstr_formatting call sites in _format_arg not found (anchor moved)")
    # clean-up of emptied optional parts runs over the formatted string, i.e. over the values as well
    af = A.func(f"{TEMPL}.argstr_formatting")
    col.scope(af.qualname)
    fmt_vars = {n.targets[0].id for n in walk_own(af.node) if isinstance(n, ast.Assign) and isinstance(n.targets[0], ast.Name) and any(isinstance(k, ast.Call) and isinstance(k.func, ast.Attribute) and k.func.attr == "format" for k in ast.walk(n.value))}
    edits = [c for c in A.calls(af) if isinstance(c.func, ast.Attribute) and c.func.attr == "replace" and len(c.args) == 2 and all(isinstance(a, ast.Constant) for a in c.args) and {y.id for y in ast.walk(c.func.value) if isinstance(y, ast.Name)} & fmt_vars]
    if edits:
        pats = sorted({a.args[0].value for a in edits})
        col.fail(rule, af.qualname, f"cleanup-edits-formatted-values:x{len(pats)}", f"argstr_formatting removes {pats} from the string AFTER the values were formatted into it: the same sequences inside a field value are removed too ('a[,b,]c' reaches the command as 'a[b]c')", A.loc(edits[0]))
    else:
        col.ok(rule, "argstr_formatting does not edit the string after the values were formatted into it", A.loc(af.node))
    # any other tokeniser applied to the built argument string in _format_arg
    built = set(sink_vars) | set(tainted)
    for c in A.calls(fa):
        if isinstance(c.func, ast.Attribute) and c.func.attr in ("split", "rsplit", "splitlines") and isinstance(c.func.value, ast.Name) and c.func.value.id in built:
            col.fail(rule, fa.qualname, f"value->str.{c.func.attr}", f"`{norm(c, 50)}` tokenises the built argument string with str.{c.func.attr}(), which splits at every Unicode whitespace character (U+00A0, U+3000, U+2028, \\x0b, \\x1c-\\x1f ...) where the POSIX lexer only splits at space, tab, CR and LF: values that used to arrive intact are cut", A.loc(c))
    col.notes["tainted_locals"] = sorted(tainted)
    col.notes["taint_exclusions"] = {
        "fld.argstr / fld.sep": "developer-supplied templates, not user values",
        "formatter return value": "a command string by contract (documented), tokenised deliberately",
        "append_args given as one string": "documented as free-form, tokenised by append_args_converter",
    }
    # other tokenisers reachable with field values in the argv builder
    n_other = 0
    for q in (f"{SHELL_TASK}._command_pos_args", f"{SHELL_TASK}._command_args", f"{SHELL_TASK}._command_shelltask_executable"):
        f = A.func(q)
        col.scope(f.qualname)
        t = _tainted_names(f)
        for c in A.calls(f):
            names = A.callee_names(c, f)
            is_tok = bool(names & TOKENISERS) or (isinstance(c.func, ast.Attribute) and c.func.attr == "split" and not c.args)
            if not is_tok:
                continue
            n_other += 1
            arg_names = {y.id for a in (c.args or [c.func.value]) for y in ast.walk(a) if isinstance(y, ast.Name)}
            # the formatter branch: the tokenised string is the formatter's return value
            src_defs = []
            for an in arg_names:
                src_defs += [p for k, p in A.rs.local_defs(f).get(an, []) if k == "assign"]
            from_formatter = any(isinstance(p, ast.Call) and isinstance(p.func, ast.Attribute) and p.func.attr == "formatter" for p in src_defs) or any(isinstance(p, ast.Call) and isinstance(p.func, ast.Attribute) and p.func.attr == "replace" and "cmd_el_str" in norm(p) for p in src_defs)
            if from_formatter:
                col.ok(rule, f"{f.name}: `{norm(c, 40)}` tokenises the return value of the user's formatter (a command string by contract)", A.loc(c))
            elif arg_names & set(t):
                col.fail(rule, f.qualname, f"value->tokeniser:{norm(c.func, 20)}", f"`{norm(c, 50)}` tokenises a string derived from field values", A.loc(c))
            else:
                col.ok(rule, f"{f.name}: `{norm(c, 40)}` does not tokenise field values", A.loc(c))


@prop(
    "C23",
    technique="taint analysis: sources = field values in the argv-building helpers, sinks = shlex.split / split_cmd / str.split(), sanitizer = shlex.quote; string-building insertion points are enumerated per kind and root",
    decides="no path/str element of a field value is inserted into a command string (f-string, str(), argstr_formatting) that is afterwards re-tokenised, unless it passed shlex.quote -- the structural necessary condition for 'reaches the command exactly as supplied'. Exclusions (audited, listed in the evidence): developer-supplied argstr/sep, the return value of a user formatter, append_args given as one string. Additionally: split_cmd tokenises with shlex.split or a lexer configured like it (no comment characters; whitespace_split); no other tokeniser (str.split) is applied to the built argument string; a string that already contains a field value is never used as a format template; the clean-up of emptied optional parts must not run over formatted values (known finding).",
    not_decided="the formatting conventions of argstr themselves (C22), Windows (posix=False) tokenisation.",
    level_note="Trusted: shlex.quote/shlex.split are inverse on POSIX; the taint sources are the parameters named values/value/val of the helpers and everything assigned from them.",
)
def check_c23(A: Analysis, col: Collector):
    retokenise_rule(A, col, "C23.retokenise")


# --------------------------------------------------------------------------- #
# C24
# --------------------------------------------------------------------------- #


@prop(
    "C24",
    technique="sanitizer rule on the cmdline property: every argv element concatenated into the displayed string must pass shlex.quote (or the string is shlex.join(argv)); the argv must come from the same _command_args the environments execute",
    decides="ShellTask.cmdline renders exactly the list returned by self._command_args(values=...) -- the function every environment executes -- and every element that is concatenated into the returned string passes through shlex.quote / shlex.join, so that POSIX splitting gives the elements back. The identity of the unquoted-concatenation finding includes the shape of the ad-hoc quoting condition.",
    not_decided="that cmdline's values (templates resolved against the cwd) equal the job's values (by design they differ in the output directory).",
    level_note="Trusted: shlex.quote renders any string as one POSIX shell word.",
)
def check_c24(A: Analysis, col: Collector):
    cl = A.cls(SHELL_TASK).find_method("cmdline")
    if cl is None:
        raise AnalysisError("ShellTask.cmdline not found")
    col.scope(cl.qualname)
    argv_calls = [c for c in A.calls(cl) if isinstance(c.func, ast.Attribute) and c.func.attr == "_command_args"]
    if argv_calls and dotted(argv_calls[0].func.value) == "self":
        col.ok("C24.argv", "cmdline renders the list returned by self._command_args(values=...) (the function the environments execute)", A.loc(argv_calls[0]))
    else:
        col.fail("C24.argv", cl.qualname, "cmdline-not-from-_command_args", "cmdline no longer renders the result of self._command_args", A.loc(cl.node))
    # the values handed to _command_args: attrs_values(self) updated with template_update(self, ...)
    if argv_calls:
        v = kwarg(argv_calls[0], "values") or (argv_calls[0].args[0] if argv_calls[0].args else None)
        r = A.flow.derives(v, cl)
        from_values = any(q.endswith("attrs_values") for q in r.calls)
        templ = any(q.endswith("template_update") for q in r.calls)
        if isinstance(v, ast.Name):
            for c in A.calls(cl):
                if isinstance(c.func, ast.Attribute) and c.func.attr == "update" and norm(c.func.value) == v.id and c.args:
                    if any(q.endswith("template_update") for q in A.flow.derives(c.args[0], cl).calls):
                        templ = True
        if from_values and templ:
            col.ok("C24.argv", "the rendered values are the task's field values with path templates resolved", A.loc(argv_calls[0]))
        else:
            col.fail("C24.argv", cl.qualname, f"cmdline-values:values={from_values}:templates={templ}", "the values rendered by cmdline are not attrs_values(self) updated with template_update(self)", A.loc(argv_calls[0]))
    joined = [c for c in A.calls(cl) if "shlex.join" in A.callee_names(c, cl)]
    if joined:
        col.ok("C24.quote", "cmdline is shlex.join(argv)", A.loc(joined[0]))
        return
    # element-wise concatenation: every concatenated element must be quoted
    loops = [n for n in walk_own(cl.node) if isinstance(n, ast.For)]
    unquoted = []
    n_concat = 0
    for lp in loops:
        var = lp.target.id if isinstance(lp.target, ast.Name) else None
        for n in ast.walk(lp):
            if isinstance(n, ast.AugAssign) and isinstance(n.op, ast.Add):
                n_concat += 1
                for x in ast.walk(n.value):
                    if isinstance(x, ast.Name) and x.id == var and not _quoted(x):
                        unquoted.append(n)
    for n in walk_own(cl.node):
        if isinstance(n, ast.Call) and isinstance(n.func, ast.Attribute) and n.func.attr == "join" and isinstance(n.func.value, ast.Constant):
            n_concat += 1
            a = n.args[0] if n.args else None
            ok = isinstance(a, (ast.GeneratorExp, ast.ListComp)) and isinstance(a.elt, ast.Call) and (dotted(a.elt.func) or "") in SANITISERS
            if not ok:
                unquoted.append(n)
    if n_concat == 0:
        col.fail("C24.quote", cl.qualname, "no-rendering-recognised", "cmdline builds its string in a way the rule does not recognise (neither shlex.join nor element-wise concatenation)", A.loc(cl.node))
    elif unquoted:
        # what ad-hoc quoting exists
        adhoc = sorted({norm(t.test, 30) for t in walk_own(cl.node) if isinstance(t, ast.If)})
        # the identity of the finding includes the shape of the ad-hoc quoting condition(s): a weaker (or merely
        # different) condition is a different defect than the one triaged
        adhoc_shape = "+".join(sorted({shape(t.test, 40) for t in walk_own(cl.node) if isinstance(t, ast.If)}))
        col.fail(
            "C24.quote",
            cl.qualname,
            f"argv-element-concatenated-unquoted:x{len(unquoted)}:adhoc[{adhoc_shape}]",
            f"{len(unquoted)} concatenation(s) add an argv element to the displayed command line without shlex.quote (ad-hoc quoting only under {adhoc}): elements containing quotes, backslashes, tabs or shell metacharacters do not split back to the executed arguments",
            A.loc(unquoted[0]),
        )
    else:
        col.ok("C24.quote", "every concatenated argv element is shlex-quoted", A.loc(cl.node))


# --------------------------------------------------------------------------- #
# C25
# --------------------------------------------------------------------------- #


def _regex_admitted(pattern: str) -> tuple[set[str], bool]:
    """(literal characters admitted anywhere in the pattern, has a 'anything but' class)."""
    import re._parser as sre_parse  # type: ignore[import]

    chars: set[str] = set()
    wide = False

    def walk(items):
        nonlocal wide
        for op, av in items:
            name = str(op)
            if name == "LITERAL":
                chars.add(chr(av))
            elif name == "IN":
                for o2, a2 in av:
                    n2 = str(o2)
                    if n2 == "LITERAL":
                        chars.add(chr(a2))
                    elif n2 == "RANGE":
                        lo, hi = a2
                        if hi - lo < 128:
                            for ch in range(lo, hi + 1):
                                chars.add(chr(ch))
                    elif n2 == "NEGATE":
                        wide = True
            elif name in ("SUBPATTERN",):
                walk(av[3])
            elif name in ("MAX_REPEAT", "MIN_REPEAT", "POSSESSIVE_REPEAT"):
                walk(av[2])
            elif name == "BRANCH":
                for b in av[1]:
                    walk(b)
            elif name in ("ASSERT", "ASSERT_NOT"):
                walk(av[1])

    walk(sre_parse.parse(pattern))
    return chars, wide


@prop(
    "C25",
    technique="lexer/handler agreement: the token regexes (string constants, parsed with re._parser) must admit every marker the handler dispatches on, the dispatch chain must end in a raise for unknown tokens, and positions must be assigned from remaining_positions in template order",
    decides="only the agreement clause: every marker parse_command_line_template acts on ('out|', 'modify|', '?', '+', '*', '=', '$', ':', ',', '...', '/') is admitted by arg_pattern; a token matching none of the three token classes raises ValueError; an option without a field raises; arguments without explicit position receive positions from remaining_positions in the order they appear; a pending option is never reset unread; defaults written after `=` are evaluated (not truth-tested as text); an explicit `$` path template is not overwritten by the default one.",
    not_decided="the inferred field types, optionality and multiplicity as values; argv order at run time (C22).",
    level_note="Trusted: CPython's re._parser for the structure of the pattern constants.",
)
def check_c25(A: Analysis, col: Collector):
    fn = A.func("pydra.compose.shell.builder.parse_command_line_template")
    col.scope(fn.qualname)
    # string constants and compiled regexes, resolved through local definitions (no
    # dependence on the variables' names)
    consts: dict[str, str] = {}
    for n in walk_own(fn.node):
        if isinstance(n, ast.Assign) and isinstance(n.targets[0], ast.Name) and isinstance(n.value, ast.Constant) and isinstance(n.value.value, str):
            consts[n.targets[0].id] = n.value.value

    def resolve_pat(e) -> str | None:
        if isinstance(e, ast.Constant) and isinstance(e.value, str):
            return e.value
        if isinstance(e, ast.Name):
            return consts.get(e.id)
        if isinstance(e, ast.JoinedStr):
            out = ""
            for v in e.values:
                if isinstance(v, ast.Constant):
                    out += str(v.value)
                else:
                    r = resolve_pat(v.value)
                    if r is None:
                        return None
                    out += r
            return out
        return None

    regexes: dict[str, str] = {}
    for n in walk_own(fn.node):
        if isinstance(n, ast.Assign) and isinstance(n.targets[0], ast.Name) and isinstance(n.value, ast.Call) and dotted(n.value.func) == "re.compile" and n.value.args:
            pat = resolve_pat(n.value.args[0])
            if pat is not None:
                regexes[n.targets[0].id] = pat
    arg_pats = [p for p in regexes.values() if p.startswith("<")]
    opt_pats = [p for p in regexes.values() if p.startswith("-")]
    if not arg_pats or not opt_pats:
        raise AnalysisError("parse_command_line_template: the compiled argument / option token patterns were not found")
    arg_pattern = arg_pats[0]
    kind_of = {}
    for name, pat in regexes.items():
        kind_of[name] = "arg" if pat.startswith("<") else "option" if pat.startswith("-") else "bool-option" if pat.startswith("(") else "?"
    admitted, wide = _regex_admitted(arg_pattern)
    col.notes["arg_pattern_admits"] = "".join(sorted(c for c in admitted if not c.isalnum()))
    # the dispatch loop: a for loop whose first statement is an if-chain of `<re>.match(<loop var>)`
    loops = []
    for n in walk_own(fn.node):
        if isinstance(n, ast.For) and isinstance(n.target, ast.Name):
            first = next((s_ for s_ in n.body if isinstance(s_, ast.If)), None)
            if first is not None and any(isinstance(k, ast.Call) and isinstance(k.func, ast.Attribute) and k.func.attr == "match" and isinstance(k.func.value, ast.Name) and k.func.value.id in regexes for k in ast.walk(first.test)):
                loops.append((n, first))
    A.anchor("token dispatch loop", loops)
    loop, chain = loops[0]
    branches = []
    cur = chain
    while True:
        rx = next((k.func.value.id for k in ast.walk(cur.test) if isinstance(k, ast.Call) and isinstance(k.func, ast.Attribute) and k.func.attr == "match" and isinstance(k.func.value, ast.Name) and k.func.value.id in regexes), None)
        branches.append((kind_of.get(rx, "?"), cur))
        if len(cur.orelse) == 1 and isinstance(cur.orelse[0], ast.If):
            cur = cur.orelse[0]
        else:
            break
    # markers the handler dispatches on: string constants in startswith/endswith/split/`in`/==
    # tests inside the argument branch and the nested helpers it calls
    regions = [b for k, b in branches if k == "arg"]
    regions_nodes = [x for b in regions for st in b.body for x in ast.walk(st)]
    for f in fn.nested.values():
        regions_nodes += list(walk_own(f.node))
    markers: dict[str, ast.AST] = {}
    for n in regions_nodes:
        if isinstance(n, ast.Call) and isinstance(n.func, ast.Attribute) and n.func.attr in ("startswith", "endswith", "split") and n.args and isinstance(n.args[0], ast.Constant) and isinstance(n.args[0].value, str) and isinstance(n.func.value, ast.Name):
            markers.setdefault(n.args[0].value, n)
        if isinstance(n, ast.Compare) and len(n.ops) == 1 and isinstance(n.ops[0], ast.In) and isinstance(n.left, ast.Constant) and isinstance(n.left.value, str) and isinstance(n.comparators[0], ast.Name):
            markers.setdefault(n.left.value, n)
        if isinstance(n, ast.Compare) and len(n.ops) == 1 and isinstance(n.ops[0], ast.Eq) and isinstance(n.comparators[0], ast.Constant) and isinstance(n.left, ast.Name) and isinstance(n.comparators[0].value, str):
            markers.setdefault(n.comparators[0].value, n)
    markers = {k: v for k, v in markers.items() if any(not ch.isalnum() for ch in k)}
    if len(markers) < 8:
        raise AnalysisError(f"C25: only {len(markers)} template markers recognised in the handler ({sorted(markers)}); floor 8")
    for mk, node in sorted(markers.items()):
        need = {c for c in mk if not c.isalnum()}
        missing = need - admitted
        if not missing:
            col.ok("C25.agree", f"marker {mk!r} handled by the parser is admitted by the argument token pattern", A.loc(node))
        else:
            col.fail("C25.agree", fn.qualname, f"marker-not-lexed:{mk}", f"the handler acts on marker {mk!r} but the argument token pattern does not admit {sorted(missing)}: the documented syntax can never reach its branch", A.loc(node))
    if cur.orelse and isinstance(cur.orelse[-1], ast.Raise):
        col.ok("C25.unknown", f"a token matching none of {len(branches)} token classes raises ({norm(cur.orelse[-1], 50)})", A.loc(cur.orelse[-1]))
    else:
        col.fail("C25.unknown", fn.qualname, "unknown-token-not-rejected", "a template token that matches no token class is silently ignored", A.loc(chain))
    seq = [k for k, _ in branches]
    if seq == ["arg", "bool-option", "option"]:
        col.ok("C25.unknown", "token classes are tried in the order argument, option+bool-argument, option", A.loc(chain))
    else:
        col.fail("C25.unknown", fn.qualname, "token-class-order:" + ">".join(seq), f"token classes are tried in the order {seq}: a '--flag<arg>' token is taken by an earlier class", A.loc(chain))
    # option without a field: the variable set in the option branch is tested after the loop
    opt_branch = next((b for k, b in branches if k == "option"), None)
    opt_var = None
    if opt_branch is not None:
        for st in opt_branch.body:
            if isinstance(st, ast.Assign) and isinstance(st.targets[0], ast.Name) and norm(st.value) == loop.target.id:
                opt_var = st.targets[0].id
    tail = [s_ for s_ in fn.node.body if isinstance(s_, ast.If) and isinstance(s_.test, ast.Name) and s_.test.id == opt_var and any(isinstance(k, ast.Raise) for k in s_.body) and s_.lineno > loop.lineno]
    if tail:
        col.ok("C25.unknown", "a trailing option without a field raises", A.loc(tail[0]))
    else:
        col.fail("C25.unknown", fn.qualname, "dangling-option-accepted", "an option at the end of the template without a field is silently dropped", A.loc(fn.node))
    # a pending option is consumed by the next field (as its argstr); a branch that clears or overwrites the
    # pending option without reading it drops that option from the command line
    if opt_var is not None:
        for kind, b in branches:
            stores = [n for st in b.body for n in ast.walk(st) if isinstance(n, ast.Name) and n.id == opt_var and isinstance(n.ctx, ast.Store)]
            loads = [n for st in b.body for n in ast.walk(st) if isinstance(n, ast.Name) and n.id == opt_var and isinstance(n.ctx, ast.Load)]
            if stores and not loads:
                col.fail("C25.order", fn.qualname, f"pending-option-dropped:{kind}", f"the `{kind}` token branch sets `{opt_var}` without looking at it: an option that is followed by {'another option' if kind == 'option' else 'a flag token'} instead of a field is silently dropped from the command line (only a trailing option is reported)", A.loc(stores[0]))
            elif stores:
                col.ok("C25.order", f"the `{kind}` token branch reads the pending option before it resets it", A.loc(stores[0]))
    # pieces of the token text
    tok_vars = {loop.target.id}
    changed = True
    while changed:
        changed = False
        for n in ast.walk(loop):
            tg = []
            if isinstance(n, ast.Assign):
                tg = [(t, n.value) for t in n.targets]
            elif isinstance(n, ast.NamedExpr):
                tg = [(n.target, n.value)]
            for t, v in tg:
                if any(isinstance(k, ast.Name) and k.id in tok_vars for k in ast.walk(v)) and not any(isinstance(k, ast.Call) and isinstance(k.func, ast.Name) and k.func.id in ("eval", "literal_eval", "from_type_str", "bool", "int", "float") for k in [v]):
                    for e in (t.elts if isinstance(t, ast.Tuple) else [t]):
                        if isinstance(e, ast.Name) and e.id not in tok_vars:
                            tok_vars.add(e.id)
                            changed = True
    # (a) a default written after `=` is evaluated; bool(<text>) is True for every non-empty text
    bools = [c for c in ast.walk(loop) if isinstance(c, ast.Call) and isinstance(c.func, ast.Name) and c.func.id == "bool" and c.args and isinstance(c.args[0], ast.Name) and c.args[0].id in tok_vars]
    evals = [c for c in ast.walk(loop) if isinstance(c, ast.Call) and isinstance(c.func, ast.Name) and c.func.id in ("eval", "literal_eval") and c.args and any(isinstance(k, ast.Name) and k.id in tok_vars for k in ast.walk(c.args[0]))]
    for c in bools:
        col.fail("C25.defaults", fn.qualname, "default-text-truth-tested", f"`{norm(c)}` turns the text written after `=` into a default by truth-testing the string: 'False' and '0' become True", A.loc(c))
    if len(evals) >= 2 and not bools:
        col.ok("C25.defaults", f"defaults written after `=` are evaluated ({len(evals)} sites), never truth-tested as text", A.loc(evals[0]))
    elif len(evals) < 2:
        col.fail("C25.defaults", fn.qualname, f"default-not-evaluated:{len(evals)}", f"only {len(evals)} of the two `=` default sites (argument tokens, flag tokens) evaluate the text written in the template", A.loc(loop))
    # (b) an explicit `$` path template is stored once; any other store is under `'path_template' not in <kwds>`
    pt_stores = [n for n in ast.walk(loop) if isinstance(n, ast.Assign) and any(isinstance(t, ast.Subscript) and isinstance(t.slice, ast.Constant) and t.slice.value == "path_template" for t in n.targets)]
    A.anchor("stores to kwds['path_template'] in the template parser", pt_stores)
    explicit = [n for n in pt_stores if any(isinstance(k, ast.Name) and k.id in tok_vars for k in ast.walk(n.value)) and any(isinstance(p_, ast.If) and any(isinstance(k, ast.Constant) and k.value == "$" for k in ast.walk(p_.test)) for p_ in parents(n))]
    if not explicit:
        raise AnalysisError("C25: the store of the explicit `$` path template was not recognised")
    for n in pt_stores:
        if n in explicit:
            col.ok("C25.defaults", "the text after `$` is stored as the output's path_template", A.loc(n))
            continue
        guarded = any(isinstance(p_, ast.If) and any(isinstance(k, ast.Compare) and len(k.ops) == 1 and isinstance(k.ops[0], ast.NotIn) and isinstance(k.left, ast.Constant) and k.left.value == "path_template" for k in ast.walk(p_.test)) and n in list(ast.walk(ast.Module(body=p_.body, type_ignores=[]))) for p_ in parents(n))
        if guarded:
            col.ok("C25.defaults", "the default path_template (field name + format extension) is stored only when none was written", A.loc(n))
        else:
            col.fail("C25.defaults", fn.qualname, "explicit-path-template-overwritten", f"`{norm(n, 60)}` is not guarded by `'path_template' not in <kwds>`: a template written with `$` is replaced by <field name><extension of the format>", A.loc(n))
    # positions in template order: the list filled by the nested helper is walked in order and
    # unpositioned entries take remaining_positions(...).pop(0)
    rem_vars = {n.targets[0].id for n in walk_own(fn.node) if isinstance(n, ast.Assign) and isinstance(n.targets[0], ast.Name) and isinstance(n.value, ast.Call) and any(q.endswith("remaining_positions") for q in A.callee_names(n.value, fn))}
    appended = {norm(c.func.value) for f in fn.nested.values() for c in A.calls(f) if isinstance(c.func, ast.Attribute) and c.func.attr == "append" and isinstance(c.func.value, ast.Name)}
    okp = False
    for lp in walk_own(fn.node):
        if isinstance(lp, ast.For) and isinstance(lp.iter, ast.Name) and lp.iter.id in appended and isinstance(lp.target, ast.Name):
            v = lp.target.id
            has_test = any(isinstance(k, ast.If) and norm(k.test) == f"{v}.position is None" for k in ast.walk(lp))
            pops = any(isinstance(k, ast.Call) and isinstance(k.func, ast.Attribute) and k.func.attr == "pop" and isinstance(k.func.value, ast.Name) and k.func.value.id in rem_vars and k.args and norm(k.args[0]) == "0" for k in ast.walk(lp))
            if has_test and pops:
                okp = True
    if okp:
        col.ok("C25.position", "arguments are collected in template order and unpositioned ones receive remaining_positions(...).pop(0) in that order", A.loc(fn.node))
    else:
        col.fail("C25.position", fn.qualname, "positions-not-in-template-order", "implicit positions are no longer assigned in template order", A.loc(fn.node))
    # the executable: leading tokens up to the first '<' or '-'
    ex = [n for n in walk_own(fn.node) if isinstance(n, ast.If) and "startswith('<')" in norm(n.test) and "startswith('-')" in norm(n.test) and any(isinstance(k, ast.Break) for k in n.body)]
    if ex:
        col.ok("C25.executable", "the executable is the run of leading tokens before the first '<...>' or '-...' token", A.loc(ex[0]))
    else:
        col.fail("C25.executable", fn.qualname, "executable-boundary", "the boundary between executable and arguments is no longer the first '<' / '-' token", A.loc(fn.node))


# --------------------------------------------------------------------------- #
# C26
# --------------------------------------------------------------------------- #


@prop(
    "C26",
    technique="path-shape rule on template_update_single (every template-derived return is cache_dir / <x>.name) + def-use of the cache_dir argument at the call sites on the job path + ordering of the explicit-value return",
    decides="(a) in template_update_single a template-derived value is re-rooted as cache_dir / <value>.name for both the list and the scalar form under the guard `cache_dir and value is not None`, and every call site on the job path (Job.inputs via template_update, ShellOutputs._resolve_value) passes cache_dir derived from the job's cache_dir (cmdline deliberately uses the cwd); (b) an explicitly supplied Path/list value is returned before any template formatting; (c) the re-rooting rejects the names '..' and '' (Path('x/..').name == '..'); (d) the keep-extension decision reads the template outside its placeholders and keep_extension only.",
    not_decided="the extension arithmetic itself (which part of a multi-dot name is the extension), determinism of str.format, dependence of a cached result's path on the input file's name (the file name is not part of a FileSet's hash: reported by a seeding agent, third-party serializer, not decided).",
    level_note="Trusted: pathlib semantics of `/` and `.name`.",
)
def check_c26(A: Analysis, col: Collector):
    fn = A.func(f"{TEMPL}.template_update_single")
    col.scope(fn.qualname)
    cfg = A.cfg(fn)
    fmt_calls = [c for c in A.calls(fn) if any(q.endswith("_template_formatting") for q in A.callee_names(c, fn))]
    A.anchor("_template_formatting call", fmt_calls)
    # the variable holding the formatted value
    var = None
    for n in walk_own(fn.node):
        if isinstance(n, ast.Assign) and n.value in fmt_calls and isinstance(n.targets[0], ast.Name):
            var = n.targets[0].id
    if var is None:
        raise AnalysisError("template_update_single: result of _template_formatting is not bound to a local")
    guards = [n for n in walk_own(fn.node) if isinstance(n, ast.If) and "cache_dir" in norm(n.test) and var in norm(n.test)]
    if not guards:
        col.fail("C26.reroot", fn.qualname, "no-rerooting", "the formatted template is never re-rooted into cache_dir", A.loc(fn.node))
    def _is_reroot(expr, cd_name):
        return isinstance(expr, ast.BinOp) and isinstance(expr.op, ast.Div) and norm(expr.left) == cd_name and isinstance(expr.right, ast.Attribute) and expr.right.attr == "name"

    def _rejects_special_names(scope_node) -> bool:
        """a guard whose every path raises and whose test compares `<x>.name` with '..' (and '')"""
        for n_ in ast.walk(scope_node):
            if isinstance(n_, ast.If) and always_raises(n_.body):
                consts = {k.value for k in ast.walk(n_.test) if isinstance(k, ast.Constant) and isinstance(k.value, str)}
                on_name = any(isinstance(k, ast.Attribute) and k.attr in ("name", "parts") for k in ast.walk(n_.test))
                if on_name and ".." in consts and "" in consts:
                    return True
        return False

    for g in guards:
        forms = {"list": False, "scalar": False}
        special_ok = {"list": False, "scalar": False}
        for n in ast.walk(g):
            form = None
            if _is_reroot(n, "cache_dir"):
                form = "list" if any(isinstance(p, (ast.ListComp, ast.GeneratorExp)) for p in parents(n) if is_within(p, g)) else "scalar"
                forms[form] = True
                special_ok[form] = special_ok[form] or _rejects_special_names(g)
            elif isinstance(n, ast.Call) and any(norm(a) == "cache_dir" for a in list(n.args) + [k.value for k in n.keywords]):
                # a helper that does the re-rooting: every return is <its cache-dir parameter> / <path>.name
                for h in [t for t in A.rs.resolve_call(n, fn).repo_targets if isinstance(t, FuncInfo) and t.module is fn.module]:
                    pos = next((i for i, a in enumerate(n.args) if norm(a) == "cache_dir"), None)
                    kwn = next((k.arg for k in n.keywords if norm(k.value) == "cache_dir"), None)
                    hp = [p_.arg for p_ in h.params()]
                    cdp = kwn or (hp[pos] if pos is not None and pos < len(hp) else None)
                    rets_h = [r for r in walk_own(h.node) if isinstance(r, ast.Return)]
                    if cdp and rets_h and all(_is_reroot(r.value, cdp) for r in rets_h):
                        form = "list" if any(isinstance(p, (ast.ListComp, ast.GeneratorExp)) for p in parents(n) if is_within(p, g)) else "scalar"
                        forms[form] = True
                        special_ok[form] = special_ok[form] or _rejects_special_names(h.node)
                        col.scope(h.qualname)
        for k, v in forms.items():
            if v and not special_ok[k]:
                col.fail("C26.reroot", fn.qualname, f"dotdot-name-not-rejected:{k}", f"the {k} form re-roots the formatted template as cache_dir / <path>.name without rejecting the names '..' and '': Path('x/..').name == '..', so a string input ending in '..' resolves to the PARENT of the job directory (and '' to the job directory itself)", A.loc(g))
        for k, v in forms.items():
            if v:
                col.ok("C26.reroot", f"{k} form: the template-derived path is replaced by cache_dir / <path>.name", A.loc(g))
            else:
                col.fail("C26.reroot", fn.qualname, f"reroot-missing:{k}", f"the {k} form of a template-derived value is not re-rooted as cache_dir / <path>.name: an output template containing a directory or an absolute input path resolves outside the job directory", A.loc(g))
        if "is not None" in norm(g.test) and " and " in norm(g.test) and " or " not in norm(g.test):
            col.ok("C26.reroot", f"re-rooting guard is `{norm(g.test)}`", A.loc(g))
        else:
            col.fail("C26.reroot", fn.qualname, f"reroot-guard:{norm(g.test, 40)}", f"the re-rooting guard `{norm(g.test)}` can skip re-rooting although cache_dir is given", A.loc(g))
    # the final return is the (re-rooted) variable
    rets = [n for n in walk_own(fn.node) if isinstance(n, ast.Return) and n.value is not None and norm(n.value) == var]
    if rets and guards and all(r.lineno > g.lineno for r in rets for g in guards):
        col.ok("C26.reroot", f"the value returned is `{var}` after the re-rooting block", A.loc(rets[0]))
    else:
        col.fail("C26.reroot", fn.qualname, "return-before-reroot", "the template-derived value is returned before / without the re-rooting block", A.loc(fn.node))
    # (c) the decision whether the input file's extension is appended depends on the template text outside
    # its placeholders and on keep_extension only -- not on formatted values, and not on a '.' inside a
    # format spec such as {n:.2f}
    ef = A.func(f"{TEMPL}._element_formatting")
    col.scope(ef.qualname)
    eparams = [p_.arg for p_ in ef.params()]
    tparam = eparams[0]
    value_vars = {eparams[1]}
    changed = True
    while changed:
        changed = False
        for n in walk_own(ef.node):
            if isinstance(n, ast.Assign) and isinstance(n.targets[0], ast.Name) and n.targets[0].id not in value_vars:
                if any(isinstance(k, ast.Name) and k.id in value_vars for k in ast.walk(n.value)) or any(isinstance(k, ast.Call) and isinstance(k.func, ast.Attribute) and k.func.attr == "format" for k in ast.walk(n.value)):
                    value_vars.add(n.targets[0].id)
                    changed = True
    dot_tests = []
    for n in walk_own(ef.node):
        if isinstance(n, ast.Compare) and isinstance(n.left, ast.Constant) and n.left.value == "." and len(n.ops) == 1 and isinstance(n.ops[0], (ast.In, ast.NotIn)) and any(isinstance(p_, ast.If) and is_within(n, p_.test) for p_ in parents(n)):
            dot_tests.append(n)
    A.anchor("`'.' [not] in <template>` test in _element_formatting", dot_tests)
    for t in dot_tests:
        e = t.comparators[0]
        names = {k.id for k in ast.walk(e) if isinstance(k, ast.Name)}
        if names & value_vars:
            col.fail("C26.extension", ef.qualname, "extension-decision-depends-on-formatted-values", f"`{norm(t)}` decides whether the input file's extension is kept by looking at a formatted value: another referenced input that formats with a dot (1.5, 'v1.2') makes the extension disappear although keep_extension is declared", A.loc(t))
        elif isinstance(e, ast.Name) and e.id == tparam:
            col.fail("C26.extension", ef.qualname, "format-spec-dot-counts-as-extension", f"`{norm(t)}` looks for a '.' in the raw template, placeholders included: the dot of a format spec such as {{n:.2f}} counts as the template's own extension, and the input file's extension is dropped although keep_extension is declared", A.loc(t))
        elif tparam in names:
            col.ok("C26.extension", f"`{norm(t, 70)}`: the template's own extension is looked for outside its placeholders", A.loc(t))
        else:
            col.fail("C26.extension", ef.qualname, f"extension-decision-reads:{shape(e, 40)}", f"`{norm(t)}` does not look at the template", A.loc(t))
    # (b) explicit value precedes formatting
    early = []
    for n in walk_own(fn.node):
        if isinstance(n, ast.If) and isinstance(n.test, ast.Call) and dotted(n.test.func) == "isinstance" and len(n.test.args) == 2 and isinstance(n.test.args[0], ast.Name) and "Path" in norm(n.test.args[1]) and n.body and isinstance(n.body[0], ast.Return) and norm(n.body[0].value) == n.test.args[0].id:
            early.append(n)
    if early and all(e.lineno < c.lineno for e in early for c in fmt_calls):
        col.ok("C26.explicit", "an explicitly supplied Path/list is returned as given before any template formatting", A.loc(early[0]))
    else:
        col.fail("C26.explicit", fn.qualname, "explicit-output-path-not-honoured", "an explicitly supplied output path is no longer returned before the template is formatted", A.loc(fn.node))
    # call sites
    sites = []
    for f in A.repo.all_functions():
        for c in A.calls(f):
            names = A.callee_names(c, f)
            if any(q == f"{TEMPL}.template_update_single" or q == f"{TEMPL}.template_update" for q in names):
                sites.append((f, c))
    if len(sites) < 4:
        raise AnalysisError(f"C26: {len(sites)} call sites of template_update[_single]; floor 4")
    for f, c in sites:
        cd = kwarg(c, "cache_dir")
        where = f.qualname
        if f.qualname.endswith("ShellTask.cmdline"):
            if cd is not None and "cwd" in norm(cd):
                col.ok("C26.sites", "cmdline resolves templates against the cwd (display only, by design)", A.loc(c))
            else:
                col.fail("C26.sites", where, f"cmdline-cache_dir:{norm(cd, 20)}", "cmdline no longer resolves templates against the cwd", A.loc(c))
        elif f.qualname.endswith("templating.template_update"):
            if cd is not None and norm(cd) == "cache_dir":
                col.ok("C26.sites", "template_update forwards its cache_dir to template_update_single", A.loc(c))
            else:
                col.fail("C26.sites", where, f"forwarded-cache_dir:{norm(cd, 20)}", "template_update does not forward cache_dir", A.loc(c))
        else:
            if cd is not None and norm(cd) in ("self.cache_dir", "job.cache_dir"):
                col.ok("C26.sites", f"{where}: cache_dir={norm(cd)}", A.loc(c))
            else:
                col.fail("C26.sites", where, f"job-path-cache_dir:{norm(cd, 20)}", f"{where} resolves output templates with cache_dir={norm(cd, 30)} instead of the job's cache_dir", A.loc(c))
