"""C06 (cache hit == executing now: read-set coverage), C07 (identity stable across
sessions: nondeterminism sources), C08 (value hashing: tags, numpy, memo), C09 (file
hash cache key sensitivity)."""

from __future__ import annotations

import ast
import typing as ty

from ..engine import Analysis
from ..model import AnalysisError, FuncInfo, ClassInfo, dotted, norm, walk_own, parents, kwarg, is_within, shape, alpha
from ..report import Collector
from . import prop
from .runfn import run_functions, hit_condition

HASH_MOD = "pydra.utils.hash"
TASK_MOD = "pydra.compose.base.task"


def serializers(A: Analysis) -> list[tuple[FuncInfo, list[str]]]:
    """functions registered with register_serializer / bytes_repr.register, anywhere in
    the repo, with the registered type names."""
    out = []
    for f in A.repo.all_functions():
        if f.cls is not None or f.parent is not None and f.parent.name != "<module>" and False:
            continue
        regs = []
        is_ser = False
        for d in f.node.decorator_list:
            dn = dotted(d.func if isinstance(d, ast.Call) else d) or ""
            if dn.endswith("register_serializer") or dn.endswith("bytes_repr.register") or dn == "singledispatch":
                is_ser = True
                if isinstance(d, ast.Call) and d.args:
                    regs.append(norm(d.args[0]))
        if is_ser:
            if not regs:
                ps = f.params()
                if ps and ps[0].annotation is not None:
                    regs.append(norm(ps[0].annotation))
            out.append((f, regs))
    return out


def _yields(fn: FuncInfo) -> list[ast.AST]:
    ys = [n for n in walk_own(fn.node) if isinstance(n, (ast.Yield, ast.YieldFrom))]
    return sorted(ys, key=lambda n: (n.lineno, n.col_offset))


# --------------------------------------------------------------------------- #
# C06
# --------------------------------------------------------------------------- #

ARGV_ROOTS = ("pydra.compose.shell.task.ShellTask._command_args", "pydra.compose.shell.templating.template_update")
# attributes of a field object that identify *which* value is hashed, not how it is used
FIELD_IDENTITY_ATTRS = {"name"}


def argv_readset(A: Analysis) -> dict[str, list[str]]:
    field = A.cls("pydra.compose.base.field.Field")
    roots = [A.func(q) for q in ARGV_ROOTS]
    cl = A.closure(roots, limit=400)
    reads: dict[str, list[str]] = {}
    field_attrs = set()
    for c in [field] + field.all_subclasses():
        field_attrs |= set(c.annotations) | set(c.class_assigns)
    for f in cl:
        for n in walk_own(f.node):
            if isinstance(n, ast.Attribute) and isinstance(n.ctx, ast.Load):
                t = A.rs.type_of(n.value, f)
                if any(c.is_subclass_of(field) for c in t.inst) and n.attr in field_attrs:
                    reads.setdefault(n.attr, []).append(f"{f.qualname}@{A.loc(n)}")
            # getattr(field, "x", ...) reads
            if isinstance(n, ast.Call) and dotted(n.func) == "getattr" and len(n.args) >= 2 and isinstance(n.args[1], ast.Constant):
                t = A.rs.type_of(n.args[0], f)
                if any(c.is_subclass_of(field) for c in t.inst) and n.args[1].value in field_attrs:
                    reads.setdefault(n.args[1].value, []).append(f"{f.qualname}@{A.loc(n)}")
    return reads


def checksum_covers_field_metadata(A: Analysis, col: Collector, rule: str):
    ch = A.func(f"{TASK_MOD}.Task._compute_hashes")
    col.scope(ch.qualname)
    field = A.cls("pydra.compose.base.field.Field")
    # what flows into hash_function / hash_single inside _compute_hashes
    hashed_roots = []
    covers_class = False
    covers_fields = False
    dict_vars = set()
    for c in A.calls(ch):
        if any(q.endswith("hash_function") or q.endswith("hash_single") or q.endswith("hash_object") for q in A.callee_names(c, ch)) and c.args:
            r = A.flow.derives(c.args[0], ch)
            hashed_roots.append(r)
    # values stored in the dict that is hashed
    stored = []
    for n in walk_own(ch.node):
        if isinstance(n, ast.Assign):
            for t in n.targets:
                if isinstance(t, ast.Subscript):
                    stored.append(A.expand(n.value, ch))
    for v in stored:
        if isinstance(v, ast.Call) and dotted(v.func) == "type" and v.args and norm(v.args[0]) == "self":
            covers_class = True
        if isinstance(v, ast.Attribute) and v.attr == "__class__" and norm(v.value) == "self":
            covers_class = True
        t = A.rs.type_of(v, ch)
        if any(c.is_subclass_of(field) for c in t.inst):
            covers_fields = True
        if isinstance(v, ast.Call) and any(q.endswith("get_fields") or q == "attrs.fields" for q in A.callee_names(v, ch)):
            covers_fields = True
    outputs_hashed = any(isinstance(v, ast.Attribute) and v.attr == "Outputs" and norm(v.value) == "self" for v in stored)
    values_hashed = any(isinstance(v, ast.Call) and dotted(v.func) == "getattr" and v.args and norm(v.args[0]) == "self" for v in stored)
    if values_hashed:
        col.ok(rule, "_compute_hashes hashes the value of every input field (getattr(self, field.name))", A.loc(ch.node))
    else:
        col.fail(rule, ch.qualname, "field-values-not-hashed", "_compute_hashes no longer hashes the field values", A.loc(ch.node))
    if outputs_hashed:
        col.ok(rule, "_compute_hashes hashes the Outputs class (names/types of outputs)", A.loc(ch.node))
    else:
        col.fail(rule, ch.qualname, "outputs-class-not-hashed", "_compute_hashes no longer includes self.Outputs: tasks differing in their declared outputs share a cache entry", A.loc(ch.node))
    # skip conditions in _compute_hashes: only Out fields, NOTHING values, container_path
    AUDITED_SKIPS = {
        "isinstance(_, Out)": "output fields are not inputs",
        "getattr(self, _.name) is attrs.NOTHING": "unset fields",
        "getattr(_, 'container_path', False)": "container_path fields (legacy flag)",
    }
    for n in walk_own(ch.node):
        if isinstance(n, ast.If) and any(isinstance(s, ast.Continue) for s in n.body):
            t = alpha(A.expand(n.test, ch), {}, "_", keep=("self", "Out", "attrs"))
            if t in AUDITED_SKIPS:
                col.ok(rule, f"_compute_hashes skips a field only when `{norm(n.test)}` ({AUDITED_SKIPS[t]})", A.loc(n))
            else:
                col.fail(rule, ch.qualname, f"field-skipped-when:{t.replace(' ', '')[:50]}", f"_compute_hashes skips fields when `{norm(n.test)}`: their values do not contribute to the cache identity", A.loc(n))
    reads = argv_readset(A)
    if len(reads) < 6:
        raise AnalysisError(f"C06: field-metadata read-set of the argv builder has {len(reads)} attributes; floor 6")
    col.notes["argv_metadata_readset"] = {k: len(v) for k, v in sorted(reads.items())}
    for attr, sites in sorted(reads.items()):
        if attr in FIELD_IDENTITY_ATTRS:
            col.ok(rule, f"field attribute `{attr}` is the key under which the value is hashed", sites[0].split("@")[1])
            continue
        if covers_class or covers_fields:
            col.ok(rule, f"field attribute `{attr}` (read by the command builder at {len(sites)} site(s)) is covered: the task class / field objects flow into the checksum", sites[0].split("@")[1])
        else:
            col.fail(
                rule,
                ch.qualname,
                f"argv-metadata-not-hashed:{attr}",
                f"the command line depends on field metadata `{attr}` (read at {len(sites)} site(s), e.g. {sites[0]}) but the checksum covers only field values and the Outputs class: two tasks differing only in `{attr}` share a cache entry",
                sites[0].split("@")[1],
            )


def function_readset(A: Analysis, col: Collector, rule: str):
    fn = A.func(f"{HASH_MOD}.bytes_repr_function")
    col.scope(fn.qualname)
    # the serializer and the helpers it uses: nested functions and module-level functions of the hash module
    # it calls (the helpers may live in either place)
    scope = [fn] + list(fn.nested.values())
    for f in list(scope):
        for c in A.calls(f):
            for t in A.rs.resolve_call(c, f).repo_targets:
                if isinstance(t, FuncInfo) and t.module.name == HASH_MOD and t not in scope and t.name != "hash_single" and not t.name.startswith("bytes_repr"):
                    scope.append(t)
    names = set()
    for f in scope:
        for n in walk_own(f.node):
            if isinstance(n, ast.Attribute):
                names.add(n.attr)
            if isinstance(n, ast.Call):
                names |= A.callee_names(n, f)
    src_ok = "inspect.getsource" in names
    if src_ok:
        col.ok(rule, "bytes_repr_function serialises the function's source AST (args incl. defaults + body)", A.loc(fn.node))
    else:
        col.fail(rule, fn.qualname, "function-source-not-hashed", "bytes_repr_function no longer reads the function source", A.loc(fn.node))
    # the body statements and the args node must both be dumped
    dumpers = {g.name: g for g in scope if any("ast.dump" in A.callee_names(k, g) for k in A.calls(g))}
    dump_calls = [c for f in scope for c in A.calls(f) if isinstance(c.func, ast.Name) and c.func.id in dumpers and c.args]
    dumps = [norm(c.args[0]) for c in dump_calls]
    body_dumped = False
    for c in dump_calls:
        for p in parents(c):
            if isinstance(p, ast.For) and isinstance(p.iter, ast.Attribute) and p.iter.attr == "body" and isinstance(p.target, ast.Name) and norm(c.args[0]) == p.target.id:
                body_dumped = True
        if isinstance(c.args[0], ast.Attribute) and c.args[0].attr == "body":
            body_dumped = True
    if any(d.endswith(".args") for d in dumps) and body_dumped:
        col.ok(rule, "both the argument list (names, defaults) and every body statement are dumped", A.loc(fn.node))
    else:
        col.fail(rule, fn.qualname, "function-ast-partially-dumped:" + ("args" if any(d.endswith(".args") for d in dumps) else "") + ("+body" if body_dumped else ""), f"only {dumps} of the function AST is serialised", A.loc(fn.node))
    if names & {"__closure__", "inspect.getclosurevars", "cell_contents"}:
        col.ok(rule, "bytes_repr_function serialises the closure cells", A.loc(fn.node))
    else:
        col.fail(rule, fn.qualname, "function-closure-not-hashed", "bytes_repr_function reads the source AST only; the values captured in __closure__ are not part of the hash: two tasks whose functions differ only in a captured value share a cache entry", A.loc(fn.node))
    # code-object fallback covers code + consts
    code = A.func(f"{HASH_MOD}.bytes_repr_code")
    attrs_read = {n.attr for n in walk_own(code.node) if isinstance(n, ast.Attribute)}
    need = {"co_code", "co_consts", "co_names", "co_varnames", "co_argcount"}
    if need <= attrs_read:
        col.ok(rule, "bytes_repr_code covers co_code, co_consts, co_names, co_varnames, co_argcount", A.loc(code.node))
    else:
        col.fail(rule, code.qualname, "code-attrs-missing:" + "+".join(sorted(need - attrs_read)), f"bytes_repr_code ignores {sorted(need - attrs_read)}", A.loc(code.node))


@prop(
    "C06",
    technique="read-set coverage: attribute read-set of the command builder's call-graph closure vs. what flows into the checksum; read-set of the function serializer; hit-condition guard rule",
    decides="(a) every field-metadata attribute read by the argv builder (call-graph closure of ShellTask._command_args and template_update) is covered by the task checksum, which must hash field values and the Outputs class and skip a field only for the three audited reasons; (b) the function serializer covers source AST (args+defaults, body) and closure cells, the code-object fallback covers code and constants; (c) array shape/dtype (C08 rule, shared); (d) a cached result is returned only under `is not None and not errored` inside the lock.",
    not_decided="that equal read-sets imply equal results (task determinism is the premise); global variables and imported helpers referenced by a task function; third-party serializers.",
    level_note="Trusted: nominal typing of field variables (loop targets over get_fields(...), annotated parameters); flow analysis bound 2.",
)
def check_c06(A: Analysis, col: Collector):
    checksum_covers_field_metadata(A, col, "C06.argv")
    function_readset(A, col, "C06.function")
    numpy_rule(A, col, "C06.numpy")
    for R in run_functions(A):
        col.scope(R.fn.qualname)
        hit_condition(A, col, R, "C06.hit")
    # the overall hash covers (field name, field hash) pairs, not the bare hashes: otherwise two
    # tasks whose values are exchanged between two fields share a cache entry
    ch = A.func(f"{TASK_MOD}.Task._compute_hashes")
    rets = [n for n in walk_own(ch.node) if isinstance(n, ast.Return) and isinstance(n.value, ast.Tuple) and len(n.value.elts) == 2]
    if rets and isinstance(rets[0].value.elts[1], ast.Name):
        hv = rets[0].value.elts[1].id
        first = A.expand(rets[0].value.elts[0], ch, keep=(hv,))
        for k_ in ast.walk(first):
            for c_ in ast.iter_child_nodes(k_):
                c_._parent = k_  # type: ignore[attr-defined]
        uses_items = any(isinstance(k, ast.Call) and isinstance(k.func, ast.Attribute) and k.func.attr == "items" and norm(k.func.value) == hv for k in ast.walk(first))
        whole = any(isinstance(k, ast.Name) and k.id == hv and not isinstance(getattr(k, "_parent", None), ast.Attribute) for k in ast.walk(first))
        if uses_items or whole:
            col.ok("C06.identity", f"the task hash is computed over the (field name, field hash) pairs of `{hv}`", A.loc(rets[0]))
        else:
            col.fail("C06.identity", ch.qualname, "task-hash-without-field-names", f"the task hash is `{norm(first, 60)}`: it does not cover which field a value belongs to, so tasks whose input values are exchanged between fields (a=1,b=2 vs a=2,b=1) share a cache entry", A.loc(rets[0]))
    else:
        raise AnalysisError("Task._compute_hashes: `return <hash>, <per-field hashes>` not found")
    # _checksum = task type + hash
    ck = A.cls(f"{TASK_MOD}.Task").find_method("_checksum")
    txt = " ".join(norm(n.value) for n in walk_own(ck.node) if isinstance(n, ast.Return) and n.value is not None)
    if "_task_type()" in txt and "_hash" in txt:
        col.ok("C06.identity", "Task._checksum = '<task type>-<hash of inputs>'", A.loc(ck.node))
    else:
        col.fail("C06.identity", ck.qualname, "checksum-composition", f"Task._checksum is `{txt}`", A.loc(ck.node))


# --------------------------------------------------------------------------- #
# C08
# --------------------------------------------------------------------------- #


def first_yield_tags(A: Analysis, fn: FuncInfo) -> list[tuple[str, str, ast.AST]]:
    """[(kind, tag, node)] for every yield that can be the first one executed.
    kind: 'literal' | 'classname' | 'tagless' | 'delegate' | 'key'"""
    cfg = A.cfg(fn)
    has_yield = lambda n: any(isinstance(y, (ast.Yield, ast.YieldFrom)) for e in n.exprs for y in [e] + list(walk_own(e)))
    firsts = []
    seen = set()
    st = [cfg.entry]
    while st:
        n = st.pop()
        if n.id in seen:
            continue
        seen.add(n.id)
        if n.kind not in ("entry",) and has_yield(n):
            firsts.append(n)
            continue
        st.extend(m for l, m in n.succ if l != "x")
    out = []
    for n in firsts:
        y = next(y for e in n.exprs for y in [e] + list(walk_own(e)) if isinstance(y, (ast.Yield, ast.YieldFrom)))
        v = y.value
        if isinstance(y, ast.YieldFrom):
            if isinstance(v, ast.Call) and isinstance(v.func, ast.Attribute) and v.func.attr == "__bytes_repr__":
                out.append(("delegate", "__bytes_repr__", y))
            else:
                out.append(("delegate", norm(v, 40), y))
            continue
        # CacheKey(...) first chunk, built in place or by a helper of the module whose returns are all CacheKey(...)
        if isinstance(v, ast.Call) and (dotted(v.func) or "").endswith("CacheKey"):
            out.append(("key", "CacheKey", y))
            continue
        if isinstance(v, ast.Call):
            helpers = [t for t in A.rs.resolve_call(v, fn).repo_targets if isinstance(t, FuncInfo)]
            if helpers and all(any(isinstance(r, ast.Return) for r in walk_own(h.node)) and all(isinstance(r.value, ast.Call) and (dotted(r.value.func) or "").endswith("CacheKey") for r in walk_own(h.node) if isinstance(r, ast.Return)) for h in helpers):
                out.append(("key", "CacheKey", y))
                continue
        base = v
        if isinstance(v, ast.Call) and isinstance(v.func, ast.Attribute) and v.func.attr == "encode":
            base = v.func.value
        if isinstance(base, ast.Constant) and isinstance(base.value, (bytes, str)):
            b = base.value if isinstance(base.value, str) else base.value.decode("latin1")
            out.append(("literal", b, y))
        elif isinstance(base, ast.JoinedStr):
            head = ""
            dynamic_first = False
            for part in base.values:
                if isinstance(part, ast.Constant):
                    head += str(part.value)
                else:
                    if head == "":
                        dynamic_first = True
                    break
            if dynamic_first:
                txt = norm(base)
                if "__name__" in txt or "__class__" in txt:
                    out.append(("classname", txt, y))
                else:
                    out.append(("dynamic", txt, y))
            else:
                out.append(("literal", head, y))
        elif isinstance(base, ast.Call) and dotted(base.func) == "repr":
            out.append(("tagless", "repr(obj)", y))
        elif isinstance(base, ast.BinOp):
            l = base.left
            while isinstance(l, ast.BinOp):
                l = l.left
            if isinstance(l, ast.Constant):
                out.append(("literal", l.value if isinstance(l.value, str) else l.value.decode("latin1"), y))
            else:
                out.append(("dynamic", norm(base, 40), y))
        else:
            out.append(("dynamic", norm(v, 40), y))
    return out


TAGLESS_OK_TYPES = {"type(None)", "type(Ellipsis)", "bool", "range"}
# registrations that all denote *type objects* (one serializer, one tag, by design)
TYPE_OBJECT_REGS = {"type", "ty._GenericAlias", "ty._SpecialForm", "types.UnionType"}


def tag_rule(A: Analysis, col: Collector, rule: str):
    sers = serializers(A)
    if len(sers) < 20:
        raise AnalysisError(f"C08: {len(sers)} registered serializers found; floor 20")
    literal: dict[str, list[str]] = {}
    for f, regs in sers:
        col.scope(f.qualname)
        tags = first_yield_tags(A, f)
        if not tags:
            col.fail(rule, f.qualname, "serializer-yields-nothing", "the serializer has no yield reachable from its entry", A.loc(f.node))
            continue
        for kind, tag, y in tags:
            if kind == "literal":
                literal.setdefault(tag, []).append(f.qualname)
                shared = set(regs) - TYPE_OBJECT_REGS
                if len(regs) > 1 and len(shared) > 1:
                    col.fail(rule, f.qualname, f"one-literal-tag-for-several-types:{tag}", f"{f.name} is registered for {regs} but starts with the single constant tag {tag!r}: values of these different types with equal content hash alike", A.loc(y))
                else:
                    col.ok(rule, f"{f.name} [{', '.join(regs)}] starts with the constant tag {tag!r}", A.loc(y))
            elif kind == "classname":
                col.ok(rule, f"{f.name} [{', '.join(regs)}] starts with a tag derived from the object's class name (distinct by type)", A.loc(y))
            elif kind == "tagless":
                if set(regs) <= TAGLESS_OK_TYPES and regs:
                    col.ok(rule, f"{f.name} is tag-less (repr) but registered only for {regs}, whose reprs are disjoint from every tag", A.loc(y))
                else:
                    col.fail(rule, f.qualname, "tagless-serializer:" + "+".join(sorted(set(regs) - TAGLESS_OK_TYPES)), f"a tag-less repr() serializer is registered for {sorted(set(regs) - TAGLESS_OK_TYPES)}: values of these types can collide with other types' serialisations", A.loc(y))
            elif kind == "delegate":
                col.ok(rule, f"{f.name} delegates to {tag} (unchecked: user-defined)", A.loc(y))
            elif kind == "key":
                col.ok(rule, f"{f.name} yields a persistent-cache key first; its byte stream starts with a class-name tag", A.loc(y))
            else:
                col.fail(rule, f.qualname, f"untagged-first-chunk:{kind}", f"the first chunk `{tag}` of {f.name} carries no type tag", A.loc(y))
    tags = sorted(literal)
    for t in tags:
        owners = literal[t]
        # the same tag may be shared by one function registered for several types only
        if len(set(owners)) > 1:
            col.fail(rule, HASH_MOD, f"duplicate-tag:{t}", f"tag {t!r} is the first chunk of several serializers {sorted(set(owners))}: values of different types serialise alike", "")
    for i, a in enumerate(tags):
        for b in tags[i + 1 :]:
            if (a.startswith(b) or b.startswith(a)) and a != b:
                col.fail(rule, HASH_MOD, f"prefix-tags:{a}|{b}", f"tag {a!r} and tag {b!r} are prefixes of one another", "")
    col.notes["literal_tags"] = tags
    col.ok(rule, f"{len(tags)} literal tags are pairwise distinct and prefix-free", "")
    # length prefixes for variable-length scalars
    for name, kw in (("bytes_repr_str", "len("), ("bytes_repr_bytes", "len(")):
        f = A.func(f"{HASH_MOD}.{name}")
        ys = [norm(y.value) for y in _yields(f) if isinstance(y, ast.Yield)]
        if ys and kw in ys[0]:
            col.ok(rule, f"{name}: the payload is length-prefixed (`{ys[0]}`)", A.loc(f.node))
        else:
            col.fail(rule, f.qualname, "payload-not-length-prefixed", f"{name} no longer length-prefixes its payload: adjacent values can be re-split", A.loc(f.node))


def numpy_rule(A: Analysis, col: Collector, rule: str):
    fn = A.repo.functions.get(f"{HASH_MOD}.bytes_repr_numpy")
    if fn is None:
        raise AnalysisError("bytes_repr_numpy not found")
    col.scope(fn.qualname)
    param = fn.params()[0].arg
    yielded_attrs = set()
    for y in _yields(fn):
        for n in ast.walk(y):
            if isinstance(n, ast.Attribute) and isinstance(n.value, ast.Name) and n.value.id == param:
                yielded_attrs.add(n.attr)
    col.notes["numpy_yielded_attributes"] = sorted(yielded_attrs)
    shape_ok = bool(yielded_attrs & {"shape", "__array_interface__", "strides"})
    dtype_ok = bool(yielded_attrs & {"dtype", "__array_interface__"})
    if shape_ok:
        col.ok(rule, "the ndarray serializer's output depends on the array shape", A.loc(fn.node))
    else:
        col.fail(rule, fn.qualname, "numpy-missing:shape", f"the ndarray serializer yields values derived from {sorted(yielded_attrs)} only; the shape is not part of the hash: zeros((2,3)) and zeros((3,2)) hash alike", A.loc(fn.node))
    if dtype_ok:
        col.ok(rule, "the ndarray serializer's output depends on the element dtype", A.loc(fn.node))
    else:
        col.fail(rule, fn.qualname, "numpy-missing:dtype", f"the ndarray serializer yields values derived from {sorted(yielded_attrs)} only; the dtype is not part of the hash: int64 zeros and float64 zeros hash alike", A.loc(fn.node))
    # the bytes must be taken in one canonical element order: memory layout (C / Fortran /
    # strided views) is not content
    layout_dep = []
    for c in A.calls(fn):
        if isinstance(c.func, ast.Attribute) and c.func.attr in ("tobytes", "ravel", "flatten", "tostring", "reshape"):
            o = kwarg(c, "order") or (c.args[0] if c.args and c.func.attr != "reshape" else None)
            if o is not None and not (isinstance(o, ast.Constant) and o.value == "C"):
                layout_dep.append(c)
        if isinstance(c.func, ast.Name) and c.func.id in ("memoryview", "bytes") and c.args and norm(c.args[0]) == param:
            layout_dep.append(c)
    if any(isinstance(a, ast.Attribute) and a.attr == "data" and isinstance(a.value, ast.Name) and a.value.id == param for a in walk_own(fn.node)):
        layout_dep.append(fn.node)
    if layout_dep:
        col.fail(rule, fn.qualname, "numpy-bytes-depend-on-memory-layout", f"`{norm(layout_dep[0], 50)}` serialises the array in its own memory order: arrays with equal shape, dtype and elements but different layout (C vs Fortran order, transposed views) hash differently", A.loc(layout_dep[0]))
    else:
        col.ok(rule, "the element bytes are taken in canonical C order (independent of the array's memory layout)", A.loc(fn.node))
    if yielded_attrs & {"tobytes", "data", "ravel"}:
        col.ok(rule, "the ndarray serializer covers the element bytes", A.loc(fn.node))
    else:
        col.fail(rule, fn.qualname, "numpy-missing:content", "the ndarray serializer does not read the element data", A.loc(fn.node))


def memo_rule(A: Analysis, col: Collector, rule: str):
    hs = A.func(f"{HASH_MOD}.hash_single")
    col.scope(hs.qualname)
    # memo keyed by id(obj)?
    id_keyed = any(isinstance(c.func, ast.Name) and c.func.id == "id" for c in A.calls(hs))
    if not id_keyed:
        col.ok(rule, "hash_single does not key its memo by id()", A.loc(hs.node))
        return
    # does the cache keep the object alive?  a store of `obj` itself into the cache
    param = hs.params()[0].arg
    keeps_ref = False
    for n in walk_own(hs.node):
        if isinstance(n, ast.Call) and isinstance(n.func, ast.Attribute) and n.func.attr in ("append", "add", "keep", "hold") and n.args and isinstance(n.args[0], ast.Name) and n.args[0].id == param:
            keeps_ref = True
        if isinstance(n, ast.Assign) and isinstance(n.value, ast.Name) and n.value.id == param and any(isinstance(t, ast.Subscript) for t in n.targets):
            keeps_ref = True
        if isinstance(n, ast.Assign) and isinstance(n.value, ast.Tuple) and any(isinstance(e, ast.Name) and e.id == param for e in n.value.elts) and any(isinstance(t, ast.Subscript) for t in n.targets):
            keeps_ref = True
    cache_cls = A.cls(f"{HASH_MOD}.Cache")
    for m in cache_cls.methods.values():
        pass
    if keeps_ref:
        # ... for *every* object that gets a memo entry: the reference must be taken on every
        # path that stores a hash under id(obj) (no type-based exemptions: any freed object's id
        # can be reused, including small strings and numbers built on the fly)
        cfg = A.cfg(hs)
        keep_nodes = {n.id for n in cfg.nodes if any(isinstance(c, ast.Call) and isinstance(c.func, ast.Attribute) and c.func.attr in ("append", "add", "keep", "hold") and c.args and isinstance(c.args[0], ast.Name) and c.args[0].id == param for e in n.exprs for c in [e] + list(walk_own(e)))}
        store_nodes = [n for n in cfg.nodes if n.kind == "stmt" and isinstance(n.stmt, ast.Assign) and any(isinstance(t, ast.Subscript) and norm(t.value) == "cache" for t in n.stmt.targets)]
        def guards_of(stmt):
            return [id(p) for p in parents(stmt) if isinstance(p, (ast.If, ast.Try, ast.For, ast.While)) and is_within(p, hs.node)]

        keep_stmts = [n.stmt for n in cfg.nodes if n.id in keep_nodes]
        # unconditional relative to the memo stores: under exactly the same enclosing branches
        if store_nodes and keep_stmts and any(all(guards_of(ks) == guards_of(sn.stmt) or set(guards_of(ks)) <= set(guards_of(sn.stmt)) for sn in store_nodes) for ks in keep_stmts):
            col.ok(rule, "hash_single stores a strong reference to every memoised object (unconditionally): ids cannot be reused while the Cache lives", A.loc(hs.node))
        else:
            keeps_ref = False
            col.fail(rule, hs.qualname, "memo-reference-conditional", "hash_single keeps a reference only for some objects; an exempted object that is freed (e.g. a string or number built on the fly) can have its id reused by a later object, which then inherits its hash", A.loc(hs.node))
    # call sites passing fresh temporaries
    n_sites = 0
    for f in A.repo.all_functions():
        for c in A.calls(f):
            if any(q == f"{HASH_MOD}.hash_single" for q in A.callee_names(c, f)) and c.args:
                n_sites += 1
                a = c.args[0]
                temp = isinstance(a, (ast.List, ast.Tuple, ast.Dict, ast.Set, ast.ListComp, ast.DictComp, ast.SetComp, ast.GeneratorExp, ast.JoinedStr, ast.BinOp))
                if isinstance(a, ast.Call):
                    # constructor-like calls build a fresh object; accessors (getattr, dict.get,
                    # subscripts) hand out an object that is referenced elsewhere
                    last = (dotted(a.func) or norm(a.func)).rsplit(".", 1)[-1]
                    ctor_targets = [t for t in A.resolve(a, f).repo_targets if isinstance(t, ClassInfo)]
                    temp = bool(ctor_targets) or last[:1].isupper() or last in ("list", "tuple", "dict", "set", "frozenset", "sorted", "str", "bytes", "repr", "copy", "deepcopy")
                if temp and not keeps_ref:
                    col.fail(rule, f.qualname, f"temporary-in-id-memo:{norm(a.func if isinstance(a, ast.Call) else a, 30)}", f"`{norm(c, 60)}` passes a freshly constructed temporary to the id()-keyed memo; when it is freed a later object can reuse its id and inherit its hash (context-dependent hash)", A.loc(c))
                else:
                    col.ok(rule, f"{f.qualname}: `{norm(c, 50)}` memoises an object that outlives the call" + (" (strong reference kept)" if keeps_ref else ""), A.loc(c))
    if n_sites < 8:
        raise AnalysisError(f"C08: {n_sites} hash_single call sites; floor 8")
    # recursion placeholder and final store
    stores = [n for n in walk_own(hs.node) if isinstance(n, ast.Assign) and any(isinstance(t, ast.Subscript) and norm(t.value) == "cache" for t in n.targets)]
    if len(stores) >= 2:
        col.ok(rule, "hash_single stores a recursion placeholder before and the final hash after serialisation", A.loc(hs.node))
    else:
        col.fail(rule, hs.qualname, "memo-stores:" + str(len(stores)), "hash_single no longer stores placeholder + final hash", A.loc(hs.node))


@prop(
    "C08",
    technique="table extraction of first-chunk tags from the serializer ASTs (first-yield reachability on CFGs) with pairwise distinctness/prefix-freeness; read-set of the ndarray serializer; memo-soundness rule over all hash_single call sites",
    decides="(a) every registered serializer starts with a constant or class-name tag, literal tags are pairwise distinct and prefix-free, the tag-less repr serializer is registered only for the closed list None/Ellipsis/bool/range, str/bytes payloads are length-prefixed; (b) the ndarray serializer's output depends on shape, dtype and content; (c) the id()-keyed memo cannot hand a freed object's hash to a later object: hash_single keeps a strong reference, or no call site passes a fresh temporary.",
    not_decided="collision-freedom in general (length-prefixing is checked only for str/bytes/long), recursion-placeholder effects on cyclic structures, third-party __bytes_repr__ implementations.",
    level_note="Trusted: blake2b; CPython id() semantics (ids are unique among simultaneously live objects only).",
)
def check_c08(A: Analysis, col: Collector):
    tag_rule(A, col, "C08.tags")
    numpy_rule(A, col, "C08.numpy")
    memo_rule(A, col, "C08.memo")


# --------------------------------------------------------------------------- #
# C07
# --------------------------------------------------------------------------- #

NONDET_CALLS = {
    "hash": "builtin hash() is salted per process for str/bytes",
    "id": "object address",
    "os.getpid": "process id",
    "time.time": "clock",
    "time.monotonic": "clock",
    "datetime.datetime.now": "clock",
    "datetime.now": "clock",
    "uuid.uuid4": "random",
    "uuid.uuid1": "random/clock",
    "random.random": "random",
    "os.urandom": "random",
    "object.__repr__": "address in default repr",
    "socket.gethostname": "host",
    "os.getcwd": "working directory",
    "os.path.abspath": "working directory (a job runs with its cache directory as cwd, so the cache root enters the digest)",
    "os.path.realpath": "working directory / file-system layout",
    "os.path.relpath": "working directory",
    "os.path.expanduser": "home directory",
    "os.path.expandvars": "environment",
    "Path.cwd": "working directory",
    "pathlib.Path.cwd": "working directory",
    "Path.home": "home directory",
    "pathlib.Path.home": "home directory",
}
# method names that read the same ambient state whatever the receiver's (unresolved) type is
AMBIENT_METHODS = {"resolve": "working directory / file-system layout", "absolute": "working directory", "expanduser": "home directory", "cwd": "working directory", "home": "home directory"}


def hashing_closure(A: Analysis) -> list[FuncInfo]:
    roots = [A.func(f"{HASH_MOD}.hash_single"), A.func(f"{HASH_MOD}.hash_object"), A.func(f"{HASH_MOD}.hash_function"), A.func(f"{TASK_MOD}.Task._compute_hashes"), A.cls(f"{TASK_MOD}.Task").find_method("_checksum"), A.cls(f"{TASK_MOD}.Task").find_method("_hash")]
    fns = {f.qualname: f for f in A.closure(roots, limit=400)}
    for f, _ in serializers(A):
        fns[f.qualname] = f
        for g in f.nested.values():
            fns[g.qualname] = g
    # helpers used by serializers
    for q in (f"{HASH_MOD}.bytes_repr_mapping_contents", f"{HASH_MOD}.bytes_repr_sequence_contents"):
        fns[q] = A.func(q)
    return [f for f in fns.values() if f.module.name in (HASH_MOD, TASK_MOD)]


def nondeterminism_rule(A: Analysis, col: Collector, rule: str):
    fns = hashing_closure(A)
    for f in fns:
        col.scope(f.qualname)
    n = 0
    for f in fns:
        for c in A.calls(f):
            names = A.callee_names(c, f)
            bad = names & set(NONDET_CALLS)
            if not bad:
                continue
            n += 1
            which = sorted(bad)[0]
            if which == "id":
                # allowed only as the memo key: the value must flow only into cache subscripts / membership
                st = None
                for p in parents(c):
                    if isinstance(p, ast.stmt):
                        st = p
                        break
                var = st.targets[0].id if isinstance(st, ast.Assign) and isinstance(st.targets[0], ast.Name) else None
                uses_ok = True
                if var:
                    for u in walk_own(f.node):
                        if isinstance(u, ast.Name) and u.id == var and isinstance(u.ctx, ast.Load):
                            par = getattr(u, "_parent", None)
                            ok = (isinstance(par, ast.Subscript) and par.slice is u) or (isinstance(par, ast.Compare) and any(isinstance(o, (ast.In, ast.NotIn)) for o in par.ops))
                            if not ok:
                                uses_ok = False
                else:
                    uses_ok = False
                if uses_ok:
                    col.ok(rule, f"{f.qualname}: id(obj) is used only as the memo key", A.loc(c))
                else:
                    col.fail(rule, f.qualname, "id-flows-into-hash", "the value of id() is used other than as the memo key on the hashing path", A.loc(c))
            else:
                col.fail(rule, f.qualname, f"nondeterministic-source:{which}", f"`{norm(c, 50)}` ({NONDET_CALLS[which]}) is evaluated on the hashing path: the identity differs between sessions", A.loc(c))
        for c in A.calls(f):
            if isinstance(c.func, ast.Attribute) and c.func.attr in AMBIENT_METHODS and not (A.callee_names(c, f) & set(NONDET_CALLS)) and f.module.name == HASH_MOD:
                col.fail(rule, f.qualname, f"nondeterministic-source:.{c.func.attr}()", f"`{norm(c, 50)}` ({AMBIENT_METHODS[c.func.attr]}) is evaluated on the hashing path: the identity of the same input differs between working directories / cache roots", A.loc(c))
        for a in walk_own(f.node):
            if isinstance(a, ast.Attribute) and dotted(a) in ("os.environ",) and f.cls is None and f.name.startswith("bytes_repr"):
                col.fail(rule, f.qualname, "environment-in-serializer", "a serializer reads os.environ", A.loc(a))
    col.notes["hashing_functions_scanned"] = len(fns)
    if len(fns) < 25:
        raise AnalysisError(f"C07: {len(fns)} functions on the hashing path; floor 25")
    col.ok(rule, f"{len(fns)} functions on the hashing path scanned for hash()/id()/time/pid/uuid/random/environ sources", "")


def ordering_rule(A: Analysis, col: Collector, rule: str):
    """iteration over unordered containers must go through a canonical total order."""
    sers = serializers(A)
    n_sets = 0
    for f, regs in sers:
        is_set = any(r in ("set", "frozenset", "Set") for r in regs) or (f.params() and f.params()[0].annotation is not None and norm(f.params()[0].annotation) in ("Set", "set", "frozenset", "ty.Set"))
        if not is_set:
            continue
        n_sets += 1
        col.scope(f.qualname)
        param = f.params()[0].arg
        ok = False
        why = ""
        for c in A.calls(f):
            if isinstance(c.func, ast.Name) and c.func.id == "sorted" and c.args:
                a0 = c.args[0]
                key = kwarg(c, "key")
                if isinstance(a0, ast.Name) and a0.id == param and key is None:
                    why = f"`{norm(c)}` orders the raw elements by their own `<`, which is only a partial order for frozensets (subset relation) and raises TypeError for mixed types such as {{str, None}}"
                elif isinstance(a0, (ast.GeneratorExp, ast.ListComp)) and any(q.endswith("hash_single") or q.endswith("bytes_repr") or q.endswith("hash_object") for k in ast.walk(a0.elt) if isinstance(k, ast.Call) for q in A.callee_names(k, f)):
                    ok = True
                elif key is not None and any(q.endswith("hash_single") or q.endswith("hash_object") for k in ast.walk(key) if isinstance(k, ast.Call) for q in A.callee_names(k, f)):
                    ok = True
        # list of serialised hashes sorted in place: `xs = [hash_single(v) for v in obj]; xs.sort()`
        if not ok and not why:
            for n in walk_own(f.node):
                if isinstance(n, ast.Assign) and isinstance(n.targets[0], ast.Name) and isinstance(n.value, (ast.ListComp, ast.GeneratorExp)) and any(isinstance(g.iter, ast.Name) and g.iter.id == param for g in n.value.generators) and any(q.endswith("hash_single") or q.endswith("bytes_repr") or q.endswith("hash_object") for k in ast.walk(n.value.elt) if isinstance(k, ast.Call) for q in A.callee_names(k, f)):
                    lst = n.targets[0].id
                    sorted_in_place = any(isinstance(c.func, ast.Attribute) and c.func.attr == "sort" and isinstance(c.func.value, ast.Name) and c.func.value.id == lst and kwarg(c, "key") is None for c in A.calls(f))
                    sorted_copy = any(isinstance(c.func, ast.Name) and c.func.id == "sorted" and c.args and isinstance(c.args[0], ast.Name) and c.args[0].id == lst and kwarg(c, "key") is None for c in A.calls(f))
                    if sorted_in_place or sorted_copy:
                        ok = True
        if not ok and not why:
            for lp_ in [n for n in walk_own(f.node) if isinstance(n, ast.For) and isinstance(n.iter, ast.Name) and n.iter.id == param]:
                for c_ in [k for k in ast.walk(lp_) if isinstance(k, ast.Call) and isinstance(k.func, ast.Attribute) and k.func.attr == "append" and isinstance(k.func.value, ast.Name) and k.args]:
                    if any(q.endswith("hash_single") or q.endswith("bytes_repr") or q.endswith("hash_object") for k in ast.walk(c_.args[0]) if isinstance(k, ast.Call) for q in A.callee_names(k, f)):
                        lst = c_.func.value.id
                        if any(isinstance(c.func, ast.Attribute) and c.func.attr == "sort" and isinstance(c.func.value, ast.Name) and c.func.value.id == lst and kwarg(c, "key") is None for c in A.calls(f)):
                            ok = True
        if why:
            ok = False
        if ok:
            col.ok(rule, f"{f.name}: set elements are ordered by their serialised hashes (a total order independent of element `<` and of the hash seed)", A.loc(f.node))
        elif why:
            col.fail(rule, f.qualname, "set-order-by-element-lt", f"{why}: the serialisation of a set of sets depends on iteration order, i.e. on PYTHONHASHSEED", A.loc(f.node))
        else:
            col.fail(rule, f.qualname, "set-iterated-unordered", "the set serializer iterates the set without a canonical order", A.loc(f.node))
    if n_sets < 1:
        raise AnalysisError("C07: set serializer not found")
    m = A.func(f"{HASH_MOD}.bytes_repr_mapping_contents")
    col.scope(m.qualname)
    mparam = m.params()[0].arg

    def _serialises(node):
        return any(q.endswith("hash_single") or q.endswith("bytes_repr") or q.endswith("hash_object") for k in ast.walk(node) if isinstance(k, ast.Call) for q in A.callee_names(k, m))

    def _over_param(node):
        return any(isinstance(k, ast.Name) and k.id == mparam for k in ast.walk(node))

    raw = canon = None
    for c in A.calls(m):
        if isinstance(c.func, ast.Name) and c.func.id == "sorted" and c.args and _over_param(c.args[0]):
            a0 = c.args[0]
            key = kwarg(c, "key")
            if isinstance(a0, (ast.GeneratorExp, ast.ListComp)):
                elt = a0.elt
                first = elt.elts[0] if isinstance(elt, ast.Tuple) and elt.elts else elt
                # (serialised key, value) pairs: ordered by the first component only when a key= selects it
                # (otherwise a tie -- impossible for distinct keys -- would compare the values)
                if _serialises(first):
                    canon = c
                else:
                    raw = c
            elif key is not None and _serialises(key):
                canon = c
            else:
                raw = c
    if raw is None and canon is None:
        for lp_ in [n for n in walk_own(m.node) if isinstance(n, ast.For) and _over_param(n.iter)]:
            for c_ in [k for k in ast.walk(lp_) if isinstance(k, ast.Call) and isinstance(k.func, ast.Attribute) and k.func.attr == "append" and isinstance(k.func.value, ast.Name) and k.args]:
                first_ = c_.args[0].elts[0] if isinstance(c_.args[0], ast.Tuple) and c_.args[0].elts else c_.args[0]
                if _serialises(first_):
                    lst = c_.func.value.id
                    srt_ = [c for c in A.calls(m) if isinstance(c.func, ast.Attribute) and c.func.attr == "sort" and isinstance(c.func.value, ast.Name) and c.func.value.id == lst]
                    if srt_ and (kwarg(srt_[0], "key") is None or "itemgetter(0)" in norm(kwarg(srt_[0], "key")) or "[0]" in norm(kwarg(srt_[0], "key"))):
                        canon = lp_
    iterated_plain = [n for n in walk_own(m.node) if isinstance(n, (ast.For, ast.comprehension)) and _over_param(n.iter) and not any(isinstance(k, ast.Call) and isinstance(k.func, ast.Name) and k.func.id == "sorted" for k in ast.walk(n.iter)) and not any(is_within(n, c) for c in ([canon] if canon else []))]
    if raw is not None:
        col.fail(rule, m.qualname, "mapping-order-by-key-lt", f"`{norm(raw)}` orders the keys by their own `<`, which is only a partial order for frozenset keys (and tuples containing them) and raises TypeError for mixed key types: equal dicts hash differently depending on their insertion order", A.loc(raw))
    elif canon is not None and not iterated_plain:
        col.ok(rule, "bytes_repr_mapping_contents orders the items by their serialised keys (a total order independent of key `<`, insertion order and the hash seed)", A.loc(canon))
    else:
        col.fail(rule, m.qualname, "mapping-iterated-unsorted", "bytes_repr_mapping_contents iterates the mapping in insertion order", A.loc(m.node))
    # generic object serializer: dict of attributes goes through the mapping helper
    g = A.func(f"{HASH_MOD}.bytes_repr")
    if any(any(q.endswith("bytes_repr_mapping_contents") for q in A.callee_names(c, g)) for c in A.calls(g)):
        col.ok(rule, "the generic object serializer emits attributes through the sorted mapping helper", A.loc(g.node))
    else:
        col.fail(rule, g.qualname, "object-attrs-unsorted", "the generic object serializer no longer uses the sorted mapping helper", A.loc(g.node))
    # _compute_hashes: final hash over sorted items
    ch = A.func(f"{TASK_MOD}.Task._compute_hashes")
    rets = [n for n in walk_own(ch.node) if isinstance(n, ast.Return)]
    if rets and "sorted(" in norm(A.expand(rets[0].value, ch)):
        col.ok(rule, "Task._compute_hashes hashes `sorted(field_hashes.items())`", A.loc(rets[0]))
    else:
        col.fail(rule, ch.qualname, "field-hashes-unsorted", "Task._compute_hashes no longer sorts the per-field hashes before hashing them", A.loc(ch.node))


def identity_readset_rule(A: Analysis, col: Collector, rule: str):
    task = A.cls(f"{TASK_MOD}.Task")
    fns = [task.find_method("_checksum"), task.find_method("_hash"), task.find_method("_compute_hashes"), task.find_method("_task_type")]
    forbidden = {"cache_root", "_cache_root", "worker", "submitter", "environment", "audit", "readonly_caches", "uid", "_uid", "cache_dir", "hooks"}
    for f in fns:
        col.scope(f.qualname)
        bad = {n.attr for n in walk_own(f.node) if isinstance(n, ast.Attribute) and n.attr in forbidden}
        bad |= {n.args[1].value for n in walk_own(f.node) if isinstance(n, ast.Call) and dotted(n.func) == "getattr" and len(n.args) >= 2 and isinstance(n.args[1], ast.Constant) and n.args[1].value in forbidden}
        bad |= {q for n in walk_own(f.node) if isinstance(n, ast.Call) for q in A.callee_names(n, f) if q in NONDET_CALLS and q != "id"}
        bad = sorted(bad)
        if bad:
            col.fail(rule, f.qualname, "identity-reads:" + "+".join(bad), f"the task identity reads {bad}: it depends on where / by whom the task is run", A.loc(f.node))
        else:
            col.ok(rule, f"{f.qualname} reads no cache-root / worker / submitter / environment attribute", A.loc(f.node))
    # Job.checksum memo survives pickling: __getstate__ copies __dict__ without dropping _checksum
    job = A.cls("pydra.engine.job.Job")
    gs = job.find_method("__getstate__")
    dropped = set()
    for n in walk_own(gs.node):
        if isinstance(n, ast.Delete):
            for t in n.targets:
                if isinstance(t, ast.Subscript) and isinstance(t.slice, ast.Constant):
                    dropped.add(t.slice.value)
        if isinstance(n, ast.Call) and isinstance(n.func, ast.Attribute) and n.func.attr == "pop" and n.args and isinstance(n.args[0], ast.Constant):
            dropped.add(n.args[0].value)
        if isinstance(n, ast.Assign):
            for t in n.targets:
                if isinstance(t, ast.Subscript) and isinstance(t.slice, ast.Constant) and isinstance(n.value, ast.Constant) and n.value.value is None:
                    dropped.add(t.slice.value)
    if "_checksum" in dropped:
        col.fail(rule, gs.qualname, "checksum-dropped-on-pickle", "Job.__getstate__ drops the memoised checksum", A.loc(gs.node))
    else:
        col.ok(rule, "Job.__getstate__ keeps the memoised _checksum (copy of __dict__)", A.loc(gs.node))


@prop(
    "C07",
    technique="nondeterminism-source analysis over the call-graph closure of the hashing entry points; canonical-order rule for unordered containers; read-set of the task identity",
    decides="(a) no value of hash()/id()/pid/time/uuid/random/os.environ flows into a digest on the hashing path (id() only as memo key); (b) every set serializer orders elements by serialised hashes, not by element `<`; mappings, object attributes and per-field hashes go through sorted iteration; (c) the task identity reads no cache-root / worker / submitter / environment attribute; the job's memoised checksum survives __getstate__.",
    not_decided="third-party serializers (fileformats byte_chunks), bit-level stability of struct/tobytes across platforms.",
    level_note="Trusted: closure computed by class-hierarchy analysis; serializer registration recognised through the register_serializer / singledispatch decorators.",
)
def check_c07(A: Analysis, col: Collector):
    nondeterminism_rule(A, col, "C07.sources")
    ordering_rule(A, col, "C07.order")
    identity_readset_rule(A, col, "C07.identity")


# --------------------------------------------------------------------------- #
# C09
# --------------------------------------------------------------------------- #

# history step -> stat fields (or content) of which at least one changes under it (POSIX)
KEY_SENSITIVITY = {
    "same-size rewrite, mtime restored": {"st_ctime_ns", "st_ctime"},
    "different-size rewrite, mtime restored": {"st_size", "st_ctime_ns", "st_ctime"},
    "rename-over / copy with preserved timestamps": {"st_ctime_ns", "st_ctime", "st_ino"},
    "ordinary rewrite (mtime moves)": {"st_mtime_ns", "st_mtime", "st_ctime_ns", "st_ctime"},
}


def file_key_rule(A: Analysis, col: Collector, rule: str):
    fn = A.func(f"{HASH_MOD}.bytes_repr_fileset")
    col.scope(fn.qualname)
    keys = [y for y in _yields(fn) if isinstance(y, ast.Yield) and isinstance(y.value, ast.Call) and (dotted(y.value.func) or "").endswith("CacheKey")]
    if not keys:
        # the key may be built by a helper of the module: analyse the helper's `return CacheKey(...)` instead
        for y in _yields(fn):
            if isinstance(y, ast.Yield) and isinstance(y.value, ast.Call):
                for h in [t for t in A.rs.resolve_call(y.value, fn).repo_targets if isinstance(t, FuncInfo)]:
                    rk = [r for r in walk_own(h.node) if isinstance(r, ast.Return) and isinstance(r.value, ast.Call) and (dotted(r.value.func) or "").endswith("CacheKey")]
                    if rk:
                        keys = rk
                        fn = h
                        col.scope(h.qualname)
    A.anchor("CacheKey yield in bytes_repr_fileset", keys)
    # only producer of tuple-first chunks
    producers = []
    for f, regs in serializers(A):
        if any(k == "key" for k, _, _ in first_yield_tags(A, f)):
            producers.append(f.qualname)
    col.notes["persistent_key_producers"] = producers
    for y in keys:
        stat_fields = set()
        combined = set()
        for n in ast.walk(y.value):
            if isinstance(n, ast.Attribute) and n.attr.startswith("st_"):
                comb = False
                for p_ in parents(n):
                    if p_ is y.value:
                        break
                    if isinstance(p_, ast.Call) and (dotted(p_.func) or "") in ("max", "min", "sum", "abs", "round", "int", "hash"):
                        comb = True
                    if isinstance(p_, (ast.BinOp, ast.BoolOp, ast.IfExp, ast.Compare)) and not (isinstance(p_, ast.BinOp) and isinstance(p_.op, ast.Add) and isinstance(p_.left, (ast.Tuple, ast.Call)) ):
                        comb = True
                (combined if comb else stat_fields).add(n.attr)
        if combined - stat_fields:
            col.notes["stat_fields_only_in_combined_form"] = sorted(combined - stat_fields)
        reads_path = "repr(" in norm(y.value) or "str(" in norm(y.value) or "fspath" in norm(y.value)
        if reads_path:
            col.ok(rule, "the persistent key contains the file-system paths", A.loc(y))
        else:
            col.fail(rule, fn.qualname, "key-without-paths", "the persistent key no longer contains the file paths", A.loc(y))
        for row, need in KEY_SENSITIVITY.items():
            if stat_fields & need:
                col.ok(rule, f"history step `{row}` changes the key (reads {sorted(stat_fields & need)})", A.loc(y))
            else:
                extra = f" ({sorted(combined - stat_fields)} enter the key only combined with other values, e.g. through max(): a change of one of them can be masked by the other)" if (combined - stat_fields) & need else ""
                col.fail(rule, fn.qualname, "key-insensitive:" + row.split(",")[0].replace(" ", "-").replace("/", ""), f"the persistent-cache key reads only {sorted(stat_fields)} per path as independent components{extra}; under `{row}` the key need not change, so the stored hash of the old content is returned", A.loc(y))
    # which paths are stat-ed: the functions that produce the stats entering the key
    producers_fns = [fn]
    for y in keys:
        for nm in {k.id for k in ast.walk(y.value) if isinstance(k, ast.Name)}:
            for kind, d in A.rs.local_defs(fn).get(nm, []):
                for c in ([k for k in ast.walk(d) if isinstance(k, ast.Call)] if isinstance(d, ast.AST) else []):
                    for g in A.rs.resolve_call(c, fn).repo_targets:
                        if isinstance(g, FuncInfo) and g.module.name == HASH_MOD and g not in producers_fns:
                            producers_fns.append(g)
    stat_calls = {"lstat": [], "stat": []}
    walks = []
    for g in producers_fns:
        col.scope(g.qualname)
        for c in A.calls(g):
            if isinstance(c.func, ast.Attribute) and c.func.attr in stat_calls and not c.args:
                stat_calls[c.func.attr].append(c)
            d_ = dotted(c.func) or ""
            if d_ in ("os.stat", "os.lstat"):
                stat_calls[d_[3:]].append(c)
            if (isinstance(c.func, ast.Attribute) and c.func.attr in ("rglob", "walk")) or d_ in ("os.walk", "os.fwalk"):
                walks.append(c)
    A.anchor("stat calls feeding the persistent key", stat_calls["lstat"] + stat_calls["stat"])
    if walks:
        col.ok(rule, f"the key stats cover everything nested within directory paths (`{norm(walks[0], 40)}`): rewriting a nested file changes the key", A.loc(walks[0]))
    else:
        col.fail(rule, fn.qualname, "key-ignores-nested-directory-content", "only the top-level paths of the file-set are stat-ed: rewriting a file inside a Directory input changes none of the directory's own mtime/ctime/size, so the stored hash of the old tree content is returned", A.loc(keys[0]))
    if stat_calls["stat"]:
        col.ok(rule, "the key stats follow symbolic links (stat() besides lstat()): rewriting a link's target changes the key", A.loc(stat_calls["stat"][0]))
    else:
        col.fail(rule, fn.qualname, "key-ignores-symlink-target", "the paths are stat-ed with lstat() only: for a file given through a symbolic link the key holds the link's stats, which do not change when the target is rewritten, so the stored hash of the old content is returned", A.loc(keys[0]))
    # recency guard promised by the docs
    gh = A.func(f"{HASH_MOD}.PersistentCache.get_or_calculate_hash")
    hs = A.func(f"{HASH_MOD}.hash_single")
    guard = False
    for f in (gh, hs, fn):
        for n in walk_own(f.node):
            if isinstance(n, ast.Call) and (A.callee_names(n, f) & {"time.time", "time.time_ns", "datetime.datetime.now", "datetime.now"}):
                guard = True
    if guard:
        col.ok(rule, "a recency guard compares the file time with the current time before a hash is stored/used", A.loc(gh.node))
    else:
        col.fail(rule, gh.qualname, "no-recency-guard", "docs/source/explanation/hashing-caching.rst promises that cached hashes are used only once the timestamp-resolution period has lapsed since the last modification; neither the key producer nor get_or_calculate_hash compares the file's time stamps with the current time, so a rewrite within the time-stamp granularity keeps the key and returns the stale hash", A.loc(gh.node))
    # get_or_calculate_hash: stored value is the freshly calculated hash, under the lock
    cfg = A.cfg(gh)
    writes = [c for c in A.calls(gh) if isinstance(c.func, ast.Attribute) and c.func.attr == "write_bytes"]
    A.anchor("write_bytes in get_or_calculate_hash", writes)
    for w in writes:
        in_lock = any(isinstance(p, ast.With) for p in parents(w))
        if in_lock and w.args and isinstance(w.args[0], ast.Name):
            defs = [p for k, p in A.rs.local_defs(gh).get(w.args[0].id, []) if k == "assign"]
            if defs and all(isinstance(d, ast.Call) and norm(d.func) == "calculate_hash" for d in defs):
                col.ok(rule, "get_or_calculate_hash stores exactly the freshly calculated hash, under the key's lock", A.loc(w))
                continue
        col.fail(rule, gh.qualname, "stored-hash-provenance", "the value written to the persistent cache is not the freshly calculated hash under the lock", A.loc(w))
    # the store is written in place (write_bytes is not atomic): every read of it happens under the key's lock
    reads = [c for c in A.calls(gh) if isinstance(c.func, ast.Attribute) and c.func.attr in ("read_bytes", "read_text", "open")]
    A.anchor("read of the persistent store in get_or_calculate_hash", reads)
    for r in reads:
        locked = any(isinstance(p_, ast.With) and any(isinstance(it.context_expr, ast.Call) and (dotted(it.context_expr.func) or "").endswith("Lock") for it in p_.items) for p_ in parents(r))
        if locked:
            col.ok(rule, f"`{norm(r)}` reads the stored hash under the key's file lock", A.loc(r))
        else:
            col.fail(rule, gh.qualname, "store-read-outside-lock", f"`{norm(r)}` reads the stored hash without holding the key's lock: the writer fills the file in place under the lock, so a concurrent process can read an empty / partial value and take it for the hash of the file", A.loc(r))


@prop(
    "C09",
    technique="key-sensitivity rule: the set of lstat fields read by the persistent-cache key must intersect, for every history step of a frozen POSIX table, the fields that step changes; presence of the documented recency guard",
    decides="a necessary condition: the persistent file-hash cache returns the stored hash whenever its key is unchanged, so the key (paths + lstat fields, produced only by the FileSet serializer) must change under every history step in the property's quantifier (same-size rewrite / different-size rewrite with restored mtime, rename-over, copy with preserved timestamps), the recency guard promised by the documentation must exist, and the stored value must be the freshly calculated hash.",
    not_decided="file-system timestamp granularity and clock behaviour; content hashing itself (fileformats byte_chunks).",
    level_note="Trusted: POSIX stat semantics table KEY_SENSITIVITY (ctime changes on every inode modification and cannot be set by the user).",
)
def check_c09(A: Analysis, col: Collector):
    file_key_rule(A, col, "C09.key")
