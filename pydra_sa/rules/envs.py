"""Environment rules: C27 (containers: sibling agreement, mount-argument flow, binding
mode monotonicity), C38 (mount lookup compares whole components), C39 (Lmod
environment derives from the caller's environment)."""

from __future__ import annotations

import ast

from ..engine import Analysis
from ..model import AnalysisError, FuncInfo, dotted, norm, walk_own, parents, kwarg, is_within, rejecting_guards, always_raises, shape
from ..report import Collector
from . import prop

ENV_BASE = "pydra.environments.base"


def _container_steps(A: Analysis, fn: FuncInfo) -> dict:
    """extract the protocol facts of a container execute()."""
    facts: dict = {"fn": fn}
    # bindings
    for n in walk_own(fn.node):
        if isinstance(n, ast.Assign) and isinstance(n.value, ast.Call) and isinstance(n.value.func, ast.Attribute) and n.value.func.attr == "get_bindings":
            c = n.value
            facts["bindings_call"] = c
            facts["bindings_args"] = {k.arg: norm(k.value) for k in c.keywords}
            if isinstance(n.targets[0], ast.Tuple) and len(n.targets[0].elts) == 2:
                facts["mounts_var"] = norm(n.targets[0].elts[0])
                facts["values_var"] = norm(n.targets[0].elts[1])
    # mount flags: f-string over mounts.items()
    for n in walk_own(fn.node):
        if isinstance(n, ast.JoinedStr):
            txt = norm(n)
            if ":" in txt and facts.get("mounts_var") and any(isinstance(p, (ast.ListComp, ast.GeneratorExp, ast.For)) and facts["mounts_var"] in norm(p) for p in parents(n)):
                flag = "".join(str(v.value) for v in n.values if isinstance(v, ast.Constant)).split()[0] if any(isinstance(v, ast.Constant) for v in n.values) else ""
                facts["mount_fstring"] = n
                facts["mount_flag"] = flag.strip(":")
                # name-independent shape of the three parts: loop targets of `for k, v in mounts.items()`
                tgt = None
                for p in parents(n):
                    if isinstance(p, (ast.For, ast.comprehension)) and facts["mounts_var"] in norm(p.iter):
                        tgt = p.target
                        break
                    if isinstance(p, (ast.ListComp, ast.GeneratorExp)):
                        for g in p.generators:
                            if facts["mounts_var"] in norm(g.iter):
                                tgt = g.target
                mp = {}
                if isinstance(tgt, ast.Tuple) and len(tgt.elts) == 2 and all(isinstance(e, ast.Name) for e in tgt.elts):
                    mp = {tgt.elts[0].id: "key", tgt.elts[1].id: "val"}
                from ..model import alpha as _alpha

                facts["mount_parts"] = [_alpha(v.value, mp) for v in n.values if isinstance(v, ast.FormattedValue)]
    # working dir
    for c in A.calls(fn):
        if isinstance(c.func, ast.Attribute) and c.func.attr == "extend" and c.args and isinstance(c.args[0], ast.List) and len(c.args[0].elts) == 2 and isinstance(c.args[0].elts[0], ast.Constant) and "cache_dir" in norm(c.args[0].elts[1]):
            facts["workdir_flag"] = c.args[0].elts[0].value
            facts["workdir_expr"] = c.args[0].elts[1]
    # argv
    for c in A.calls(fn):
        if isinstance(c.func, ast.Attribute) and c.func.attr == "_command_args":
            facts["argv_values"] = norm(kwarg(c, "values") or (c.args[0] if c.args else None))
            facts["argv_call"] = c
    for c in A.calls(fn):
        if any(q.endswith("environments.base.execute") for q in A.callee_names(c, fn)):
            facts["execute_call"] = c
    facts["raises_on_rc"] = _raises_on_return_code(fn)
    return facts


def _raises_on_return_code(fn: FuncInfo) -> bool:
    """an `if` on the return code alone (truthiness, `!= 0`, `> 0`; no narrowing conjunct) whose every
    path raises."""

    # the return code: first element unpacked from the result of the executor call, or the 'return_code'
    # entry of the mapping built from it (no dependence on the locals' names)
    exec_vars = {t.id for n in walk_own(fn.node) if isinstance(n, ast.Assign) and isinstance(n.value, ast.Call) and (dotted(n.value.func) or "").endswith("execute") for t in n.targets if isinstance(t, ast.Name)}
    rc_names = set()
    for n in walk_own(fn.node):
        if isinstance(n, ast.Assign) and isinstance(n.targets[0], ast.Tuple) and n.targets[0].elts and isinstance(n.targets[0].elts[0], ast.Name):
            src_is_exec = (isinstance(n.value, ast.Name) and n.value.id in exec_vars) or (isinstance(n.value, ast.Call) and (dotted(n.value.func) or "").endswith("execute"))
            if src_is_exec:
                rc_names.add(n.targets[0].elts[0].id)

    def is_rc(k):
        return (isinstance(k, ast.Name) and k.id in rc_names) or (isinstance(k, ast.Constant) and k.value == "return_code")

    # inverted form: `if not <rc>: return ...` (or `== 0`) and everything after it in the function always raises
    body = fn.node.body
    for i, st in enumerate(body):
        if isinstance(st, ast.If) and not st.orelse and st.body and isinstance(st.body[-1], ast.Return):
            t = st.test
            zero = (isinstance(t, ast.UnaryOp) and isinstance(t.op, ast.Not) and any(is_rc(k) for k in ast.walk(t.operand)) and isinstance(t.operand, (ast.Name, ast.Subscript))) or (isinstance(t, ast.Compare) and len(t.ops) == 1 and isinstance(t.ops[0], ast.Eq) and any(is_rc(k) for k in ast.walk(t.left)) and isinstance(t.comparators[0], ast.Constant) and t.comparators[0].value == 0)
            if zero and always_raises(body[i + 1 :]):
                return True
    for g, extra in rejecting_guards(fn.node, is_rc):
        if extra:
            continue
        t = g.test
        if isinstance(t, (ast.Name, ast.Subscript)):
            return True
        # `!= 0` only: `> 0` lets the negative return code of a process killed by a signal pass as success
        if isinstance(t, ast.Compare) and len(t.ops) == 1 and isinstance(t.ops[0], ast.NotEq) and isinstance(t.comparators[0], ast.Constant) and t.comparators[0].value == 0:
            return True
    return False


@prop(
    "C27",
    technique="sibling agreement of Docker.execute / Singularity.execute (protocol-step extraction), taint rule on mount arguments (path -> join/split re-tokenisation), monotonicity rule on binding-mode assignments",
    decides="(a) both container executes take mounts and remapped values from self.get_bindings(job=job, root=self.root), emit one mount flag per binding carrying host path, container path and mode, set the working directory to root + job.cache_dir, build argv = runtime args + image + job.task._command_args(values=<remapped values>), and raise on a non-zero return code; (b) mount arguments are not re-tokenised (no ' '.join(...).split() over paths); (c) an assignment to bindings[host_path] cannot replace 'rw' by 'ro'; (d) the cache root is bound 'rw' and every container path is f'{root}{host parent}'. Additionally: the look-ups protecting an existing 'rw' binding use the key the store uses; the field loop of get_bindings skips a file-typed field only when its value is unset; the return-code guard is exact (no narrowing conjunct, every path raises).",
    not_decided="path arithmetic on unusual paths, behaviour of the container runtimes.",
    level_note="Trusted: Docker -v / Singularity -B flag syntax host:container:mode.",
)
def check_c27(A: Analysis, col: Collector):
    d = A.func("pydra.environments.docker.Docker.execute")
    s = A.func("pydra.environments.singularity.Singularity.execute")
    fd, fs = _container_steps(A, d), _container_steps(A, s)
    for f, facts in ((d, fd), (s, fs)):
        col.scope(f.qualname)
        name = f.qualname.rsplit(".", 2)[-2]
        if facts.get("bindings_args") == {"job": "job", "root": "self.root"} and "mounts_var" in facts:
            col.ok("C27.agree", f"{name}: mounts, values = self.get_bindings(job=job, root=self.root)", A.loc(facts["bindings_call"]))
        else:
            col.fail("C27.agree", f.qualname, f"bindings-call:{facts.get('bindings_args')}", f"{name}.execute does not obtain (mounts, values) from self.get_bindings(job=job, root=self.root)", A.loc(f.node))
        if facts.get("argv_values") and facts.get("argv_values") == facts.get("values_var"):
            col.ok("C27.agree", f"{name}: argv is built from the remapped values returned by get_bindings", A.loc(facts["argv_call"]))
        else:
            col.fail("C27.agree", f.qualname, f"argv-values:{facts.get('argv_values')}", f"{name}.execute builds the command from `{facts.get('argv_values')}` instead of the remapped values of get_bindings: host paths are passed into the container", A.loc(facts.get("argv_call", f.node)))
        parts = facts.get("mount_parts", [])
        if len(parts) == 3 and parts[0] == "key" and parts[1].endswith("[0]") and parts[2].endswith("[1]"):
            col.ok("C27.agree", f"{name}: one `{facts.get('mount_flag')}` flag per binding: host:container:mode", A.loc(facts["mount_fstring"]))
        else:
            col.fail("C27.agree", f.qualname, f"mount-flag-shape:{parts}", f"{name}.execute's mount flag is not host:container:mode for every binding ({parts})", A.loc(facts.get("mount_fstring", f.node)))
        wd = facts.get("workdir_expr")
        if wd is not None and "self.root" in norm(wd) and "job.cache_dir" in norm(wd) and norm(wd).index("self.root") < norm(wd).index("job.cache_dir"):
            col.ok("C27.agree", f"{name}: working directory `{facts.get('workdir_flag')}` = root + job.cache_dir", A.loc(wd))
        else:
            col.fail("C27.agree", f.qualname, f"workdir:{norm(wd, 40)}", f"{name}.execute's working directory is not <root><job.cache_dir>", A.loc(wd) if wd is not None else A.loc(f.node))
        ec = facts.get("execute_call")
        if ec is not None and ec.args and isinstance(ec.args[0], ast.BinOp):
            txt = norm(ec.args[0])
            order_ok = "_command_args" in txt and "_img" in txt and txt.index("_args") < txt.index("_img") < txt.index("_command_args")
            if order_ok:
                col.ok("C27.agree", f"{name}: executed argv = runtime args + [image] + native command", A.loc(ec))
            else:
                col.fail("C27.agree", f.qualname, "argv-order", f"{name}.execute does not run runtime args + image + native command in that order", A.loc(ec))
        else:
            col.fail("C27.agree", f.qualname, "argv-not-concatenation", f"{name}.execute's executed argv is not runtime args + [image] + command", A.loc(f.node))
        if facts["raises_on_rc"]:
            col.ok("C27.agree", f"{name}: a non-zero return code raises", A.loc(f.node))
        else:
            col.fail("C27.agree", f.qualname, "nonzero-exit-not-raised", f"{name}.execute does not raise on a non-zero return code", A.loc(f.node))
        # (b) re-tokenisation of mount arguments
        retok = []
        for c in A.calls(f):
            if isinstance(c.func, ast.Attribute) and c.func.attr == "split" and not c.args and isinstance(c.func.value, ast.Call) and isinstance(c.func.value.func, ast.Attribute) and c.func.value.func.attr == "join":
                inner = c.func.value
                if facts.get("mounts_var") and facts["mounts_var"] in norm(inner):
                    retok.append(c)
        if retok:
            col.fail("C27.mount-args", f.qualname, "mount-args-joined-and-split", f"{name}.execute builds the mount arguments with ' '.join([...]).split(): a host path containing white space is split into several arguments and the mount is broken", A.loc(retok[0]))
        else:
            col.ok("C27.mount-args", f"{name}: mount arguments are passed as list elements without re-tokenisation", A.loc(f.node))
    # sibling agreement proper
    same = [("bindings_args", "get_bindings arguments"), ("mount_parts", "mount flag parts"), ("argv_values", None)]
    if fd.get("mount_parts") == fs.get("mount_parts") and fd.get("bindings_args") == fs.get("bindings_args"):
        col.ok("C27.agree", "Docker.execute and Singularity.execute agree on bindings source and mount-flag shape", A.loc(d.node))
    else:
        col.fail("C27.agree", "pydra.environments", f"siblings-differ:{fd.get('mount_parts')}|{fs.get('mount_parts')}", "Docker.execute and Singularity.execute disagree on how bindings become mount flags", A.loc(s.node))
    # get_bindings
    gb = A.func(f"{ENV_BASE}.Container.get_bindings")
    col.scope(gb.qualname)
    assigns = []
    # functions that fill the bindings: get_bindings, its nested helpers, and module-level helpers it hands the
    # `bindings` mapping to
    fillers = [gb] + list(gb.nested.values())
    for c in A.calls(gb):
        if any(norm(a) == "bindings" for a in list(c.args) + [k.value for k in c.keywords]):
            for t in A.rs.resolve_call(c, gb).repo_targets:
                if isinstance(t, FuncInfo) and t not in fillers:
                    fillers.append(t)
    for f in fillers:
        for n in walk_own(f.node):
            if isinstance(n, ast.Assign) and isinstance(n.targets[0], ast.Subscript) and norm(n.targets[0].value) == "bindings":
                assigns.append((f, n))
    if len(assigns) < 2:
        raise AnalysisError(f"C27: {len(assigns)} assignments to bindings[...] in get_bindings; floor 2")
    for f, n in assigns:
        key = norm(n.targets[0].slice)
        v = n.value
        mode = v.elts[1] if isinstance(v, ast.Tuple) and len(v.elts) == 2 else None
        if mode is None:
            col.fail("C27.modes", gb.qualname, f"binding-shape:{key}", f"bindings[{key}] is not a (container path, mode) pair", A.loc(n))
            continue
        if isinstance(mode, ast.Constant) and mode.value == "rw":
            col.ok("C27.modes", f"bindings[{key}] is bound 'rw'", A.loc(n))
            if "cache_root" in key:
                col.ok("C27.modes", "the job's cache root is bind-mounted read-write", A.loc(n))
            continue
        # conditional mode: may be 'ro' -> must respect an existing 'rw'
        may_ro = any(isinstance(k, ast.Constant) and k.value == "ro" for k in ast.walk(mode))
        respects = False
        for k in ast.walk(mode):
            if isinstance(k, ast.Call) and isinstance(k.func, ast.Attribute) and k.func.attr == "get" and norm(k.func.value) == "bindings":
                respects = True
            if isinstance(k, ast.Subscript) and norm(k.value) == "bindings":
                respects = True
            if isinstance(k, ast.Compare) and "bindings" in norm(k):
                respects = True
        guarded = any(isinstance(p, ast.If) and "bindings" in norm(p.test) for p in parents(n) if is_within(p, f.node))
        # a preceding statement that upgrades the mode from the existing binding
        prev_upgrade = False
        if isinstance(mode, ast.Name):
            for m in walk_own(f.node):
                if isinstance(m, ast.Assign) and isinstance(m.targets[0], ast.Name) and m.targets[0].id == mode.id and "bindings" in norm(m.value):
                    prev_upgrade = True
                if isinstance(m, ast.If) and "bindings" in norm(m.test) and any(isinstance(k, ast.Assign) and isinstance(k.targets[0], ast.Name) and k.targets[0].id == mode.id for k in ast.walk(m)):
                    prev_upgrade = True
            may_ro = True
        if may_ro and not (respects or guarded or prev_upgrade):
            col.fail("C27.modes", gb.qualname, f"binding-mode-downgrade:{key}", f"`{norm(n, 70)}` overwrites an existing binding of the same host directory unconditionally: a directory already bound 'rw' (copied input or output) becomes 'ro' when a later read-only input lives in it", A.loc(n))
        else:
            col.ok("C27.modes", f"bindings[{key}] keeps an existing 'rw' mode", A.loc(n))
    # the lookups that protect an existing 'rw' binding use the key the store uses: a membership test on
    # another key expression (host_path vs str(host_path)) never matches, and the protection is dead
    for f in fillers:
        stores = {norm(n.targets[0].slice) for n in walk_own(f.node) if isinstance(n, ast.Assign) and isinstance(n.targets[0], ast.Subscript) and norm(n.targets[0].value) == "bindings"}
        lookups = []
        for n in walk_own(f.node):
            if isinstance(n, ast.Compare) and len(n.ops) == 1 and isinstance(n.ops[0], (ast.In, ast.NotIn)) and norm(n.comparators[0]) == "bindings":
                lookups.append((n, norm(n.left)))
            if isinstance(n, ast.Subscript) and isinstance(n.ctx, ast.Load) and norm(n.value) == "bindings":
                lookups.append((n, norm(n.slice)))
            if isinstance(n, ast.Call) and isinstance(n.func, ast.Attribute) and n.func.attr == "get" and norm(n.func.value) == "bindings" and n.args:
                lookups.append((n, norm(n.args[0])))
        for n, k in lookups:
            if not stores:
                continue
            if k in stores:
                col.ok("C27.modes", f"{f.name}: `{norm(n, 40)}` looks the binding up under the key it is stored under (`{k}`)", A.loc(n))
            else:
                col.fail("C27.modes", f.qualname, f"binding-key-mismatch:{shape(n, 30)}", f"`{norm(n, 50)}` looks an existing binding up under `{k}` but bindings are stored under {sorted(stores)}: the keys never compare equal (Path vs str), the test that keeps an existing 'rw' mode is dead and a directory bound read-write by an output / copied input is re-bound 'ro' by a later read-only input in the same directory", A.loc(n))
    # every file-typed field with a value gets its directory bound: the field loop skips on an unset value only
    floops = [l for l in walk_own(gb.node) if isinstance(l, ast.For) and any(q.endswith("get_fields") for c in ast.walk(l.iter) if isinstance(c, ast.Call) for q in A.callee_names(c, gb))]
    A.anchor("loop over the task's fields in get_bindings", floops)
    for l in floops:
        fvar = l.target.id if isinstance(l.target, ast.Name) else None
        for c_ in [n for n in ast.walk(l) if isinstance(n, ast.Continue)]:
            g = next((p_ for p_ in parents(c_) if isinstance(p_, ast.If)), None)
            reads_field = g is not None and any(isinstance(k, ast.Attribute) and isinstance(k.value, ast.Name) and k.value.id == fvar for k in ast.walk(g.test))
            type_skip = g is not None and isinstance(g.test, ast.UnaryOp) and isinstance(g.test.op, ast.Not) and isinstance(g.test.operand, ast.Call) and isinstance(g.test.operand.func, ast.Attribute) and g.test.operand.func.attr == "contains_type" and any(isinstance(k, ast.Name) and k.id == "FileSet" for k in ast.walk(g.test.operand))
            if type_skip:
                col.ok("C27.modes", f"the field loop skips fields whose type holds no FileSet (`{norm(g.test, 60)}`)", A.loc(c_))
            elif g is not None and not reads_field and isinstance(g.test, ast.UnaryOp) and isinstance(g.test.op, ast.Not):
                col.ok("C27.modes", f"the field loop skips a field only when its value is unset (`{norm(g.test)}`)", A.loc(c_))
            else:
                col.fail("C27.modes", gb.qualname, f"file-field-skipped:{shape(g.test, 40) if g is not None else 'unconditional'}", f"`continue` under `{norm(g.test, 60) if g is not None else 'no condition'}` leaves file-typed fields with a value without a bind mount (and without a remapped path): a file that another field's argstr / formatter refers to is not visible inside the container", A.loc(c_))
    cr = [n for f, n in assigns if "cache_root" in norm(n.targets[0].slice)]
    if not cr:
        col.fail("C27.modes", gb.qualname, "cache-root-not-bound", "the cache root is not added to the bindings", A.loc(gb.node))
    # container path = f"{root}{host parent}"
    mp = gb.nested.get("map_path")
    if mp is not None:
        txt = " ".join(norm(n) for n in walk_own(mp.node) if isinstance(n, ast.JoinedStr))
        if "{root}{fileset.parent}" in txt.replace(" ", ""):
            col.ok("C27.modes", "container path of an input is f'{root}{host parent directory}'", A.loc(mp.node))
        else:
            col.fail("C27.modes", mp.qualname, "container-path-shape", "the container path of an input is no longer <root><host parent>", A.loc(mp.node))


# --------------------------------------------------------------------------- #
# C38
# --------------------------------------------------------------------------- #


def _component_wise(A: Analysis, fn: FuncInfo, test: ast.AST) -> tuple[bool, str]:
    """is a prefix test between a path and a mount point component-wise?"""
    for n in [test] + list(ast.walk(test)):
        if isinstance(n, ast.Call) and isinstance(n.func, ast.Attribute):
            a = n.func.attr
            if a in ("is_relative_to",):
                return True, "PurePath.is_relative_to"
            if a == "startswith":
                arg = n.args[0] if n.args else None
                # separator-terminated prefix
                if arg is not None and any(isinstance(k, ast.Constant) and isinstance(k.value, str) and k.value.endswith("/") for k in ast.walk(arg)) or (arg is not None and "os.sep" in norm(arg)):
                    return True, "startswith on a separator-terminated prefix"
                return False, "str.startswith"
        if isinstance(n, ast.Call) and (dotted(n.func) or "").endswith("commonpath"):
            return True, "os.path.commonpath"
        if isinstance(n, ast.Compare) and any(isinstance(o, ast.In) for o in n.ops) and any(isinstance(c, ast.Attribute) and c.attr == "parents" for c in n.comparators):
            return True, "membership in PurePath.parents"
    return False, "none"


@prop(
    "C38",
    technique="API rule on the prefix tests of the mount lookup: the relation between a path and a mount point must be computed component-wise (is_relative_to / commonpath / parents membership / separator-terminated startswith)",
    decides="in MountIndentifier.get_mount and in the CIFS-descendant filter of parse_mount_table the test 'path lies under mount point' compares whole path components; the table is scanned longest mount point first and the first match wins.",
    not_decided="content of the mount table, symlinks, case-insensitive file systems.",
    level_note="Trusted: pathlib.PurePath.is_relative_to compares components.",
)
def check_c38(A: Analysis, col: Collector):
    cls = "pydra.utils.mount_identifier.MountIndentifier"
    gm = A.func(f"{cls}.get_mount")
    col.scope(gm.qualname)
    gens = [n for n in walk_own(gm.node) if isinstance(n, (ast.GeneratorExp, ast.ListComp)) and any("get_mount_table" in norm(g.iter) for g in n.generators)]
    A.anchor("scan of the mount table in get_mount", gens)
    for g in gens:
        conds = g.generators[0].ifs
        if not conds:
            col.fail("C38.prefix", gm.qualname, "mount-scan-unfiltered", "get_mount returns the first table entry without testing that the path lies under it", A.loc(g))
            continue
        ok, how = _component_wise(A, gm, conds[0])
        if ok:
            col.ok("C38.prefix", f"get_mount: path-under-mount test is component-wise ({how})", A.loc(conds[0]))
        else:
            col.fail("C38.prefix", gm.qualname, f"prefix-test:{how}", f"get_mount decides 'path lies under mount point' with `{norm(conds[0], 50)}` ({how}): sibling directories sharing a string prefix (/data and /data2) are confused", A.loc(conds[0]))
        # first match of a longest-first table
        par = getattr(g, "_parent", None)
        if isinstance(par, ast.Call) and dotted(par.func) == "next":
            col.ok("C38.order", "get_mount takes the first match (next(...)) of the table", A.loc(par))
        else:
            col.fail("C38.order", gm.qualname, "not-first-match", "get_mount does not take the first matching entry", A.loc(g))
    pm = A.func(f"{cls}.parse_mount_table")
    col.scope(pm.qualname)
    srt = [c for c in A.calls(pm) if dotted(c.func) == "sorted"]
    good = False
    for c in srt:
        k, r = kwarg(c, "key"), kwarg(c, "reverse")
        if k is not None and "len(" in norm(k) and isinstance(r, ast.Constant) and r.value is True:
            good = True
    if good:
        col.ok("C38.order", "parse_mount_table sorts mount points longest first", A.loc(srt[0]))
    else:
        col.fail("C38.order", pm.qualname, "table-not-longest-first", "the mount table is no longer sorted by mount-point length, longest first: the first match is not the longest prefix", A.loc(pm.node))
    filt = [n for n in walk_own(pm.node) if isinstance(n, ast.ListComp) and n.generators[0].ifs and "cifs_paths" in norm(n.generators[0].ifs[0])]
    A.anchor("CIFS descendant filter in parse_mount_table", filt)
    for n in filt:
        ok, how = _component_wise(A, pm, n.generators[0].ifs[0])
        if ok:
            col.ok("C38.prefix", f"parse_mount_table: descendant-of-CIFS-mount test is component-wise ({how})", A.loc(n))
        else:
            col.fail("C38.prefix", pm.qualname, f"cifs-descendant-test:{how}", f"parse_mount_table decides 'mount lies under a CIFS mount' with `{norm(n.generators[0].ifs[0], 60)}` ({how}): /mnt/share2 is taken for a descendant of the CIFS mount /mnt/share", A.loc(n))


# --------------------------------------------------------------------------- #
# C39
# --------------------------------------------------------------------------- #


@prop(
    "C39",
    technique="def-use rule: the mapping passed as env= to the subprocess call must have os.environ among its reaching definitions, with the module variables applied on top; sibling agreement of the argv with Native.execute",
    decides="(a) in Lmod.execute the dict passed as env= to base.execute derives from os.environ (dict(os.environ) / os.environ.copy() / {**os.environ}) and the variables parsed from the lmod output are assigned into it afterwards; env= reaches subprocess.run through base.execute -> read_and_display (**kwargs forwarding); (b) the argv is job.task._command_args(values=job.inputs) exactly as in Native.execute, and a non-zero return code raises. Additionally: the subprocess wrappers (execute, read_and_display) hand env= on untouched; the return-code guard is exact.",
    not_decided="the regular expression that parses lmod's python output; behaviour of lmod itself.",
    level_note="Trusted: subprocess.run(env=...) replaces the child's environment with exactly the given mapping.",
)
def check_c39(A: Analysis, col: Collector):
    # the subprocess wrappers hand the env= mapping on untouched
    for q in (f"{ENV_BASE}.execute", f"{ENV_BASE}.read_and_display"):
        w = A.func(q)
        col.scope(w.qualname)
        touched = [n for n in walk_own(w.node) if (isinstance(n, ast.Constant) and n.value == "env" and not isinstance(getattr(n, "_parent", None), ast.Expr)) or (isinstance(n, ast.Name) and n.id == "env")]
        # docstrings mention env; only code counts
        touched = [n for n in touched if not (isinstance(getattr(n, "_parent", None), ast.Expr))]
        if touched:
            col.fail("C39.env", w.qualname, "env-rewritten-in-subprocess-wrapper", f"{w.name} takes the `env` mapping out of its keyword arguments and rebuilds it (`{norm(next(p_ for p_ in parents(touched[0]) if isinstance(p_, ast.stmt)), 70)}`): variables can be dropped or altered between Lmod.execute and the subprocess call (e.g. a filter on truthiness drops every variable whose value is the empty string)", A.loc(touched[0]))
        else:
            col.ok("C39.env", f"{w.name} forwards its keyword arguments (env=) to the subprocess call unchanged", A.loc(w.node))
    ex = A.func("pydra.environments.lmod.Lmod.execute")
    col.scope(ex.qualname)
    calls = [c for c in A.calls(ex) if any(q.endswith("environments.base.execute") for q in A.callee_names(c, ex))]
    A.anchor("base.execute(...) call in Lmod.execute", calls)
    for c in calls:
        e = kwarg(c, "env")
        if e is None:
            col.ok("C39.env", "Lmod.execute passes no env= (the child inherits the caller's environment)", A.loc(c))
            continue
        if not isinstance(e, ast.Name):
            roots = A.flow.derives(e, ex)
            if "os.environ" in roots.attrs:
                col.ok("C39.env", "env= derives from os.environ", A.loc(c))
            else:
                col.fail("C39.env", ex.qualname, "env-not-from-os.environ", f"the environment passed to the subprocess (`{norm(e, 40)}`) does not derive from os.environ", A.loc(c))
            continue
        defs = [p for k, p in A.rs.local_defs(ex).get(e.id, []) if k == "assign"]
        from_environ = []
        for dnode in defs:
            r = A.flow.derives(dnode, ex)
            from_environ.append("os.environ" in r.attrs)
        if defs and all(from_environ):
            col.ok("C39.env", f"every definition of `{e.id}` (the env= mapping) derives from os.environ", A.loc(c))
        else:
            col.fail("C39.env", ex.qualname, "env-built-from-module-output-only", f"the mapping passed as env= is initialised by `{norm(defs[0], 30) if defs else '?'}` and holds only the variables printed by lmod: PATH, HOME and every variable the modules do not touch are missing in the child process instead of being passed through", A.loc(defs[0]) if defs else A.loc(c))
        # module variables applied on top
        sets = [n for n in walk_own(ex.node) if isinstance(n, ast.Assign) and isinstance(n.targets[0], ast.Subscript) and norm(n.targets[0].value) == e.id]
        upd = [k for k in A.calls(ex) if isinstance(k.func, ast.Attribute) and k.func.attr == "update" and norm(k.func.value) == e.id]
        if sets or upd:
            col.ok("C39.env", "the variables parsed from the lmod output are written into the mapping", A.loc((sets or upd)[0]))
        else:
            col.fail("C39.env", ex.qualname, "module-variables-not-applied", "the variables set by the modules are not written into the env mapping", A.loc(c))
    # forwarding of env through base.execute -> read_and_display -> sp.run
    be = A.func(f"{ENV_BASE}.execute")
    rd = A.func(f"{ENV_BASE}.read_and_display")
    fwd1 = any(any(k.arg is None and norm(k.value) == "kwargs" for k in c.keywords) for c in A.calls(be) if any(q.endswith("read_and_display") for q in A.callee_names(c, be)))
    fwd2 = any(any(k.arg is None and norm(k.value) == "kwargs" for k in c.keywords) for c in A.calls(rd) if "subprocess.run" in A.callee_names(c, rd))
    if fwd1 and fwd2:
        col.ok("C39.env", "env= is forwarded base.execute -> read_and_display -> subprocess.run via **kwargs", A.loc(be.node))
    else:
        col.fail("C39.env", be.qualname, f"env-not-forwarded:{fwd1}:{fwd2}", "keyword arguments (env=) are not forwarded to subprocess.run", A.loc(be.node))
    # argv agreement with Native
    nat = A.func("pydra.environments.native.Native.execute")

    def argv_values(f):
        for c in A.calls(f):
            if isinstance(c.func, ast.Attribute) and c.func.attr == "_command_args":
                return norm(c.func.value), norm(kwarg(c, "values") or (c.args[0] if c.args else None)), c
        return None, None, None

    a1, a2 = argv_values(ex), argv_values(nat)
    if a1[:2] == a2[:2] == ("job.task", "job.inputs"):
        col.ok("C39.argv", "Lmod.execute and Native.execute build the same argv: job.task._command_args(values=job.inputs)", A.loc(a1[2]))
    else:
        col.fail("C39.argv", ex.qualname, f"argv-differs:{a1[:2]}:{a2[:2]}", f"Lmod.execute builds its argv as {a1[:2]}, Native.execute as {a2[:2]}", A.loc(ex.node))
    # executed argv is that list
    for c in calls:
        if c.args and isinstance(c.args[0], ast.Name):
            d = [p for k, p in A.rs.local_defs(ex).get(c.args[0].id, []) if k == "assign"]
            if d and all(isinstance(p, ast.Call) and isinstance(p.func, ast.Attribute) and p.func.attr == "_command_args" for p in d):
                col.ok("C39.argv", "the list executed is exactly the argv built", A.loc(c))
            else:
                col.fail("C39.argv", ex.qualname, "executed-argv-modified", "the list handed to base.execute is not exactly the result of _command_args", A.loc(c))
    rc = _raises_on_return_code(ex)
    if rc:
        col.ok("C39.argv", "a non-zero return code raises", A.loc(ex.node))
    else:
        col.fail("C39.argv", ex.qualname, "nonzero-exit-not-raised", "Lmod.execute does not raise on a non-zero return code", A.loc(ex.node))
    # modules are loaded: run_lmod_cmd("python", "load", *self.modules)
    ld = [c for c in A.calls(ex) if isinstance(c.func, ast.Attribute) and c.func.attr == "run_lmod_cmd"]
    if ld and [norm(a) for a in ld[0].args] == ["'python'", "'load'", "*self.modules"]:
        col.ok("C39.env", "the requested modules are loaded with `lmod python load <modules>`", A.loc(ld[0]))
    else:
        col.fail("C39.env", ex.qualname, "module-load-command", "Lmod.execute no longer runs `lmod python load *self.modules`", A.loc(ex.node))
