"""Variant tables for the self-validation corpus.  Every variant is a list of textual
edits on the current tree (skipped and counted when its precondition no longer
matches).  kind: 'breaking' (the check must fire; `expect` = substring of the report) or
'benign' (the check must stay silent)."""

from __future__ import annotations

ROUNDTRIP = lambda rel: (rel, "<ROUNDTRIP>", "")

COMMON_BENIGN = {}

VARIANTS: dict[str, list[dict]] = {}


def add(prop, name, kind, edits, expect=None):
    VARIANTS.setdefault(prop, []).append({"name": name, "kind": kind, "edits": edits, "expect": expect})


def variants_for(prop: str) -> list[dict]:
    return list(VARIANTS.get(prop, []))
