"""May-raise model: which exception tokens can leave a statement / a function.

Tokens are exception class names (``ValueError``), or the wildcards
``Exception*`` (some Exception subclass) and ``BaseException*`` (KeyboardInterrupt,
SystemExit, CancelledError -- things ``except Exception`` does not stop).

Frozen tables (each row with its reason) say which *external* operations are
treated as total, and which attributes hold *user-supplied* callables.  Everything
else is derived from the repository: explicit ``raise`` statements not caught
locally, propagated over resolved callees to a fixpoint (raise summaries).
"""

from __future__ import annotations

import ast
import typing as ty

from .model import Repo, FuncInfo, ClassInfo, dotted, norm, walk_own, parents
from .resolve import Resolver
from .cfg import ANY_E, ANY_B, catches, handler_names, Node

# external callables that do not raise in the modelled semantics -- reason per row
TOTAL_EXTERNAL = {
    "os.getcwd": "returns the cwd; failure only if cwd was deleted (out of model)",
    "sys.exc_info": "pure accessor",
    "traceback.format_exception": "pure formatting of an existing exception",
    "traceback.format_exc": "pure formatting",
    "datetime.datetime.now": "clock read",
    "datetime.now": "clock read",
    "time.time": "clock read",
    "logging.getLogger": "registry lookup",
    "isinstance": "pure builtin",
    "issubclass": "pure builtin on classes",
    "len": "pure builtin on containers",
    "bool": "pure builtin",
    "id": "pure builtin",
    "type": "pure builtin",
    "repr": "pure builtin (repo reprs are f-strings)",
    "str": "pure builtin",
    "list": "container copy",
    "dict": "container copy",
    "set": "container copy",
    "tuple": "container copy",
    "frozenset": "container copy",
    "sorted": "sorting of homogeneous keys (not on the audited paths otherwise)",
    "enumerate": "iterator wrapper",
    "zip": "iterator wrapper",
    "range": "iterator",
    "reversed": "iterator wrapper",
    "any": "pure builtin (its argument's calls are scanned separately)",
    "all": "pure builtin (its argument's calls are scanned separately)",
    "hasattr": "pure builtin",
    "print": "diagnostic output",
    "copy.copy": "shallow copy of plain containers",
    "uuid.uuid4": "random id",
    "collections.defaultdict": "constructor",
    "pathlib.Path": "pure path construction",
    "super": "pure builtin",
    "min": "pure builtin",
    "max": "pure builtin",
    "sum": "pure builtin",
    "float": "constant conversion on the audited paths",
    "int": "constant conversion on the audited paths",
    "asyncio.Task": "scheduling only; the coroutine's exceptions surface at .result()",
    "filelock.SoftFileLock": "constructor only; acquisition happens in __enter__ (with-enter node)",
    "getattr": "attribute read on repo objects / with default",
}

# method names on builtin containers / strings / loggers / paths that are total
TOTAL_METHODS = {
    "append", "extend", "items", "keys", "values", "get", "update", "add", "copy",
    "startswith", "endswith", "join", "format", "encode", "strip", "rstrip", "lstrip",
    "split", "splitlines", "lower", "upper", "replace", "setdefault", "discard",
    "debug", "info", "warning", "error", "exception", "critical", "log",
    "with_suffix", "with_name", "is_absolute", "intersection", "union", "difference",
    "issuperset", "issubset", "isdigit", "insert", "reverse", "sort", "count", "clear",
    "add_note", "hex", "total_seconds", "is_running", "get_name", "is_closed",
}

# attributes that hold user-supplied callables: calling them runs arbitrary user
# code, which may raise anything, including KeyboardInterrupt / SystemExit
USER_CALLABLE_ATTRS = {
    "pre_run": "TaskHooks field",
    "pre_run_task": "TaskHooks field",
    "post_run_task": "TaskHooks field",
    "post_run": "TaskHooks field",
    "function": "python task body",
    "formatter": "shell field formatter",
    "callable": "shell output callable",
    "send": "messenger plug-in",
}

# repo functions that run the task body (user code / subprocess)
TASK_BODY_NAMES = {"_run", "_run_async"}


class RaiseModel:
    def __init__(self, repo: Repo, resolver: Resolver, depth: int = 4):
        self.repo = repo
        self.rs = resolver
        self.depth = depth
        self._summary: dict[str, set[str]] = {}
        self._computing: set[str] = set()
        self.assumptions_used: set[str] = set()

    # ---------------------------------------------------------------- tokens
    def class_token(self, expr: ast.AST | None, fn: FuncInfo | None) -> str:
        """token for `raise <expr>`."""
        if expr is None:
            return "<reraise>"
        e = expr.func if isinstance(expr, ast.Call) else expr
        d = dotted(e)
        if d is None:
            return ANY_E
        short = d.rsplit(".", 1)[-1]
        if fn is not None and self.rs._is_local(e, fn) and isinstance(e, ast.Name):
            # `raise exc` of a caught/constructed exception object
            defs = self.rs.local_defs(fn).get(e.id, [])
            for k, payload in defs:
                if k == "except" and payload is not None:
                    names = handler_names(ast.ExceptHandler(type=payload, name=None, body=[]))
                    if names and len(names) == 1:
                        return ANY_E if names[0] == "Exception" else names[0]
                if k == "assign" and isinstance(payload, ast.Call):
                    return self.class_token(payload, None)
            return ANY_E
        if short == "Exception":
            return ANY_E
        if short == "BaseException":
            return ANY_B
        return short

    def call_tokens(self, call: ast.Call, fn: FuncInfo | None, depth: int | None = None) -> set[str]:
        depth = self.depth if depth is None else depth
        res = self.rs.resolve_call(call, fn)
        f = call.func
        attr = f.attr if isinstance(f, ast.Attribute) else None
        out: set[str] = set()
        if attr in USER_CALLABLE_ATTRS and not res.repo_targets:
            return {ANY_E, ANY_B}
        if res.repo_targets:
            for t in res.repo_targets:
                if isinstance(t, ClassInfo):
                    init = t.find_method("__init__")
                    post = t.find_method("__attrs_post_init__")
                    for g in (init, post):
                        if g is not None:
                            out |= self.summary(g, depth - 1)
                    if t.is_attrs and self._attrs_has_converters(t):
                        out.add(ANY_E)
                else:
                    out |= self.summary(t, depth - 1)
                    if t.name in TASK_BODY_NAMES:
                        out |= {ANY_E, ANY_B}
            return out
        for name in res.ext_names:
            if name in TOTAL_EXTERNAL:
                continue
            if name == "os.chdir" and self._is_saved_cwd(call, fn):
                # restoring the directory the process was in at entry: fails only if that
                # directory was removed meanwhile (same out-of-model case as os.getcwd)
                continue
            last = name.rsplit(".", 1)[-1]
            if last in TOTAL_METHODS and "." in name:
                continue
            out.add(ANY_E)
        if res.kind in ("unresolved", "local") and not res.targets:
            if attr is not None and attr in TOTAL_METHODS:
                return out
            if attr is None and isinstance(f, ast.Name):
                # local callable variable: user-ish
                out |= {ANY_E, ANY_B}
            else:
                out.add(ANY_E)
        return out

    def _is_saved_cwd(self, call: ast.Call, fn: FuncInfo | None) -> bool:
        if fn is None or len(call.args) != 1 or not isinstance(call.args[0], ast.Name):
            return False
        defs = self.rs.local_defs(fn).get(call.args[0].id, [])
        return bool(defs) and all(
            k == "assign" and isinstance(p, ast.Call) and "os.getcwd" in self.rs.callee_names(p, fn) for k, p in defs
        )

    def _attrs_has_converters(self, c: ClassInfo) -> bool:
        for k in c.mro():
            for node in k.class_assigns.values():
                v = getattr(node, "value", None)
                if isinstance(v, ast.Call) and any(kw.arg in ("converter", "validator") for kw in v.keywords):
                    return True
        return False

    def property_tokens(self, attr_node: ast.Attribute, fn: FuncInfo | None, depth: int | None = None) -> set[str]:
        """tokens raised by reading a repo @property."""
        depth = self.depth if depth is None else depth
        if not isinstance(attr_node.ctx, ast.Load):
            return set()
        base = self.rs.type_of(attr_node.value, fn)
        out: set[str] = set()
        for c in base.inst:
            m = c.find_method(attr_node.attr)
            cands = [m] if m is not None else []
            cands += [s.methods[attr_node.attr] for s in c.all_subclasses() if attr_node.attr in s.methods]
            for g in cands:
                if g.is_property_getter:
                    out |= self.summary(g, depth - 1)
        return out

    def expr_tokens(self, expr: ast.AST, fn: FuncInfo | None, depth: int | None = None, skip=None) -> set[str]:
        out: set[str] = set()
        nodes = [expr] + list(walk_own(expr))
        for n in nodes:
            if isinstance(n, ast.Lambda):
                continue
            if skip is not None and skip(n):
                continue
            if isinstance(n, ast.Call):
                out |= self.call_tokens(n, fn, depth)
            elif isinstance(n, ast.Attribute):
                out |= self.property_tokens(n, fn, depth)
            elif isinstance(n, ast.Await):
                out |= {ANY_E, ANY_B}
            elif isinstance(n, ast.Assert):
                out.add("AssertionError")
        return out

    def node_tokens(self, node: Node, fn: FuncInfo | None, skip=None) -> set[str]:
        """tokens a CFG node may raise.  `skip(ast_node)` excludes sub-expressions a rule
        has proven total at this point (e.g. reads of an already memoised property)."""
        if node.kind == "raise":
            s: ast.Raise = node.stmt  # type: ignore[assignment]
            tok = self.class_token(s.exc, fn)
            if tok == "<reraise>":
                return self._reraise_tokens(s)
            return {tok}
        out: set[str] = set()
        for e in node.exprs:
            out |= self.expr_tokens(e, fn, skip=skip)
        if node.kind == "assert":
            out.add("AssertionError")
        if node.kind == "with_enter":
            out.add(ANY_E)  # __enter__ / __aenter__ of the context manager
            if isinstance(node.stmt, ast.AsyncWith):
                out.add(ANY_B)
        return out

    def _reraise_tokens(self, s: ast.Raise) -> set[str]:
        for p in parents(s):
            if isinstance(p, ast.ExceptHandler):
                names = handler_names(p)
                if names is None or "BaseException" in names:
                    return {ANY_E, ANY_B}
                out = set()
                for n in names:
                    out.add(ANY_E if n == "Exception" else n)
                return out
            if isinstance(p, (ast.FunctionDef, ast.AsyncFunctionDef)):
                break
        return {ANY_E}

    # -------------------------------------------------------------- summaries
    def summary(self, fn: FuncInfo, depth: int | None = None) -> set[str]:
        """exception tokens that may leave `fn` (explicit raises not caught locally and
        whatever its callees' summaries let through)."""
        depth = self.depth if depth is None else depth
        if fn.qualname in self._summary:
            return self._summary[fn.qualname]
        if fn.qualname in self._computing or depth <= 0:
            return {ANY_E}  # recursion / bound: conservative
        self._computing.add(fn.qualname)
        out: set[str] = set()
        try:
            for n in walk_own(fn.node):
                toks: set[str] = set()
                if isinstance(n, ast.Raise):
                    t = self.class_token(n.exc, fn)
                    toks = self._reraise_tokens(n) if t == "<reraise>" else {t}
                elif isinstance(n, ast.Call):
                    toks = self.call_tokens(n, fn, depth)
                elif isinstance(n, ast.Attribute):
                    toks = self.property_tokens(n, fn, depth)
                elif isinstance(n, ast.Await):
                    toks = {ANY_E, ANY_B}
                elif isinstance(n, ast.Assert):
                    toks = {"AssertionError"}
                elif isinstance(n, (ast.With, ast.AsyncWith)):
                    toks = {ANY_E}
                if toks:
                    out |= self._filter_local_handlers(n, toks, fn)
            if fn.is_generator:
                # a generator function's body runs at iteration time, not call time; the
                # consumers iterate inside the same statement in this code base, so keep it
                pass
        finally:
            self._computing.discard(fn.qualname)
        self._summary[fn.qualname] = out
        return out

    def _filter_local_handlers(self, node: ast.AST, toks: set[str], fn: FuncInfo) -> set[str]:
        """drop tokens that an enclosing try of the same function must catch."""
        cur = set(toks)
        child = node
        for p in parents(node):
            if p is fn.node:
                break
            if isinstance(p, ast.Try) and any(child is s for s in p.body):
                survivors = set()
                for t in cur:
                    stopped = False
                    for h in p.handlers:
                        if catches(handler_names(h), t) == "must":
                            stopped = True
                            break
                    if not stopped:
                        survivors.add(t)
                cur = survivors
                if not cur:
                    break
            child = p
        return cur

    # ------------------------------------------------------------ conveniences
    def tokens_fn(self, fn: FuncInfo, skip=None) -> ty.Callable[[Node], set[str]]:
        cache: dict[int, set[str]] = {}

        def f(node: Node) -> set[str]:
            if node.id not in cache:
                sk = (lambda a, _n=node: skip(_n, a)) if skip is not None else None
                cache[node.id] = self.node_tokens(node, fn, skip=sk)
            return cache[node.id]

        return f
