"""Findings, obligations, known-findings matching, evidence files."""

from __future__ import annotations

import json
import os
import re
import time
from dataclasses import dataclass, field, asdict
from pathlib import Path
import typing as ty

VERIF = Path(__file__).resolve().parent.parent
KNOWN_FILE = VERIF / "known_findings.json"
EVIDENCE_DIR = VERIF / "evidence"
OUT_DIR = Path(os.environ.get("PYDRA_SA_OUT") or (VERIF / "out"))


@dataclass
class Finding:
    prop: str
    rule: str  # rule id, e.g. "C35.cwd"
    func: str  # qualname of the construct's enclosing function / class
    sig: str  # semantic signature, stable under reformatting / renaming of locals
    message: str
    loc: str = ""  # file:line, display only -- never part of the identity
    witness: list = field(default_factory=list)

    @property
    def key(self) -> str:
        return f"{self.rule}|{self.func}|{self.sig}"

    def to_json(self) -> dict:
        d = asdict(self)
        d["key"] = self.key
        return d


@dataclass
class Obligation:
    rule: str
    construct: str  # what was decided (function / call site / table row)
    loc: str
    ok: bool
    detail: str = ""

    def to_json(self) -> dict:
        return asdict(self)


class Collector:
    """Per-run accumulator handed to the rules."""

    def __init__(self, prop: str, tier: str):
        self.prop = prop
        self.tier = tier
        self.findings: list[Finding] = []
        self.obligations: list[Obligation] = []
        self.assumptions: list[str] = []
        self.notes: dict[str, ty.Any] = {}
        self.scope_functions: set[str] = set()
        self.calls_resolved = 0
        self.calls_unresolved = 0
        self.paths_explored = 0

    # a rule instance that held
    def ok(self, rule: str, construct: str, loc: str = "", detail: str = ""):
        self.obligations.append(Obligation(rule, construct, loc, True, detail))

    # a rule instance that failed
    def fail(self, rule: str, func: str, sig: str, message: str, loc: str = "", witness: list | None = None, construct: str | None = None):
        f = Finding(self.prop, rule, func, sig, message, loc, witness or [])
        # identical key twice = same finding (multiplicity is carried in the signature)
        if not any(g.key == f.key for g in self.findings):
            self.findings.append(f)
        self.obligations.append(Obligation(rule, construct or f"{func} :: {sig}", loc, False, message))

    def assume(self, text: str):
        if text not in self.assumptions:
            self.assumptions.append(text)

    def scope(self, *qualnames: str):
        self.scope_functions.update(qualnames)


def load_known() -> dict:
    if not KNOWN_FILE.exists():
        return {"findings": [], "fixed": []}
    return json.loads(KNOWN_FILE.read_text())


def known_for(prop: str) -> dict[str, dict]:
    k = load_known()
    return {e["key"]: e for e in k.get("findings", []) if prop in e.get("properties", [e.get("property")])}


def write_evidence(
    prop: str,
    tier: str,
    seed: int,
    col: Collector,
    wall: float,
    explanation: str,
    violations: int,
    known_printed: list[str],
    repo_stats: dict,
    extra: dict | None = None,
):
    EVIDENCE_DIR.mkdir(exist_ok=True)
    constructs = []
    seen = set()
    for o in col.obligations:
        k = (o.rule, o.construct)
        if k in seen:
            continue
        seen.add(k)
        constructs.append(o)
    samples = [
        {"rule": o.rule, "construct": o.construct, "loc": o.loc, "held": o.ok, **({"detail": o.detail} if o.detail else {})}
        for o in constructs[:60]
    ]
    cov = {
        "explanation": explanation,
        "evaluations": len(col.obligations),
        "distinct_nontrivial": len(constructs),
        "rule": "one evaluation = one rule instance decided on a resolved construct of /repo's current source "
        "(call site, CFG path query, table row, flow); distinct = distinct (rule, construct) pairs; "
        "non-trivial = the rule's pattern actually matched that construct (vacuous rules fail the floor check instead)",
        "samples": samples,
        "obligations": len(col.obligations),
        "discharged": sum(1 for o in col.obligations if o.ok),
        "files_parsed": repo_stats.get("files"),
        "functions_parsed": repo_stats.get("functions"),
        "classes_parsed": repo_stats.get("classes"),
        "source_digest": repo_stats.get("digest"),
        "scope_functions": sorted(col.scope_functions),
        "calls_resolved": col.calls_resolved,
        "calls_unresolved": col.calls_unresolved,
        "abstract_states_explored": col.paths_explored,
        "known_findings_printed": known_printed,
        "exhaustive": True,
    }
    cov.update(col.notes)
    if extra:
        cov.update(extra)
    ev = {
        "property_id": prop,
        "tier": tier,
        "seed": seed,
        "level": "other",
        "coverage": cov,
        "assumptions": col.assumptions,
        "wall_s": round(wall, 3),
        "violations": violations,
    }
    path = EVIDENCE_DIR / f"{prop}.json"
    tmp = path.with_suffix(".json.tmp")
    tmp.write_text(json.dumps(ev, indent=1, default=str))
    os.replace(tmp, path)
    return path


def write_replay(prop: str, finding: Finding, repo_root: str) -> Path:
    OUT_DIR.mkdir(exist_ok=True)
    slug = re.sub(r"[^A-Za-z0-9_.-]+", "_", finding.key)[:120]
    p = OUT_DIR / f"{prop}-{slug}.json"
    p.write_text(json.dumps({"property": prop, "repo": repo_root, "finding": finding.to_json()}, indent=1))
    return p
