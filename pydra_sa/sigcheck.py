"""Resolved-call pass: arity / keyword agreement of call sites with the signature of
the repo function or class they resolve to (attrs classes get a synthesised
``__init__``), attribute existence on values of known repo classes."""

from __future__ import annotations

import ast
from dataclasses import dataclass, field

from .model import ClassInfo, FuncInfo, dotted, kwarg, walk_own, norm


@dataclass
class Param:
    name: str
    required: bool
    kw_only: bool = False
    pos_only: bool = False


@dataclass
class Signature:
    params: list[Param]
    var_pos: bool = False
    var_kw: bool = False
    origin: str = ""


def _is_field_call(v: ast.AST | None) -> bool:
    if not isinstance(v, ast.Call):
        return False
    d = dotted(v.func) or ""
    return d in ("attrs.field", "attr.ib", "attr.field", "field", "attrs.Factory") and d != "attrs.Factory"


def attrs_fields(c: ClassInfo) -> list[tuple[str, bool, bool, bool]] | None:
    """[(attr name, has_default, kw_only, init)] in definition order for one class."""
    auto = True
    kw_only_cls = False
    for d in c.node.decorator_list:
        if isinstance(d, ast.Call):
            a = kwarg(d, "auto_attribs")
            if isinstance(a, ast.Constant) and a.value is False:
                auto = False
            k = kwarg(d, "kw_only")
            if isinstance(k, ast.Constant) and k.value is True:
                kw_only_cls = True
    default_decorated = set()
    for m in c.methods.values():
        for dn in m.decorators:
            if dn.endswith(".default"):
                default_decorated.add(dn.rsplit(".", 1)[0])
    out = []
    for s in c.node.body:
        name = None
        value = None
        annotated = False
        if isinstance(s, ast.AnnAssign) and isinstance(s.target, ast.Name):
            name, value, annotated = s.target.id, s.value, True
            ann = norm(s.annotation)
            if "ClassVar" in ann:
                continue
        elif isinstance(s, ast.Assign) and len(s.targets) == 1 and isinstance(s.targets[0], ast.Name):
            name, value = s.targets[0].id, s.value
        if name is None:
            continue
        is_field = _is_field_call(value)
        if not is_field and not (auto and annotated):
            continue
        has_default = False
        kw_only = kw_only_cls
        init = True
        if is_field:
            assert isinstance(value, ast.Call)
            if kwarg(value, "default") is not None or kwarg(value, "factory") is not None:
                has_default = True
            k = kwarg(value, "kw_only")
            if isinstance(k, ast.Constant):
                kw_only = bool(k.value)
            i = kwarg(value, "init")
            if isinstance(i, ast.Constant) and i.value is False:
                init = False
        elif value is not None:
            has_default = True
        if name in default_decorated:
            has_default = True
        out.append((name, has_default, kw_only, init))
    return out


def class_signature(c: ClassInfo) -> Signature | None:
    init = c.find_method("__init__")
    if init is not None:
        return func_signature(init, bound=True)
    if not any(k.is_attrs for k in c.mro()):
        if c.has_external_base():
            return None
        return Signature([], origin=f"{c.qualname} (no __init__)")
    params: list[Param] = []
    for k in reversed(c.mro()):
        if not k.is_attrs:
            continue
        for name, has_default, kw_only, init_ in attrs_fields(k) or []:
            if not init_:
                continue
            pname = name.lstrip("_")
            params = [p for p in params if p.name != pname]
            params.append(Param(pname, not has_default, kw_only))
    if c.has_external_base():
        return None
    return Signature(params, origin=f"attrs-synthesised __init__ of {c.qualname}")


def func_signature(f: FuncInfo, bound: bool | None = None) -> Signature:
    a = f.node.args
    params: list[Param] = []
    pos = list(a.posonlyargs) + list(a.args)
    n_def = len(a.defaults)
    for i, arg in enumerate(pos):
        required = i < len(pos) - n_def
        params.append(Param(arg.arg, required, False, arg in a.posonlyargs))
    for arg, d in zip(a.kwonlyargs, a.kw_defaults):
        params.append(Param(arg.arg, d is None, True))
    if bound is None:
        bound = f.cls is not None and not f.is_staticmethod
    if bound and params:
        params = params[1:]
    return Signature(params, a.vararg is not None, a.kwarg is not None, origin=f.qualname)


def check_call(call: ast.Call, sig: Signature) -> list[tuple[str, str]]:
    """[(kind, detail)] mismatches; empty when the call fits the signature."""
    out = []
    if any(isinstance(x, ast.Starred) for x in call.args) or any(k.arg is None for k in call.keywords):
        return out  # *args / **kwargs at the call site: cannot decide
    names = {p.name: p for p in sig.params}
    positional = [p for p in sig.params if not p.kw_only]
    npos = len(call.args)
    if npos > len(positional) and not sig.var_pos:
        out.append(("too-many-positional", f"{npos} positional arguments, {len(positional)} accepted"))
    bound = set(p.name for p in positional[:npos])
    for k in call.keywords:
        if k.arg not in names:
            if not sig.var_kw:
                out.append(("unknown-keyword", k.arg))
        elif names[k.arg].pos_only:
            out.append(("positional-only-as-keyword", k.arg))
        elif k.arg in bound:
            out.append(("duplicate-argument", k.arg))
        else:
            bound.add(k.arg)
    for p in sig.params:
        if p.required and p.name not in bound:
            out.append(("missing-required", p.name))
    return out
