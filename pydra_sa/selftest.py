"""Self-validation corpus (thorough tier): AST/text-computed edits applied to a scratch
copy of the *current* tree; breaking variants must make the property's check fire and
name the instance, benign twins must leave it silent.  See pydra_sa/corpus.py for the
variant tables."""

from __future__ import annotations

import os
import shutil
import subprocess
import sys
import tempfile
from concurrent.futures import ThreadPoolExecutor
from pathlib import Path

VERIF = Path(__file__).resolve().parent.parent


def _apply(root: Path, edits) -> bool:
    """edits: list of (relpath, old, new) textual replacements (first occurrence); a
    callable new receives the old text.  Returns False when a precondition fails."""
    for rel, old, new in edits:
        p = root / rel
        if not p.exists():
            return False
        s = p.read_text()
        if old == "<ROUNDTRIP>":
            import ast

            s2 = ast.unparse(ast.parse(s))
        else:
            if s.count(old) < 1:
                return False
            s2 = s.replace(old, new, 1)
        try:
            compile(s2, str(p), "exec")
        except SyntaxError:
            return False
        p.write_text(s2)
    return True


def _run_variant(prop: str, repo_root: str, variant: dict, base_keys: set[str]) -> dict:
    d = tempfile.mkdtemp(prefix=f"pydra_sa_var_{prop}_")
    try:
        shutil.copytree(Path(repo_root) / "pydra", Path(d) / "pydra", ignore=shutil.ignore_patterns("tests", "__pycache__", "*.pyc"))
        if variant.get("patch"):
            ap = subprocess.run(["git", "apply", "--unsafe-paths", "--directory", d, variant["patch"]], cwd=d, capture_output=True, text=True)
            if ap.returncode != 0:
                ap = subprocess.run(["patch", "-p1", "-s", "-i", variant["patch"]], cwd=d, capture_output=True, text=True)
            if ap.returncode != 0:
                return {"name": variant["name"], "status": "skipped (patch no longer applies)"}
        elif not _apply(Path(d), variant["edits"]):
            return {"name": variant["name"], "status": "skipped (precondition no longer matches)"}
        env = dict(os.environ, PYDRA_SA_NO_SELFVAL="1", PYDRA_SA_OUT=str(Path(d) / "_out"))
        r = subprocess.run([sys.executable, "-m", "pydra_sa.check", prop, "--repo", d, "--no-write", "--tier", "quick"], cwd=str(VERIF), capture_output=True, text=True, env=env)
        fired = r.returncode == 1 and f"VIOLATION property={prop}" in r.stdout
        lines = [l.strip() for l in r.stdout.splitlines() if l.startswith("  ") and not l.startswith("      ")]
        expect = variant.get("expect")
        named = True
        if fired and expect:
            import re as _re

            nz = lambda t: _re.sub(r"[^A-Za-z0-9]+", "_", t)
            named = any(nz(expect) in nz(l) for l in r.stdout.splitlines())
        return {"name": variant["name"], "kind": variant["kind"], "exit": r.returncode, "fired": fired, "named": named, "first": (lines[0][:200] if lines else r.stdout.strip()[-200:])}
    finally:
        shutil.rmtree(d, ignore_errors=True)


def _patch_variants() -> list[dict]:
    """behaviour-preserving refactorings kept as patches under /verif/benign (see its README)"""
    out = []
    for d in sorted((VERIF / "benign").glob("*/patch.diff")):
        out.append({"name": f"benign patch {d.parent.name}", "kind": "benign", "edits": [], "patch": str(d)})
    return out


def run_corpus(prop: str, repo_root: str, seed: int = 0) -> dict:
    from .corpus import variants_for

    variants = variants_for(prop) + _patch_variants()
    import random

    rnd = random.Random(seed)
    rnd.shuffle(variants)
    results = []
    with ThreadPoolExecutor(max_workers=min(16, max(1, len(variants)))) as ex:
        for res in ex.map(lambda v: _run_variant(prop, repo_root, v, set()), variants):
            results.append(res)
    breaking = [r for r in results if r.get("kind") == "breaking"]
    benign = [r for r in results if r.get("kind") == "benign"]
    skipped = [r for r in results if "status" in r]
    killed = [r for r in breaking if r["fired"] and r["named"]]
    silent = [r for r in benign if r["exit"] == 0]
    failures = [r for r in breaking if not (r["fired"] and r["named"])] + [r for r in benign if r["exit"] != 0]
    return {
        "breaking_variants": len(breaking),
        "killed": len(killed),
        "benign_variants": len(benign),
        "benign_silent": len(silent),
        "skipped": len(skipped),
        "failures": [{k: v for k, v in r.items()} for r in failures],
        "variants": [{"name": r["name"], "kind": r.get("kind", "skipped"), "detected": r.get("fired"), "first_report": r.get("first", r.get("status"))} for r in results],
    }
