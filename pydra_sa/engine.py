"""Analysis bundle shared by the rules: repo model + resolver + raise model + CFG
cache + small query helpers."""

from __future__ import annotations

import ast
import typing as ty

from .model import Repo, FuncInfo, ClassInfo, AnalysisError, dotted, norm, walk_own, parents, kwarg
from .resolve import Resolver, Resolved
from .raises import RaiseModel
from .cfg import CFG, Node, explore, Escape, format_path
from .flow import Flow


class Analysis:
    def __init__(self, root: str = "/repo"):
        self.root = root
        self.repo = Repo(root)
        self.rs = Resolver(self.repo)
        self.rm = RaiseModel(self.repo, self.rs)
        self.flow = Flow(self.rs)
        self._cfg: dict[str, CFG] = {}
        self.touched: set[str] = set()
        _install_repo_knowledge(self)

    # ------------------------------------------------------------------ basics
    def func(self, qualname: str) -> FuncInfo:
        # every function a rule asks for by name is part of what was analysed (evidence scope; the rename-twin
        # generator renames locals in exactly these functions)
        f = self.repo.func(qualname)
        self.touched.add(f.qualname)
        return f

    def cls(self, qualname: str) -> ClassInfo:
        return self.repo.cls(qualname)

    def cfg(self, fn: FuncInfo) -> CFG:
        self.touched.add(fn.qualname)
        if fn.qualname not in self._cfg:
            self._cfg[fn.qualname] = CFG(fn.node, fn.qualname)
        return self._cfg[fn.qualname]

    def loc(self, node: ast.AST) -> str:
        return self.repo.loc(node)

    def calls(self, fn: FuncInfo) -> list[ast.Call]:
        return [n for n in walk_own(fn.node) if isinstance(n, ast.Call)]

    def resolve(self, call: ast.Call, fn: FuncInfo | None) -> Resolved:
        return self.rs.resolve_call(call, fn)

    def callee_names(self, call: ast.Call, fn: FuncInfo | None) -> set[str]:
        return self.rs.callee_names(call, fn)

    def calls_to(self, fn: FuncInfo, pred: ty.Callable[[set[str], ast.Call], bool]) -> list[ast.Call]:
        return [c for c in self.calls(fn) if pred(self.callee_names(c, fn), c)]

    def calls_named(self, fn: FuncInfo, *names: str) -> list[ast.Call]:
        """call sites in fn whose resolved callee qualname (or, if unresolved, attribute
        / bare name) ends with one of `names`."""
        out = []
        for c in self.calls(fn):
            cn = self.callee_names(c, fn)
            ok = False
            for n in names:
                for q in cn:
                    qq = q[5:] if q.startswith("attr:") else q
                    if qq == n or qq.endswith("." + n):
                        ok = True
            if ok:
                out.append(c)
        return out

    def count_resolution(self, fns: ty.Iterable[FuncInfo]) -> tuple[int, int]:
        res = unres = 0
        for f in fns:
            for c in self.calls(f):
                r = self.rs.resolve_call(c, f)
                if r.targets:
                    res += 1
                else:
                    unres += 1
        return res, unres

    # -------------------------------------------------------------- expansion of single-definition locals
    def expand(self, expr: ast.AST, fn: FuncInfo, depth: int = 3, keep: ty.Iterable[str] = ()) -> ast.AST:
        """a copy of `expr` in which every local that is bound exactly once in `fn` (plain assignment or
        walrus to a bare name; not a loop target, not augmented) is replaced by the expression bound to it,
        recursively.  Rules that recognise an expression by its shape use this so that introducing or
        removing an intermediate local does not change what they see."""
        import copy as _copy

        defs: dict[str, list[ast.AST]] = {}
        multi: set[str] = set()
        for n in walk_own(fn.node):
            if isinstance(n, ast.Assign) and len(n.targets) == 1 and isinstance(n.targets[0], ast.Name):
                defs.setdefault(n.targets[0].id, []).append(n.value)
            elif isinstance(n, ast.NamedExpr) and isinstance(n.target, ast.Name):
                defs.setdefault(n.target.id, []).append(n.value)
            elif isinstance(n, (ast.AugAssign, ast.AnnAssign)) and isinstance(n.target, ast.Name):
                multi.add(n.target.id)
            elif isinstance(n, (ast.For, ast.AsyncFor, ast.comprehension)):
                for k in ast.walk(n.target):
                    if isinstance(k, ast.Name):
                        multi.add(k.id)
            elif isinstance(n, ast.Assign):
                for t in n.targets:
                    for k in ast.walk(t):
                        if isinstance(k, ast.Name) and isinstance(k.ctx, ast.Store):
                            multi.add(k.id)
        params = {a.arg for a in fn.params()}
        single = {k: v[0] for k, v in defs.items() if len(v) == 1 and k not in multi and k not in params and k not in set(keep)}

        class Sub(ast.NodeTransformer):
            def __init__(self, d):
                self.d = d

            def visit_Name(self, node):
                if isinstance(node.ctx, ast.Load) and node.id in single and self.d > 0:
                    return Sub(self.d - 1).visit(_copy.deepcopy(single[node.id]))
                return node

            def visit_NamedExpr(self, node):
                # (x := e) reads as e
                return self.visit(_copy.deepcopy(node.value))

        return Sub(depth).visit(_copy.deepcopy(expr))

    # -------------------------------------------------------------- single-use iterators
    ITER_BUILTINS = ("map", "filter", "zip", "iter", "reversed", "enumerate")

    @staticmethod
    def iter_reuse_in(node: ast.AST, is_generator_call: ty.Callable[[ast.Call], bool]) -> list[tuple[str, ast.AST, list[ast.Name]]]:
        """locals bound once to a single-use iterator (generator expression, call of a generator
        function, map/filter/zip/...) and read more than once: the second reader sees it exhausted."""
        defs: dict[str, list[ast.AST]] = {}
        for n in walk_own(node):
            if isinstance(n, ast.Assign) and len(n.targets) == 1 and isinstance(n.targets[0], ast.Name):
                defs.setdefault(n.targets[0].id, []).append(n.value)
            elif isinstance(n, ast.NamedExpr) and isinstance(n.target, ast.Name):
                defs.setdefault(n.target.id, []).append(n.value)
        out = []
        for nm, vs in defs.items():
            if len(vs) != 1:
                continue
            v = vs[0]
            single = isinstance(v, ast.GeneratorExp) or (isinstance(v, ast.Call) and ((isinstance(v.func, ast.Name) and v.func.id in Analysis.ITER_BUILTINS) or is_generator_call(v)))
            if not single:
                continue
            loads = [n for n in walk_own(node) if isinstance(n, ast.Name) and n.id == nm and isinstance(n.ctx, ast.Load)]
            loads.sort(key=lambda n: (n.lineno, n.col_offset))
            if len(loads) >= 2:
                out.append((nm, v, loads))
        return out

    def iter_reuse(self, fn: FuncInfo):
        def is_gen(call: ast.Call) -> bool:
            tg = [t for t in self.rs.resolve_call(call, fn).repo_targets if isinstance(t, FuncInfo)]

            def yields_iterator(t: FuncInfo) -> bool:
                if any(isinstance(k, (ast.Yield, ast.YieldFrom)) for k in walk_own(t.node)):
                    return True
                # some return path hands out a single-use iterator (itertools.chain(...), map(...), a generator expression)
                for r in walk_own(t.node):
                    if isinstance(r, ast.Return) and r.value is not None:
                        v = r.value
                        if isinstance(v, ast.GeneratorExp):
                            return True
                        if isinstance(v, ast.Call) and ((isinstance(v.func, ast.Name) and v.func.id in Analysis.ITER_BUILTINS) or (dotted(v.func) or "").startswith("itertools.")):
                            return True
                return False

            return bool(tg) and any(yields_iterator(t) for t in tg)

        return self.iter_reuse_in(fn.node, is_gen)

    # -------------------------------------------------------------- call graph
    def callees(self, fn: FuncInfo) -> list[FuncInfo]:
        out = []
        for c in self.calls(fn):
            for t in self.rs.resolve_call(c, fn).repo_targets:
                if isinstance(t, ClassInfo):
                    for nm in ("__init__", "__attrs_post_init__"):
                        g = t.find_method(nm)
                        if g is not None and g not in out:
                            out.append(g)
                elif t not in out:
                    out.append(t)
        # property reads
        for n in walk_own(fn.node):
            if isinstance(n, ast.Attribute) and isinstance(n.ctx, ast.Load):
                base = self.rs.type_of(n.value, fn)
                for c in base.inst:
                    m = c.find_method(n.attr)
                    if m is not None and m.is_property_getter and m not in out:
                        out.append(m)
        # context managers: `with X(...)` / `async with X(...)` call X's enter/exit methods
        for n in walk_own(fn.node):
            if isinstance(n, (ast.With, ast.AsyncWith)):
                for it in n.items:
                    t = self.rs.type_of(it.context_expr, fn)
                    for c in t.inst:
                        for nm in ("__enter__", "__exit__", "__aenter__", "__aexit__"):
                            g = c.find_method(nm)
                            if g is not None and g not in out:
                                out.append(g)
        # nested functions defined here are considered callees (closures, callbacks)
        for g in fn.nested.values():
            if g not in out:
                out.append(g)
        return out

    def closure(self, roots: list[FuncInfo], limit: int = 400) -> list[FuncInfo]:
        seen: dict[str, FuncInfo] = {}
        st = list(roots)
        while st and len(seen) < limit:
            f = st.pop()
            if f.qualname in seen:
                continue
            seen[f.qualname] = f
            st.extend(self.callees(f))
        return list(seen.values())

    def callers_of(self, target: FuncInfo) -> list[tuple[FuncInfo, ast.Call]]:
        out = []
        for f in self.repo.all_functions():
            for c in self.calls(f):
                if target in self.rs.resolve_call(c, f).repo_targets:
                    out.append((f, c))
        return out

    # ------------------------------------------------------------ cfg helpers
    def nodes_with_call(self, cfg: CFG, fn: FuncInfo, pred: ty.Callable[[set[str], ast.Call], bool]) -> list[tuple[Node, ast.Call]]:
        out = []
        for n in cfg.nodes:
            for e in n.exprs:
                for c in [e] + list(walk_own(e)):
                    if isinstance(c, ast.Call) and pred(self.callee_names(c, fn), c):
                        out.append((n, c))
        return out

    def anchor(self, what: str, items: list, floor: int = 1):
        if len(items) < floor:
            raise AnalysisError(f"anchor '{what}': found {len(items)}, expected at least {floor}")
        return items


# --------------------------------------------------------------------------- #
# repository-specific knowledge the nominal inference cannot derive (each row
# with its reason); used only to resolve more call sites, never to decide a rule
# --------------------------------------------------------------------------- #


def _install_repo_knowledge(A: Analysis):
    repo = A.repo
    rs = A.rs
    orig_attr_type = rs.attr_type
    from .resolve import T, UNKNOWN

    outputs = repo.classes.get("pydra.compose.base.task.Outputs")
    task = repo.classes.get("pydra.compose.base.task.Task")

    def attr_type(c: ClassInfo, attr: str, depth: int = 0, on_class: bool = False):
        t = orig_attr_type(c, attr, depth, on_class)
        if t:
            return t
        # `Outputs` is attached to every task class by the class builder (setattr in
        # build_task_class), it is not declared on Task
        if attr == "Outputs" and outputs is not None and task is not None and c.is_subclass_of(task):
            return T(clsobj=frozenset({outputs}))
        return t

    rs.attr_type = attr_type  # type: ignore[method-assign]

    # get_fields(x) returns a _TaskFieldsList (a dict subclass whose __iter__ yields the
    # Field objects): iterating it / .values() gives Field instances
    field_cls = repo.classes.get("pydra.compose.base.field.Field")
    orig_return_type = rs.return_type

    def return_type(f):
        if f.qualname == "pydra.utils.general.get_fields" and field_cls is not None:
            ft = T(inst=frozenset({field_cls}))
            return T(elem=ft, ext=frozenset({"dict"}))
        return orig_return_type(f)

    rs.return_type = return_type  # type: ignore[method-assign]
