"""Regenerate /verif/MANIFEST.json from the rule registry:  python -m pydra_sa.manifest"""

from __future__ import annotations

import json
from pathlib import Path

from .rules import load_all, NOT_APPLICABLE

VERIF = Path(__file__).resolve().parent.parent

NA_REASONS = {
    "C02": "Exact ordered partition by combiner is arithmetic over runtime index tables (group renumbering, RPN removal); no structural necessary condition exists short of re-proving the algorithm, and a frozen copy of the code would be a brittle proxy. Static analysis is not applicable.",
    "C03": "Equality with a nested-loop reference evaluation is data-dependent list algebra over merged upstream states; it quantifies over runtime values that no static argument in reach bounds.",
    "C21": "A relation between two reflective interpreters of typing objects (check_type vs coerce); only enumeration of types and values can compare them, which is a different technique family.",
    "C22": "Argv ordering/omission semantics are value-dependent formatting; any static rule would be a frozen copy of ShellTask._command_args.",
}


def build() -> dict:
    reg = load_all()
    props = [json.loads(l)["id"] for l in (VERIF / "properties.jsonl").read_text().splitlines() if l.strip()]
    checks = []
    for pid in props:
        if pid not in reg:
            continue
        s = reg[pid]
        checks.append(
            {
                "property_id": pid,
                "quick_cmd": f"/venv/bin/python -m pydra_sa.check {pid} --tier quick",
                "thorough_cmd": f"/venv/bin/python -m pydra_sa.check {pid} --tier thorough",
                "evidence_file": f"/verif/evidence/{pid}.json",
                "replay_cmd_template": f"/venv/bin/python -m pydra_sa.check {pid} --replay {{path}}",
                "engine": "pydra_sa",
                "level_claimed": {
                    "category": "other",
                    "text": f"Static analysis of /repo's current source (no execution). Decides: {s.decides} Not decided (remains behavioural): {s.not_decided}",
                    "design_ref": s.design_ref,
                },
                "level_note": s.level_note,
                "technique": "static analysis: " + s.technique,
            }
        )
    na = []
    for pid in props:
        if pid in reg:
            continue
        reason = NA_REASONS.get(pid) or NOT_APPLICABLE.get(pid) or "no static check is registered for this property in the current state of /verif (not claimed)"
        na.append({"property_id": pid, "reason": reason})
    return {
        "version": 1,
        "setup_cmd": "/venv/bin/python -m pydra_sa.selfcheck",
        "hooks": {
            "guard": "NIPYPE_PYDRA_VERIF",
            "enable": "no hooks: the checks parse /repo's source and never build or run it",
            "baseline_off_cmd": "cd /repo && /venv/bin/python -m pytest -ra -q -p no:cacheprovider --timeout=900 --continue-on-collection-errors",
            "source_commits": [],
            "add_only": True,
        },
        "engines": [
            {
                "name": "pydra_sa",
                "path": "/verif/pydra_sa",
                "serves_properties": [c["property_id"] for c in checks],
                "kind_free_text": "repository-specific static analyser (stdlib ast): resolved call graph by class-hierarchy analysis, statement CFGs with exception edges and finally inlining, abstract-state exploration (typestate, pairing), def-use / taint flow, read-set and sibling/table agreement rules",
            }
        ],
        "checks": checks,
        "not_applicable": na,
        "notes": "All checks are static analyses run with /venv/bin/python (stdlib only, nothing installed). Exit 2 + 'ANALYSIS-ERROR' means an anchor vanished or the analysis failed (never a pass). Known findings: /verif/known_findings.json.",
    }


def main():
    m = build()
    (VERIF / "MANIFEST.json").write_text(json.dumps(m, indent=1) + "\n")
    print(f"MANIFEST.json: {len(m['checks'])} checks, {len(m['not_applicable'])} not applicable")


if __name__ == "__main__":
    main()
