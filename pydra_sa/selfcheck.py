"""setup_cmd: verifies the analyser imports and parses /repo (nothing to build)."""
import sys

from .engine import Analysis
from .rules import load_all


def main() -> int:
    reg = load_all()
    A = Analysis("/repo")
    s = A.repo.stats()
    print(f"pydra_sa ready: {len(reg)} property checks; parsed {s['files']} files, {s['functions']} functions, {s['classes']} classes")
    return 0


if __name__ == "__main__":
    sys.exit(main())
