"""Nominal type inference and call resolution (class-hierarchy analysis)."""

from __future__ import annotations

import ast
from dataclasses import dataclass, field
import typing as ty

from .model import (
    Repo,
    Module,
    ClassInfo,
    FuncInfo,
    dotted,
    walk_own,
    kwarg,
    parents,
    norm,
)


@dataclass(frozen=True)
class T:
    """Abstract nominal type: instances of repo classes, class objects, container
    element types.  Empty == unknown."""

    inst: frozenset = frozenset()  # ClassInfo
    clsobj: frozenset = frozenset()  # ClassInfo (value is the class itself)
    elem: "T | None" = None  # element / value type of a container
    elems: tuple = ()  # per-position types of a tuple
    ext: frozenset = frozenset()  # external dotted type names ("pathlib.Path")

    def __bool__(self):
        return bool(self.inst or self.clsobj or self.elem or self.elems or self.ext)

    def join(self, other: "T") -> "T":
        if not other:
            return self
        if not self:
            return other
        elem = self.elem.join(other.elem) if (self.elem and other.elem) else (self.elem or other.elem)
        elems = self.elems if len(self.elems) >= len(other.elems) else other.elems
        return T(self.inst | other.inst, self.clsobj | other.clsobj, elem, elems, self.ext | other.ext)


UNKNOWN = T()


@dataclass
class Resolved:
    call: ast.Call
    targets: list  # FuncInfo | ClassInfo | str
    kind: str  # 'static' | 'cha' | 'ext' | 'unresolved' | 'local'
    attr: str | None = None  # method name for attribute calls

    @property
    def repo_targets(self) -> list:
        return [t for t in self.targets if isinstance(t, (FuncInfo, ClassInfo))]

    @property
    def ext_names(self) -> list[str]:
        return [t for t in self.targets if isinstance(t, str)]


class Resolver:
    def __init__(self, repo: Repo):
        self.repo = repo
        self._locals: dict[str, dict[str, list]] = {}
        self._tcache: dict = {}
        self._in_progress: set = set()
        self._attr_types: dict = {}

    # ------------------------------------------------------------ local defs
    def local_defs(self, fn: FuncInfo) -> dict[str, list]:
        """name -> list of (kind, node) definitions in fn's own scope.
        kind: 'assign' (value expr), 'ann' (annotation), 'for' (iter expr, target, path),
        'with' (context expr), 'param' (ast.arg)."""
        if fn.qualname in self._locals:
            return self._locals[fn.qualname]
        d: dict[str, list] = {}
        self._locals[fn.qualname] = d
        a = fn.node.args
        for arg in list(a.posonlyargs) + list(a.args) + list(a.kwonlyargs):
            d.setdefault(arg.arg, []).append(("param", arg))
        if a.vararg:
            d.setdefault(a.vararg.arg, []).append(("vararg", a.vararg))
        if a.kwarg:
            d.setdefault(a.kwarg.arg, []).append(("kwarg", a.kwarg))

        def bind_target(t, kind, payload):
            if isinstance(t, ast.Name):
                d.setdefault(t.id, []).append((kind, payload))
            elif isinstance(t, (ast.Tuple, ast.List)):
                for i, e in enumerate(t.elts):
                    bind_target(e, kind + "_unpack", (payload, i))
            elif isinstance(t, ast.Starred):
                bind_target(t.value, kind + "_star", payload)

        for n in walk_own(fn.node):
            if isinstance(n, ast.Assign):
                for t in n.targets:
                    bind_target(t, "assign", n.value)
            elif isinstance(n, ast.AnnAssign):
                if isinstance(n.target, ast.Name):
                    d.setdefault(n.target.id, []).append(("ann", n.annotation))
                    if n.value is not None:
                        d[n.target.id].append(("assign", n.value))
            elif isinstance(n, ast.AugAssign):
                if isinstance(n.target, ast.Name):
                    d.setdefault(n.target.id, []).append(("aug", n.value))
            elif isinstance(n, (ast.For, ast.AsyncFor)):
                bind_target(n.target, "for", n.iter)
            elif isinstance(n, ast.comprehension):
                bind_target(n.target, "for", n.iter)
            elif isinstance(n, (ast.With, ast.AsyncWith)):
                for it in n.items:
                    if it.optional_vars is not None:
                        bind_target(it.optional_vars, "with", it.context_expr)
            elif isinstance(n, ast.NamedExpr):
                bind_target(n.target, "assign", n.value)
            elif isinstance(n, ast.ExceptHandler) and n.name:
                d.setdefault(n.name, []).append(("except", n.type))
            elif isinstance(n, (ast.Import, ast.ImportFrom)):
                for al in n.names:
                    d.setdefault((al.asname or al.name).split(".")[0], []).append(("import", n))
        return d

    # --------------------------------------------------------------- typing
    def ann_T(self, m: Module, ann, cls: ClassInfo | None = None) -> T:
        if ann is None:
            return UNKNOWN
        classes, info = self.repo.annotation_types(m, ann, cls)
        t = T(inst=frozenset(classes))
        if "class_of" in info:
            t = t.join(T(clsobj=frozenset(info["class_of"])))
        if "container" in info:
            args = info["args"]
            kind = info["container"]
            if kind in ("dict", "mapping", "defaultdict") and len(args) == 2:
                t = t.join(T(elem=self.ann_T(m, args[1], cls) or None, ext=frozenset({"dict"})))
            elif kind == "tuple":
                if len(args) == 2 and isinstance(args[1], ast.Constant) and args[1].value is Ellipsis:
                    t = t.join(T(elem=self.ann_T(m, args[0], cls) or None, ext=frozenset({"tuple"})))
                else:
                    t = t.join(T(elems=tuple(self.ann_T(m, a, cls) for a in args), ext=frozenset({"tuple"})))
            elif kind == "generator" and args:
                t = t.join(T(elem=self.ann_T(m, args[0], cls) or None))
            elif args:
                t = t.join(T(elem=self.ann_T(m, args[0], cls) or None, ext=frozenset({kind})))
        if not t and isinstance(ann, (ast.Name, ast.Attribute)):
            r = self.repo.resolve_expr_static(m, ann, cls=cls)
            if isinstance(r, str):
                t = T(ext=frozenset({r}))
        return t

    def type_of(self, expr: ast.AST, fn: FuncInfo | None, depth: int = 0) -> T:
        key = (id(expr), fn.qualname if fn else None)
        if key in self._tcache:
            return self._tcache[key]
        if key in self._in_progress or depth > 6:
            return UNKNOWN
        self._in_progress.add(key)
        try:
            t = self._type_of(expr, fn, depth)
        finally:
            self._in_progress.discard(key)
        self._tcache[key] = t
        return t

    def _module_of(self, expr, fn) -> Module:
        return fn.module if fn is not None else self.repo.module_of(expr)

    def _type_of(self, expr, fn, depth) -> T:
        repo = self.repo
        m = self._module_of(expr, fn)
        if isinstance(expr, ast.Name):
            return self._name_type(expr.id, expr, fn, depth)
        if isinstance(expr, ast.Attribute):
            # static?
            r = repo.resolve_expr_static(m, expr, cls=fn.cls if fn else None, fn=fn)
            if isinstance(r, ClassInfo) and not self._is_local(expr, fn):
                return T(clsobj=frozenset({r}))
            base = self.type_of(expr.value, fn, depth + 1)
            out = UNKNOWN
            for c in base.inst:
                out = out.join(self.attr_type(c, expr.attr, depth + 1))
            for c in base.clsobj:
                out = out.join(self.attr_type(c, expr.attr, depth + 1, on_class=True))
            return out
        if isinstance(expr, ast.Call):
            res = self.resolve_call(expr, fn, depth + 1)
            out = UNKNOWN
            for t in res.targets:
                if isinstance(t, ClassInfo):
                    out = out.join(T(inst=frozenset({t})))
                elif isinstance(t, FuncInfo):
                    out = out.join(self.return_type(t))
                elif isinstance(t, str):
                    if t in ("pathlib.Path", "copy.copy", "copy.deepcopy"):
                        if t == "pathlib.Path":
                            out = out.join(T(ext=frozenset({t})))
                        elif expr.args:
                            out = out.join(self.type_of(expr.args[0], fn, depth + 1))
                    elif t in ("list", "sorted", "tuple", "set", "reversed", "iter") and expr.args:
                        a = self.type_of(expr.args[0], fn, depth + 1)
                        out = out.join(T(elem=a.elem, elems=()))
                    elif t == "type" and len(expr.args) == 1:
                        a = self.type_of(expr.args[0], fn, depth + 1)
                        out = out.join(T(clsobj=a.inst))
            # dict-method results
            f = expr.func
            if isinstance(f, ast.Attribute) and f.attr in ("values", "pop", "get", "popitem", "copy", "setdefault"):
                base = self.type_of(f.value, fn, depth + 1)
                if base.elem is not None:
                    if f.attr in ("values",):
                        out = out.join(T(elem=base.elem))
                    elif f.attr == "copy":
                        out = out.join(base)
                    elif f.attr in ("pop", "get", "setdefault"):
                        out = out.join(base.elem)
            if isinstance(f, ast.Attribute) and f.attr == "items":
                base = self.type_of(f.value, fn, depth + 1)
                if base.elem is not None:
                    out = out.join(T(elem=T(elems=(UNKNOWN, base.elem))))
            return out
        if isinstance(expr, ast.Subscript):
            base = self.type_of(expr.value, fn, depth + 1)
            if base.elems and isinstance(expr.slice, ast.Constant) and isinstance(expr.slice.value, int):
                i = expr.slice.value
                if -len(base.elems) <= i < len(base.elems):
                    return base.elems[i]
            if isinstance(expr.slice, ast.Slice):
                return base
            return base.elem or UNKNOWN
        if isinstance(expr, ast.Await):
            return self.type_of(expr.value, fn, depth + 1)
        if isinstance(expr, ast.IfExp):
            return self.type_of(expr.body, fn, depth + 1).join(self.type_of(expr.orelse, fn, depth + 1))
        if isinstance(expr, ast.BoolOp):
            out = UNKNOWN
            for v in expr.values:
                out = out.join(self.type_of(v, fn, depth + 1))
            return out
        if isinstance(expr, ast.NamedExpr):
            return self.type_of(expr.value, fn, depth + 1)
        if isinstance(expr, (ast.List, ast.Set, ast.Tuple)):
            if isinstance(expr, ast.Tuple):
                return T(elems=tuple(self.type_of(e, fn, depth + 1) for e in expr.elts))
            out = UNKNOWN
            for e in expr.elts:
                out = out.join(self.type_of(e, fn, depth + 1))
            return T(elem=out or None)
        if isinstance(expr, (ast.ListComp, ast.SetComp, ast.GeneratorExp)):
            return T(elem=self.type_of(expr.elt, fn, depth + 1) or None)
        if isinstance(expr, ast.DictComp):
            return T(elem=self.type_of(expr.value, fn, depth + 1) or None)
        if isinstance(expr, ast.Constant):
            if isinstance(expr.value, str):
                return T(ext=frozenset({"str"}))
            if expr.value is None:
                return T(ext=frozenset({"None"}))
        if isinstance(expr, ast.JoinedStr):
            return T(ext=frozenset({"str"}))
        if isinstance(expr, ast.Dict):
            out = UNKNOWN
            for v in expr.values:
                if v is not None:
                    out = out.join(self.type_of(v, fn, depth + 1))
            return T(elem=out or None, ext=frozenset({"dict"}))
        return UNKNOWN

    def _is_local(self, expr, fn) -> bool:
        d = dotted(expr)
        if d is None or fn is None:
            return False
        head = d.split(".")[0]
        f = fn
        while f is not None:
            defs = self.local_defs(f).get(head)
            if defs and any(k != "import" for k, _ in defs):
                return True
            f = f.parent
        return False

    def _name_type(self, name: str, expr, fn: FuncInfo | None, depth) -> T:
        repo = self.repo
        m = self._module_of(expr, fn)
        f = fn
        while f is not None:
            defs = self.local_defs(f).get(name)
            if defs:
                # comprehension-scoped targets: prefer the definition in an enclosing comprehension
                out = UNKNOWN
                for kind, payload in defs:
                    out = out.join(self._def_type(kind, payload, f, depth))
                if name in ("self",) and f.cls is not None:
                    return T(inst=frozenset({f.cls}))
                if name == "cls" and f.cls is not None and f.is_classmethod:
                    return T(clsobj=frozenset({f.cls}))
                if any(k != "import" for k, _ in defs):
                    return out
            f = f.parent
        r = repo.resolve_expr_static(m, ast.Name(id=name), cls=fn.cls if fn else None, fn=fn)
        if isinstance(r, ClassInfo):
            return T(clsobj=frozenset({r}))
        d = m.defs.get(name)
        if isinstance(d, ast.AnnAssign):
            return self.ann_T(m, d.annotation)
        if isinstance(d, ast.Assign):
            return self.type_of(d.value, None, depth + 1)
        return UNKNOWN

    def _def_type(self, kind, payload, f: FuncInfo, depth) -> T:
        m = f.module
        if kind == "param":
            arg: ast.arg = payload
            params = f.params()
            if params and arg is params[0] and f.cls is not None and not f.is_staticmethod:
                if f.is_classmethod:
                    return T(clsobj=frozenset({f.cls}))
                return T(inst=frozenset({f.cls}))
            return self.ann_T(m, arg.annotation, f.cls)
        if kind == "ann":
            return self.ann_T(m, payload, f.cls)
        if kind == "assign":
            return self.type_of(payload, f, depth + 1)
        if kind == "with":
            t = self.type_of(payload, f, depth + 1)
            return t
        if kind == "for":
            t = self.type_of(payload, f, depth + 1)
            return t.elem or UNKNOWN
        if kind == "for_unpack":
            (it, i) = payload
            t = self.type_of(it, f, depth + 1)
            e = t.elem
            if e is not None and e.elems and i < len(e.elems):
                return e.elems[i]
            # enumerate(x) -> (int, elem)
            if isinstance(it, ast.Call) and dotted(it.func) == "enumerate" and it.args and i == 1:
                return self.type_of(it.args[0], f, depth + 1).elem or UNKNOWN
            if isinstance(it, ast.Call) and dotted(it.func) == "zip" and i < len(it.args):
                return self.type_of(it.args[i], f, depth + 1).elem or UNKNOWN
            return UNKNOWN
        if kind == "for_unpack_unpack":
            ((it, i), j) = payload
            t = self.type_of(it, f, depth + 1)
            e = t.elem
            if e is not None and e.elems and i < len(e.elems):
                inner = e.elems[i]
                if inner.elems and j < len(inner.elems):
                    return inner.elems[j]
            return UNKNOWN
        if kind == "assign_unpack":
            (val, i) = payload
            t = self.type_of(val, f, depth + 1)
            if t.elems and i < len(t.elems):
                return t.elems[i]
            return UNKNOWN
        return UNKNOWN

    def return_type(self, f: FuncInfo) -> T:
        t = self.ann_T(f.module, f.node.returns, f.cls)
        return t

    def attr_type(self, c: ClassInfo, attr: str, depth: int = 0, on_class: bool = False) -> T:
        key = (c.qualname, attr, on_class)
        if key in self._attr_types:
            return self._attr_types[key]
        self._attr_types[key] = UNKNOWN  # recursion guard
        out = UNKNOWN
        for k in c.mro():
            if attr in k.nested:
                out = T(clsobj=frozenset({k.nested[attr]}))
                break
            if attr in k.annotations:
                out = self.ann_T(k.module, k.annotations[attr], k)
                if out:
                    break
            meth = k.methods.get(attr)
            if meth is not None:
                if meth.is_property_getter:
                    out = self.return_type(meth)
                    if not out:
                        # infer from return statements
                        for n in walk_own(meth.node):
                            if isinstance(n, ast.Return) and n.value is not None:
                                out = out.join(self.type_of(n.value, meth, depth + 1))
                break
            # assignments  self.attr = ...  in any method of k
            found = UNKNOWN
            for mm in k.methods.values():
                for n in walk_own(mm.node):
                    tgts = []
                    if isinstance(n, ast.Assign):
                        tgts = [(t, n.value) for t in n.targets]
                    elif isinstance(n, ast.AnnAssign) and n.value is not None:
                        tgts = [(n.target, n.value)]
                        if isinstance(n.target, ast.Attribute) and n.target.attr == attr and dotted(n.target.value) == "self":
                            found = found.join(self.ann_T(k.module, n.annotation, k))
                    for t, v in tgts:
                        if isinstance(t, ast.Attribute) and t.attr == attr and dotted(t.value) == "self":
                            found = found.join(self.type_of(v, mm, depth + 1))
            if found:
                out = found
                break
            if attr in k.class_assigns:
                node = k.class_assigns[attr]
                v = getattr(node, "value", None)
                if v is not None:
                    out = self.type_of(v, None, depth + 1)
                break
        self._attr_types[key] = out
        return out

    def class_has_attr(self, c: ClassInfo, name: str) -> bool:
        """does class `c` (or a base) define attribute `name`: method, property, class-level
        assignment/annotation, nested class, or `self.name = ...` in one of its methods."""
        key = ("has", c.qualname, name)
        if key in self._attr_types:
            return self._attr_types[key]
        res = False
        for k in c.mro():
            if name in k.methods or name in k.class_assigns or name in k.annotations or name in k.nested:
                res = True
                break
            for mm in k.methods.values():
                for n in walk_own(mm.node):
                    if isinstance(n, ast.Attribute) and n.attr == name and isinstance(n.ctx, ast.Store) and dotted(n.value) == "self":
                        res = True
                        break
                if res:
                    break
            if res:
                break
        if not res and (c.has_external_base() or c.find_method("__getattr__") is not None):
            res = True
        self._attr_types[key] = res
        return res

    # ----------------------------------------------------------- call targets
    def resolve_call(self, call: ast.Call, fn: FuncInfo | None, depth: int = 0) -> Resolved:
        repo = self.repo
        m = self._module_of(call, fn)
        f = call.func
        cls = fn.cls if fn is not None else repo.enclosing_class(call)
        if isinstance(f, ast.Name):
            # local variable?
            if fn is not None and self._is_local(f, fn):
                # nested function
                g = fn
                while g is not None:
                    if f.id in g.nested:
                        return Resolved(call, [g.nested[f.id]], "static")
                    g = g.parent
                t = self.type_of(f, fn, depth + 1)
                if t.clsobj:
                    return Resolved(call, sorted(t.clsobj, key=lambda c: c.qualname), "cha")
                return Resolved(call, [], "local")
            r = repo.resolve_expr_static(m, f, cls=cls, fn=fn)
            if isinstance(r, (FuncInfo, ClassInfo)):
                return Resolved(call, [r], "static")
            if isinstance(r, str):
                return Resolved(call, [r], "ext")
            if r is None:
                if f.id in m.defs or f.id in m.imports:
                    return Resolved(call, [], "unresolved")
                return Resolved(call, [f.id], "ext")  # builtin
            return Resolved(call, [], "unresolved")
        if isinstance(f, ast.Attribute):
            attr = f.attr
            # super().meth(...)
            if isinstance(f.value, ast.Call) and dotted(f.value.func) == "super" and cls is not None:
                for k in cls.mro()[1:]:
                    if attr in k.methods:
                        return Resolved(call, [k.methods[attr]], "static", attr)
                return Resolved(call, [f"super.{attr}"], "ext", attr)
            if not self._is_local(f, fn):
                r = repo.resolve_expr_static(m, f, cls=cls, fn=fn)
                if isinstance(r, (FuncInfo, ClassInfo)):
                    return Resolved(call, [r], "static", attr)
                if isinstance(r, str):
                    return Resolved(call, [r], "ext", attr)
            base = self.type_of(f.value, fn, depth + 1)
            targets: list = []
            for c in sorted(base.inst | base.clsobj, key=lambda c: c.qualname):
                found = c.find_method(attr)
                if found is not None:
                    if found not in targets:
                        targets.append(found)
                else:
                    nested = None
                    for k in c.mro():
                        if attr in k.nested:
                            nested = k.nested[attr]
                            break
                    if nested is not None and nested not in targets:
                        targets.append(nested)
                for s in c.all_subclasses():
                    if attr in s.methods and s.methods[attr] not in targets:
                        targets.append(s.methods[attr])
            if targets:
                return Resolved(call, targets, "cha", attr)
            if base.ext:
                return Resolved(call, [f"{e}.{attr}" for e in sorted(base.ext)], "ext", attr)
            return Resolved(call, [], "unresolved", attr)
        return Resolved(call, [], "unresolved")

    # ------------------------------------------------------------- utilities
    def calls_in(self, node: ast.AST, own_scope: bool = True) -> list[ast.Call]:
        it = walk_own(node) if own_scope else ast.walk(node)
        out = [n for n in it if isinstance(n, ast.Call)]
        if isinstance(node, ast.Call):
            out.insert(0, node)
        return out

    def callee_names(self, call: ast.Call, fn: FuncInfo | None) -> set[str]:
        """Qualified names of everything the call may target (repo qualnames and
        external dotted names), plus 'attr:<name>' for unresolved attribute calls."""
        r = self.resolve_call(call, fn)
        out = set()
        for t in r.targets:
            out.add(t if isinstance(t, str) else t.qualname)
        if not r.targets and r.attr:
            out.add("attr:" + r.attr)
        return out
