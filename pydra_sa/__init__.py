"""pydra_sa -- repository-specific static analysis of nipype/pydra.

Everything here decides from the *source text* of the repository under
analysis (parsed with the standard-library ``ast`` on every run).  No module of
``pydra`` is imported or executed by any deciding step.
"""

__all__ = ["model", "cfg", "flow", "report"]
