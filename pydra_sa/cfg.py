"""Statement-level control-flow graphs with explicit exceptional control flow.

The graph itself is exception-token agnostic: a node that may raise has an ``x``
edge to the innermost enclosing *dispatch* node (for ``try`` blocks with handlers),
*finally copy*, ``with``-exit node or the function's exceptional exit.  Queries
(:func:`explore`) carry the pending exception token in the traversal state, so a
``ValueError`` raised under ``except ValueError`` is not propagated further while a
``KeyboardInterrupt`` under ``except Exception`` is.

``finally`` bodies are inlined once per continuation kind (fall-through,
exception, return, break, continue); ``with`` is ``try/finally`` with an abstract
exit node.  Tests that are the literals True/False are folded (dead branches get
no nodes).
"""

from __future__ import annotations

import ast
import itertools
from dataclasses import dataclass, field
import typing as ty

from .model import FuncInfo, norm, dotted, exc_is_subclass

ANY_E = "Exception*"  # some Exception subclass not known more precisely
ANY_B = "BaseException*"  # KeyboardInterrupt / SystemExit / CancelledError ...
B_NAMES = {"KeyboardInterrupt", "SystemExit", "GeneratorExit", "CancelledError", "BaseException"}


def token_kind(tok: str) -> str:
    """'B' for non-Exception BaseExceptions, 'E' otherwise."""
    short = tok.rsplit(".", 1)[-1]
    if tok == ANY_B or short in B_NAMES:
        return "B"
    return "E"


def handler_names(h: ast.ExceptHandler) -> list[str] | None:
    """Names of the exception classes a handler lists; None for a bare except."""
    if h.type is None:
        return None
    elts = h.type.elts if isinstance(h.type, ast.Tuple) else [h.type]
    return [(dotted(e) or norm(e)).rsplit(".", 1)[-1] for e in elts]


def catches(names: list[str] | None, tok: str) -> str:
    """'must' | 'may' | 'no' -- does a handler for `names` stop exception token `tok`."""
    if names is None or "BaseException" in names:
        return "must"
    kind = token_kind(tok)
    best = "no"
    for n in names:
        if kind == "B":
            if n == "Exception":
                r = "no"
            elif tok == ANY_B:
                r = "may" if n in B_NAMES else "no"
            else:
                r = "must" if n == tok.rsplit(".", 1)[-1] else "no"
        else:
            if n == "Exception":
                r = "must"
            elif n in B_NAMES:
                r = "no"
            elif tok == ANY_E:
                r = "may"
            else:
                k = exc_is_subclass(tok, n)
                if k is True:
                    r = "must"
                elif k is False:
                    # the handler class might still be a subclass-unknown repo class
                    r = "no" if exc_is_subclass(n, "BaseException") is not None else "may"
                else:
                    r = "must" if tok.rsplit(".", 1)[-1] == n else "may"
        if r == "must":
            return "must"
        if r == "may":
            best = "may"
    return best


class Node:
    __slots__ = ("id", "kind", "stmt", "label", "succ", "pred", "exprs", "handlers", "copy_of", "meta")

    def __init__(self, nid: int, kind: str, stmt: ast.AST | None = None, label: str = "", exprs: list | None = None):
        self.id = nid
        self.kind = kind
        self.stmt = stmt
        self.label = label
        self.succ: list[tuple[str, "Node"]] = []
        self.pred: list[tuple[str, "Node"]] = []
        self.exprs: list[ast.AST] = exprs if exprs is not None else []
        self.handlers: list[tuple[list[str] | None, "Node"]] = []  # dispatch nodes
        self.copy_of: str = ""  # which finally continuation this node was inlined for
        self.meta: dict = {}

    def add(self, label: str, node: "Node | None"):
        if node is None:
            return
        if (label, node) not in self.succ:
            self.succ.append((label, node))
            node.pred.append((label, self))

    @property
    def lineno(self) -> int:
        return getattr(self.stmt, "lineno", 0) if self.stmt is not None else 0

    def text(self, limit: int = 90) -> str:
        if self.label:
            return self.label
        return norm(self.stmt, limit)

    def __repr__(self):
        return f"<{self.id}:{self.kind}:{self.lineno}:{self.text(60)}>"


@dataclass
class _Ctx:
    exc: Node
    ret: Node
    brk: Node | None = None
    cont: Node | None = None
    fin: str = ""

    def replace(self, **kw) -> "_Ctx":
        c = _Ctx(self.exc, self.ret, self.brk, self.cont, self.fin)
        for k, v in kw.items():
            setattr(c, k, v)
        return c


class CFG:
    def __init__(self, fn_node: ast.FunctionDef | ast.AsyncFunctionDef, name: str = ""):
        self.fn_node = fn_node
        self.name = name or fn_node.name
        self._ids = itertools.count()
        self.nodes: list[Node] = []
        self.entry = self._node("entry", label="ENTRY")
        self.exit_ret = self._node("exit", label="EXIT-return")
        self.exit_exc = self._node("exit", label="EXIT-raise")
        self.folded: list[str] = []
        ctx = _Ctx(exc=self.exit_exc, ret=self.exit_ret)
        first = self._seq(fn_node.body, self.exit_ret, ctx)
        self.entry.add("n", first)
        self._prune()
        self._dom: dict[int, set[int]] | None = None
        STATS["cfgs_built"] += 1
        STATS["cfg_nodes"] += len(self.nodes)

    # ----------------------------------------------------------- construction
    def _node(self, kind, stmt=None, label="", exprs=None) -> Node:
        n = Node(next(self._ids), kind, stmt, label, exprs)
        self.nodes.append(n)
        return n

    def _seq(self, stmts, nxt: Node, ctx: _Ctx) -> Node:
        for s in reversed(stmts):
            nxt = self._stmt(s, nxt, ctx)
        return nxt

    def _simple(self, kind, s, exprs, nxt, ctx) -> Node:
        n = self._node(kind, s, exprs=exprs)
        n.copy_of = ctx.fin
        n.add("n", nxt)
        n.add("x", ctx.exc)
        return n

    def _stmt(self, s: ast.stmt, nxt: Node, ctx: _Ctx) -> Node:
        if isinstance(s, (ast.FunctionDef, ast.AsyncFunctionDef, ast.ClassDef)):
            n = self._node("def", s, label=f"def {s.name}", exprs=list(s.decorator_list))
            n.copy_of = ctx.fin
            n.add("n", nxt)
            return n
        if isinstance(s, ast.Return):
            n = self._node("return", s, exprs=[s.value] if s.value is not None else [])
            n.copy_of = ctx.fin
            n.add("n", ctx.ret)
            n.add("x", ctx.exc)
            return n
        if isinstance(s, ast.Raise):
            n = self._node("raise", s, exprs=[e for e in (s.exc, s.cause) if e is not None])
            n.copy_of = ctx.fin
            n.add("x", ctx.exc)
            return n
        if isinstance(s, ast.Break):
            n = self._node("break", s)
            n.copy_of = ctx.fin
            n.add("n", ctx.brk)
            return n
        if isinstance(s, ast.Continue):
            n = self._node("continue", s)
            n.copy_of = ctx.fin
            n.add("n", ctx.cont)
            return n
        if isinstance(s, ast.If):
            test = self._node("test", s, label="if " + norm(s.test, 80), exprs=[s.test])
            test.copy_of = ctx.fin
            truth = bool(s.test.value) if isinstance(s.test, ast.Constant) else None
            test.add("x", ctx.exc)
            if truth is not None:
                self.folded.append(f"{norm(s.test)}@{s.lineno}")
            if truth is not False:
                test.add("T", self._seq(s.body, nxt, ctx))
            if truth is not True:
                test.add("F", self._seq(s.orelse, nxt, ctx) if s.orelse else nxt)
            return test
        if isinstance(s, (ast.For, ast.AsyncFor, ast.While)):
            if isinstance(s, ast.While):
                head = self._node("loop", s, label="while " + norm(s.test, 70), exprs=[s.test])
            else:
                head = self._node("loop", s, label=f"for {norm(s.target, 30)} in {norm(s.iter, 50)}", exprs=[s.iter])
            head.copy_of = ctx.fin
            head.add("x", ctx.exc)
            after = self._seq(s.orelse, nxt, ctx) if s.orelse else nxt
            body = self._seq(s.body, head, ctx.replace(brk=nxt, cont=head))
            head.add("T", body)
            infinite = isinstance(s, ast.While) and isinstance(s.test, ast.Constant) and bool(s.test.value)
            if not infinite:
                head.add("F", after)
            return head
        if isinstance(s, (ast.With, ast.AsyncWith)):
            ctx_text = ", ".join(norm(i.context_expr, 50) for i in s.items)

            def mk_exit(target, label):
                if target is None:
                    return None
                n = self._node("with_exit", s, label=f"with-exit {ctx_text}")
                n.copy_of = ctx.fin
                n.meta["continuation"] = label
                n.add(label, target)
                return n

            body_ctx = ctx.replace(
                exc=mk_exit(ctx.exc, "x"),
                ret=mk_exit(ctx.ret, "n"),
                brk=mk_exit(ctx.brk, "n"),
                cont=mk_exit(ctx.cont, "n"),
            )
            body = self._seq(s.body, mk_exit(nxt, "n"), body_ctx)
            enter = self._node("with_enter", s, label=f"with-enter {ctx_text}", exprs=[i.context_expr for i in s.items])
            enter.copy_of = ctx.fin
            enter.add("n", body)
            enter.add("x", ctx.exc)
            return enter
        if isinstance(s, ast.Try) or (hasattr(ast, "TryStar") and isinstance(s, getattr(ast, "TryStar"))):
            return self._try(s, nxt, ctx)
        if isinstance(s, ast.Match):
            head = self._node("test", s, label="match " + norm(s.subject, 60), exprs=[s.subject])
            head.add("x", ctx.exc)
            exhaustive = False
            for case in s.cases:
                b = self._seq(case.body, nxt, ctx)
                head.add("T", b)
                if isinstance(case.pattern, ast.MatchAs) and case.pattern.pattern is None and case.guard is None:
                    exhaustive = True
            if not exhaustive:
                head.add("F", nxt)
            return head
        # simple statements: Expr, Assign, AugAssign, AnnAssign, Assert, Delete, Pass, Import, Global...
        kind = "assert" if isinstance(s, ast.Assert) else "stmt"
        return self._simple(kind, s, [s], nxt, ctx)

    def _try(self, s, nxt: Node, ctx: _Ctx) -> Node:
        def fin(target: Node | None, label: str, tag: str) -> Node | None:
            if target is None:
                return None
            if not s.finalbody:
                return target
            tail = self._node("fin_end", s, label=f"finally-end[{tag}]")
            tail.copy_of = tag
            tail.add(label, target)
            # exceptions raised inside the finally body propagate to the outer context
            return self._seq(s.finalbody, tail, ctx.replace(fin=tag))

        after = fin(nxt, "n", "fall")
        outer_exc = fin(ctx.exc, "x", "exc")
        in_ctx = ctx.replace(
            exc=outer_exc,
            ret=fin(ctx.ret, "n", "return"),
            brk=fin(ctx.brk, "n", "break"),
            cont=fin(ctx.cont, "n", "continue"),
        )
        if s.handlers:
            disp = self._node("dispatch", s, label="except-dispatch")
            disp.copy_of = ctx.fin
            for h in s.handlers:
                hb = self._seq(h.body, after, in_ctx)
                entry = self._node("handler", h, label="except " + (norm(h.type, 50) if h.type else "<bare>"))
                entry.copy_of = ctx.fin
                entry.add("n", hb)
                disp.handlers.append((handler_names(h), entry))
                disp.add("h", entry)
            disp.add("x", outer_exc)
            body_ctx = in_ctx.replace(exc=disp)
        else:
            body_ctx = in_ctx
        else_entry = self._seq(s.orelse, after, in_ctx) if s.orelse else after
        return self._seq(s.body, else_entry, body_ctx)

    def _prune(self):
        """drop nodes unreachable from entry (e.g. unused finally copies)."""
        seen = set()
        st = [self.entry]
        while st:
            n = st.pop()
            if n.id in seen:
                continue
            seen.add(n.id)
            st.extend(m for _, m in n.succ)
        self.nodes = [n for n in self.nodes if n.id in seen]
        for n in self.nodes:
            n.pred = [(l, p) for (l, p) in n.pred if p.id in seen]

    # ---------------------------------------------------------------- queries
    def nodes_of(self, stmt: ast.AST) -> list[Node]:
        """All CFG nodes (finally copies included) whose statement is `stmt` or that
        evaluate an expression inside `stmt`."""
        return [n for n in self.nodes if n.stmt is stmt and n.kind not in ("with_exit", "fin_end", "dispatch")]

    def nodes_containing(self, node: ast.AST) -> list[Node]:
        """CFG nodes that evaluate the AST `node` (an expression or statement)."""
        out = []
        for n in self.nodes:
            if n.stmt is node and n.kind not in ("with_exit", "fin_end", "dispatch", "handler"):
                out.append(n)
                continue
            for e in n.exprs:
                if e is node or any(c is node for c in ast.walk(e)):
                    out.append(n)
                    break
        return out

    def dominators(self) -> dict[int, set[int]]:
        """node id -> set of ids of its dominators (all edges, all exception tokens:
        an over-approximation of paths, hence sound for 'A dominates B' claims)."""
        if self._dom is not None:
            return self._dom
        ids = [n.id for n in self.nodes]
        allset = set(ids)
        dom = {i: set(allset) for i in ids}
        dom[self.entry.id] = {self.entry.id}
        order = self._rpo()
        changed = True
        while changed:
            changed = False
            for n in order:
                if n is self.entry:
                    continue
                preds = [p for _, p in n.pred]
                if preds:
                    new = set.intersection(*(dom[p.id] for p in preds)) | {n.id}
                else:
                    new = {n.id}
                if new != dom[n.id]:
                    dom[n.id] = new
                    changed = True
        self._dom = dom
        return dom

    def _rpo(self) -> list[Node]:
        seen, out = set(), []

        def dfs(n):
            st = [(n, iter(n.succ))]
            seen.add(n.id)
            while st:
                node, it = st[-1]
                for _, m in it:
                    if m.id not in seen:
                        seen.add(m.id)
                        st.append((m, iter(m.succ)))
                        break
                else:
                    out.append(node)
                    st.pop()

        dfs(self.entry)
        return list(reversed(out))

    def dominated_by(self, b: Node, pred: ty.Callable[[Node], bool]) -> bool:
        """every path entry -> b passes through some node satisfying pred (other than b)."""
        seen = set()
        st = [b]
        # backwards search avoiding pred nodes: reaching entry means not dominated
        while st:
            n = st.pop()
            if n.id in seen:
                continue
            seen.add(n.id)
            if n is not b and pred(n):
                continue
            if n is self.entry:
                return False
            st.extend(p for _, p in n.pred)
        return True

    def dominated_by_edge(self, b: Node, src_pred: ty.Callable[[Node], bool], label: str) -> bool:
        """every path entry -> b traverses an edge (src --label--> ...) with src_pred(src)."""
        seen = set()
        st = [b]
        while st:
            n = st.pop()
            if n.id in seen:
                continue
            seen.add(n.id)
            if n is self.entry:
                return False
            for l, p in n.pred:
                if l == label and src_pred(p):
                    continue
                st.append(p)
        return True

    def reachable_from(self, starts: list[Node], labels: set[str] | None = None) -> set[int]:
        seen = set()
        st = list(starts)
        while st:
            n = st.pop()
            if n.id in seen:
                continue
            seen.add(n.id)
            for l, m in n.succ:
                if labels is None or l in labels:
                    st.append(m)
        return seen


# --------------------------------------------------------------------------- #
# token-aware exploration
# --------------------------------------------------------------------------- #


# measured by every run and reported in the evidence
STATS = {"explorations": 0, "states": 0, "cfgs_built": 0, "cfg_nodes": 0}


@dataclass
class Escape:
    exit_kind: str  # 'return' | 'raise' | 'check' (a `check` callback fired at a node)
    token: str | None
    path: list[tuple[Node, str | None]]
    raiser: Node | None = None  # last node that raised the pending token
    state: ty.Any = None  # abstract state at the exit / check point
    node: Node | None = None  # for 'check' escapes: the node at which the check fired


def explore(
    cfg: CFG,
    starts: list[tuple[Node, str | None]],
    tokens_of: ty.Callable[[Node], set[str]],
    stop: ty.Callable[[Node], bool] = lambda n: False,
    start_edges: str = "all",
    visit: ty.Callable[[Node, str | None], None] | None = None,
    state0: ty.Any = None,
    transfer: ty.Callable[[Node, ty.Any, bool], ty.Any] | None = None,
    edge_ok: ty.Callable[[Node, str, ty.Any], bool] | None = None,
    check: ty.Callable[[Node, ty.Any, str | None], bool] | None = None,
) -> list[Escape]:
    """Small abstract interpreter over the CFG.

    Explores forward from `starts` = [(node, pending_token)], never expanding nodes
    for which stop(node) holds.  Returns the function exits reached (with a witness
    path and the abstract state).

    start_edges: 'all' -- the start node itself executes (it may raise); 'normal' --
    begin at the normal successors of the start node (the start node completed).

    Abstract state (optional, hashable): `transfer(node, state, completed)` gives the
    state after `node` completed normally (completed=True) or raised (False);
    `edge_ok(node, label, state)` prunes infeasible branch edges ('T'/'F');
    `check(node, state, pending_token)` is evaluated on arrival at every node and a True
    result records a 'check' escape (exploration continues)."""
    parent: dict = {}
    work: list = []
    seen = set()

    def push(n, tok, st, prev, rz):
        # the raiser of a pending token is part of the state: every statement from
        # which an exit is reachable is reported, not just one witness per exit
        key = (n.id, tok, st, rz.id if (rz is not None and tok is not None) else None)
        if key in seen:
            return
        seen.add(key)
        parent[key] = prev
        work.append((n, tok, st, rz))

    def path_to(key):
        path = []
        k = key
        while k is not None:
            path.append((nodes[k[0]], k[1]))
            k = parent.get(k)
        return list(reversed(path))

    nodes = {n.id: n for n in cfg.nodes}
    start_keys = set()
    for n, tok in starts:
        if start_edges == "all":
            start_keys.add((n.id, tok, state0, None))
            push(n, tok, state0, None, None)
        else:
            k0 = (n.id, tok, state0, None)
            seen.add(k0)
            parent[k0] = None
            st1 = transfer(n, state0, True) if transfer else state0
            for l, m in n.succ:
                if l in ("n", "T", "F"):
                    if edge_ok is None or edge_ok(n, l, st1):
                        push(m, tok, st1, k0, None)
    escapes: list[Escape] = []
    STATS["explorations"] += 1
    while work:
        n, tok, st, rz = work.pop()
        STATS["states"] += 1
        if visit is not None:
            visit(n, tok)
        key = (n.id, tok, st, rz.id if (rz is not None and tok is not None) else None)
        if check is not None and check(n, st, tok):
            escapes.append(Escape("check", tok, path_to(key), rz, st, n))
        if n.kind == "exit":
            escapes.append(Escape("return" if n is cfg.exit_ret else "raise", tok, path_to(key), rz, st, n))
            continue
        if stop(n) and key not in start_keys:
            continue
        if n.kind == "dispatch":
            # route the pending token through the handlers
            stopped = False
            for names, entry in n.handlers:
                c = catches(names, tok) if tok is not None else "may"
                if c in ("must", "may"):
                    push(entry, None, st, key, None)
                if c == "must":
                    stopped = True
                    break
            if not stopped:
                for l, m in n.succ:
                    if l == "x":
                        push(m, tok, st, key, rz)
            continue
        if n.kind in ("fin_end", "with_exit"):
            for l, m in n.succ:
                if l == "x":
                    if tok is not None:
                        push(m, tok, st, key, rz)
                else:
                    if tok is None:
                        push(m, None, st, key, None)
            continue
        # ordinary node: normal successors keep the pending token (finally copies)
        st_done = transfer(n, st, True) if transfer else st
        for l, m in n.succ:
            if l in ("n", "T", "F", "h"):
                if edge_ok is None or edge_ok(n, l, st_done):
                    push(m, tok, st_done, key, rz)
        toks = tokens_of(n)
        if toks:
            st_exc = transfer(n, st, False) if transfer else st
            for l, m in n.succ:
                if l == "x":
                    for t in sorted(toks):
                        push(m, t, st_exc, key, n)
    return escapes


def format_path(path: list[tuple[Node, str | None]], limit: int = 14) -> list[str]:
    out = []
    for n, tok in path:
        if n.kind in ("fin_end", "dispatch", "with_exit") and len(path) > limit:
            continue
        out.append(f"L{n.lineno}:{n.kind}:{n.text(70)}" + (f" [pending {tok}]" if tok else ""))
    if len(out) > limit:
        out = out[: limit // 2] + ["..."] + out[-limit // 2 :]
    return out
