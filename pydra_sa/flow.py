"""Def-use / 'value derives from' analysis (flow-insensitive within a function,
property getters and small repo helpers inlined to a stated bound)."""

from __future__ import annotations

import ast
import typing as ty

from .model import FuncInfo, ClassInfo, dotted, walk_own, norm
from .resolve import Resolver

INLINE_BOUND = 2


class Roots:
    """roots of a value: parameter names, attribute chains, callee names, constants."""

    def __init__(self):
        self.params: set[str] = set()
        self.attrs: set[str] = set()  # dotted chains like 'self._readonly_caches'
        self.calls: set[str] = set()  # resolved callee names feeding the value
        self.consts: list = []
        self.nodes: list[ast.AST] = []  # every expression visited

    def merge(self, o: "Roots"):
        self.params |= o.params
        self.attrs |= o.attrs
        self.calls |= o.calls
        self.consts += o.consts
        self.nodes += o.nodes


class Flow:
    def __init__(self, resolver: Resolver):
        self.rs = resolver
        self.repo = resolver.repo

    def derives(self, expr: ast.AST, fn: FuncInfo | None, depth: int = INLINE_BOUND, _seen: set | None = None, through_calls: bool = True) -> Roots:
        """what `expr` (evaluated in `fn`) may derive from."""
        _seen = _seen if _seen is not None else set()
        r = Roots()
        self._walk(expr, fn, depth, _seen, r, through_calls)
        return r

    def _walk(self, expr, fn, depth, seen, r: Roots, through_calls: bool):
        if expr is None:
            return
        r.nodes.append(expr)
        if isinstance(expr, ast.Name):
            key = (fn.qualname if fn else None, expr.id)
            if key in seen:
                return
            seen.add(key)
            f = fn
            defs = None
            while f is not None:
                d = self.rs.local_defs(f).get(expr.id)
                if d:
                    defs = (f, d)
                    break
                f = f.parent
            if defs is None:
                r.attrs.add(expr.id)  # global / builtin name
                return
            f, dl = defs
            for kind, payload in dl:
                if kind in ("param", "vararg", "kwarg"):
                    r.params.add(f"{f.qualname}:{payload.arg}")
                elif kind in ("assign", "aug", "with", "for"):
                    self._walk(payload, f, depth, seen, r, through_calls)
                elif kind.endswith("_unpack") or kind.endswith("_star"):
                    p = payload
                    while isinstance(p, tuple):
                        p = p[0]
                    self._walk(p, f, depth, seen, r, through_calls)
            return
        if isinstance(expr, ast.Attribute):
            d = dotted(expr)
            if d:
                r.attrs.add(d)
            # property inlining
            if depth > 0 and isinstance(expr.ctx, ast.Load):
                base = self.rs.type_of(expr.value, fn)
                for c in base.inst:
                    m = c.find_method(expr.attr)
                    if m is not None and m.is_property_getter:
                        key = ("prop", m.qualname)
                        if key in seen:
                            continue
                        seen.add(key)
                        for n in walk_own(m.node):
                            if isinstance(n, ast.Return) and n.value is not None:
                                sub = Roots()
                                self._walk(n.value, m, depth - 1, seen, sub, through_calls)
                                # re-root 'self.x' of the property on the receiver
                                r.merge(sub)
            self._walk(expr.value, fn, depth, seen, r, through_calls)
            return
        if isinstance(expr, ast.Call):
            res = self.rs.resolve_call(expr, fn)
            for t in res.targets:
                r.calls.add(t if isinstance(t, str) else t.qualname)
            if not res.targets and res.attr:
                r.calls.add("attr:" + res.attr)
            if isinstance(expr.func, ast.Attribute):
                self._walk(expr.func.value, fn, depth, seen, r, through_calls)
            if through_calls:
                for a in expr.args:
                    self._walk(a.value if isinstance(a, ast.Starred) else a, fn, depth, seen, r, through_calls)
                for k in expr.keywords:
                    self._walk(k.value, fn, depth, seen, r, through_calls)
            return
        if isinstance(expr, ast.Constant):
            r.consts.append(expr.value)
            return
        if isinstance(expr, ast.Lambda):
            self._walk(expr.body, fn, depth, seen, r, through_calls)
            return
        for ch in ast.iter_child_nodes(expr):
            if isinstance(ch, (ast.expr, ast.comprehension, ast.keyword, ast.FormattedValue)):
                if isinstance(ch, ast.comprehension):
                    self._walk(ch.iter, fn, depth, seen, r, through_calls)
                    for i in ch.ifs:
                        self._walk(i, fn, depth, seen, r, through_calls)
                elif isinstance(ch, ast.keyword):
                    self._walk(ch.value, fn, depth, seen, r, through_calls)
                else:
                    self._walk(ch, fn, depth, seen, r, through_calls)
